"""C17 — iCalendar VTIMEZONE zones agree with the same rules given as a TZ string."""
import io, datetime, warnings
import basecorr
from vlib import hexs, exc_kind, ilist

PROP = "C17"
TRUSTED = [
    "Model/ICal.lean is a hand model of tzical._parse_rfc/_parse_offset/get and _tzicalvtz._find_comp/_find_compdt (with the ten-entry cache) and of _tzinfo.fromutc/_fold_status/is_ambiguous; tied by the ical.* correspondence ops; _parse_rfc, _parse_offset, _find_comp/_find_compdt/utcoffset/dst/tzname are in addition re-translated from source on every run and proved equal to the model (gen_eq_model_*)",
    "a component's recurrence is abstracted to its sorted onset list: rrulestr(...) of the component lines and rrule.before() are C13/C01/C12 (ical_rrule_link_partial); the correspondence reads the onsets back from the implementation's own rrule objects",
    "str.splitlines/rstrip/strip/upper/int are modelled for ASCII text only",
]
ASSUMPTIONS = [
    "VTIMEZONE texts in the correspondence are ASCII; non-ASCII whitespace / digits are outside the model",
    "equivalence with tzstr/tzrange is required from the first onset on (C17 statement) and for rules in the C08 domain (times of day in [0, 24h), a month apart, away from the year boundary)",
]
RULE = ("generated rule pairs (std offset x saving {30m,1h,2h} x Mm.w.d / fixed month-day rules, either hemisphere, times with minutes) "
        "rendered as VTIMEZONE with RRULEs (and as RDATE lists), components permuted, lines folded, names in mixed case; each compared "
        "with the tzstr of the same rules at every transition +- {1 s .. 1 day} (UTC side and wall side, both folds) and on a grid; "
        "distinct = distinct (definition, instant, side); non-trivial = instant within two days of a transition, or a get()/malformed class")

WD = ["SU", "MO", "TU", "WE", "TH", "FR", "SA"]

def off4(o):
    sg = "+" if o >= 0 else "-"
    o = abs(o)
    if o % 60:
        return "%s%02d%02d%02d" % (sg, o // 3600, o % 3600 // 60, o % 60)
    return "%s%02d%02d" % (sg, o // 3600, o % 3600 // 60)

def hms(t):
    return "%02d%02d%02d" % (t // 3600, t % 3600 // 60, t % 60)

def rrule_of(rule):
    if rule[0] == "M":
        _, m, w, d = rule
        return "FREQ=YEARLY;BYMONTH=%d;BYDAY=%d%s" % (m, w if w < 5 else -1, WD[d])
    _, m, dd = rule            # fixed month/day
    return "FREQ=YEARLY;BYMONTH=%d;BYMONTHDAY=%d" % (m, dd)

def posix_rule(rule):
    if rule[0] == "M":
        return "M%d.%d.%d" % rule[1:]
    _, m, dd = rule
    n = (datetime.date(2001, m, dd) - datetime.date(2001, 1, 1)).days + 1
    return "J%d" % n

def ptime(t):
    h, r = divmod(t, 3600); m, s = divmod(r, 60)
    return "/%d" % h if not (m or s) else ("/%d:%02d" % (h, m) if not s else "/%d:%02d:%02d" % (h, m, s))

def poff(o):
    o = -o; sg = "-" if o < 0 else ""; o = abs(o); h, m = divmod(o // 60, 60)
    return "%s%d" % (sg, h) if m == 0 else "%s%d:%02d" % (sg, h, m)

def gen_spec(rng):
    south = rng.random() < 0.4
    std = rng.choice([-36000, -18000, -12600, 0, 3600, 19800, 34200, 43200])
    if rng.random() < 0.15:
        std += rng.choice([17, -43, 2, 59])          # sub-minute offsets (6-digit TZOFFSET form; reference is a tzrange)
    save = rng.choice([3600, 3600, 1800, 7200])
    def rule(early):
        if rng.random() < 0.75:
            return ("M", rng.choice([3, 4, 5] if early else [9, 10, 11]), rng.randint(1, 5), rng.randint(0, 6))
        return ("D", rng.choice([3, 4, 5] if early else [9, 10, 11]), rng.randint(1, 28))
    sr, er = rule(not south), rule(south)
    st = rng.choice([0, 3600, 7200, 7200, 10800, 5400, 9000, 82800])
    et = rng.choice([7200, 7200, 10800, 9000, 14400, 82800, save, save + 1800])
    et = max(et, save)          # keep end time - saving in [0, 24h): the C08 domain
    return {"std": std, "dst": std + save, "sr": sr, "er": er, "st": st, "et": et, "south": south}

def tzstr_of(spec):
    return "SSS%sDDD%s,%s%s,%s%s" % (poff(spec["std"]), poff(spec["dst"]), posix_rule(spec["sr"]), ptime(spec["st"]),
                                     posix_rule(spec["er"]), ptime(spec["et"]))

def reference_zone(spec):
    """the tzstr of the same rules; a tzrange (explicit offsets + relativedelta rules) when the offsets have seconds"""
    from dateutil import tz, relativedelta as rd
    if spec["std"] % 60 == 0:
        return tz.tzstr(tzstr_of(spec))
    def delta(r, secs):
        if r[0] == "M":
            _, m, w, d = r
            wd = (d - 1) % 7
            kw = dict(month=m, day=31, weekday=rd.weekday(wd, -1)) if w == 5 else dict(month=m, day=1, weekday=rd.weekday(wd, w))
        else:
            kw = dict(month=r[1], day=r[2])
        return rd.relativedelta(seconds=secs, **kw)
    save = spec["dst"] - spec["std"]
    return tz.tzrange("SSS", spec["std"], "DDD", spec["dst"], delta(spec["sr"], spec["st"]), delta(spec["er"], spec["et"] - save))

def fold_line(rng, line):
    if len(line) > 12 and rng.random() < 0.3:
        k = rng.randint(3, len(line) - 3)
        return line[:k] + "\r\n " + line[k:]
    return line

def vtimezone(spec, rng=None, tzid="Test", first_year=1970, order=0, rdates=None, case=0, names=("SSS", "DDD")):
    def comp(kind, t, rule, ofrom, oto, name, key):
        lines = ["BEGIN:%s" % kind]
        body = ["DTSTART:%d0101T%s" % (first_year, hms(t))]
        if rdates is None:
            body.append("RRULE:" + rrule_of(rule))
        else:
            body[0] = "DTSTART:" + rdates[key][0]
            if len(rdates[key]) > 1:
                body.append("RDATE:" + ",".join(rdates[key][1:]))
        body += ["TZOFFSETFROM:" + off4(ofrom), "TZOFFSETTO:" + off4(oto)]
        if name is not None:
            body.append("TZNAME:" + name)
        if rng is not None:
            rng.shuffle(body)
            if rng.random() < 0.2:
                body.insert(rng.randint(0, len(body)), "COMMENT:no comment")
        return lines + body + ["END:%s" % kind]
    s = comp("STANDARD", spec["et"], spec["er"], spec["dst"], spec["std"], names[0], "std")
    d = comp("DAYLIGHT", spec["st"], spec["sr"], spec["std"], spec["dst"], names[1], "dst")
    comps = s + d if order == 0 else d + s
    lines = ["BEGIN:VTIMEZONE", "TZID:%s" % tzid] + comps + ["END:VTIMEZONE"]
    if case:
        lines = [(l.split(":", 1)[0].lower() + ":" + l.split(":", 1)[1]) if not l.startswith(("BEGIN", "END")) else l for l in lines]
    if rng is not None:
        lines = [fold_line(rng, l) for l in lines]
    return "\r\n".join(lines) + "\r\n"

def rule_date(y, rule):
    import calendar
    if rule[0] == "M":
        _, m, w, d = rule
        first = datetime.date(y, m, 1)
        day = 1 + ((d - 1) % 7 - first.weekday()) % 7 + 7 * (w - 1)
        if day > calendar.monthrange(y, m)[1]:
            day -= 7
        return datetime.date(y, m, day)
    return datetime.date(y, rule[1], rule[2])

def transitions_utc(spec, y):
    a = datetime.datetime.combine(rule_date(y, spec["sr"]), datetime.time()) + datetime.timedelta(seconds=spec["st"] - spec["std"])
    b = datetime.datetime.combine(rule_date(y, spec["er"]), datetime.time()) + datetime.timedelta(seconds=spec["et"] - spec["dst"])
    return a, b

DELTAS = (-86400, -7201, -7200, -3601, -3600, -1801, -1800, -1, 0, 1, 1799, 1800, 3599, 3600, 7199, 7200, 86400)

def secs(dt):
    return dt.toordinal() * 86400 + dt.hour * 3600 + dt.minute * 60 + dt.second

def load(text):
    from dateutil import tz
    return tz.tzical(io.StringIO(text))

# ------------------------------------------------------------------ correspondence

def impl_parse(text):
    try:
        t = load(text)
    except Exception as ex:
        return "err %s" % exc_kind(ex), None
    zs = []
    for tzid, z in t._vtz.items():
        comps = ["%d,%d,%d,%s" % (int(c.tzoffsetfrom.total_seconds()), int(c.tzoffsetto.total_seconds()), int(c.isdst),
                                  "-" if c.tzname is None else "s" + hexs(c.tzname)) for c in z._comps]
        zs.append(hexs(tzid) + "=" + "|".join(comps))
    return "ok %d %s" % (len(zs), ";".join(zs)), t

def strip_rrulelines(model_line):
    # the model also returns each component's collected recurrence lines; the implementation turns them into an rrule
    if not model_line.startswith("ok "):
        return model_line
    head, _, rest = model_line.partition(" ")
    n, _, zones = rest.partition(" ")
    out = []
    for z in zones.split(";") if zones else []:
        tzid, _, comps = z.partition("=")
        cs = []
        for c in comps.split("|"):
            parts = c.split(",", 4)
            cs.append(",".join(parts[:4]))
        out.append(tzid + "=" + "|".join(cs))
    return "ok %s %s" % (n, ";".join(out))

def group_rejected(lines):
    """what tzical does with a component's recurrence lines: rrulestr(..., compatible=True, ignoretz=True, cache=True) raises
    ValueError (since fix D-C01-interval also for a rule whose INTERVAL is below 1)"""
    from dateutil import rrule
    if not lines:
        return False
    try:
        with warnings.catch_warnings():
            warnings.simplefilter("ignore")
            rrule.rrulestr("\n".join(lines), compatible=True, ignoretz=True, cache=True)
    except ValueError:
        return True
    return False

def _unhex_lines(txt):
    return [bytes.fromhex(h).decode() if h != "." else "" for h in txt.strip("[]").split(",") if h]

def rrulestr_rejects(model_line):
    """do the recurrence lines the model collected for some component make rrulestr raise (as tzical calls it)?"""
    _, _, rest = model_line.partition(" ")
    _, _, zones = rest.partition(" ")
    for z in zones.split(";") if zones else []:
        for c in z.partition("=")[2].split("|"):
            parts = c.split(",", 4)
            if len(parts) < 5:
                continue
            if group_rejected(_unhex_lines(parts[4])):
                return True
    return False

def rrule_groups_rejected(line):
    groups = line[3:].split(";") if len(line) > 3 else []
    return any(group_rejected(_unhex_lines(g)) for g in groups)

def mutate_text(rng, text):
    lines = text.replace("\r\n ", "").split("\r\n")
    lines = [l for l in lines if l]
    if len(lines) < 3:
        return text + "TZID:x\r\n"
    k = rng.randint(0, 13)
    protected = lambda l: l.upper().startswith(("RRULE", "DTSTART", "RDATE"))
    if k in (12, 13):
        idx = [i for i, l in enumerate(lines) if l.upper().startswith("RRULE")]
        if idx and k == 12:
            i = rng.choice(idx)
            lines[i] = lines[i] + rng.choice([";INTERVAL=0", ";INTERVAL=-1", ";INTERVAL=2", ";FREQ=BOGUS", ";BYDAY=XX", ";COUNT=x", ";UNTIL=zzz", ";WKST=9",
                                              ";BYSETPOS=400", "", ";"]) if rng.random() < 0.8 else \
                rng.choice(["RRULE:garbage", "RRULE:INTERVAL=2", "EXRULE:FREQ=DAILY;INTERVAL=0", "RRULE:FREQ=YEARLY;INTERVAL=0;BYMONTH=3;BYDAY=1SU", "RRULE:"])
        else:
            idx = [i for i, l in enumerate(lines) if l.upper().startswith("DTSTART")]
            if idx:
                i = rng.choice(idx)
                if rng.random() < 0.5:
                    del lines[i]                      # a component with a recurrence line but no DTSTART
                else:
                    lines[i] = rng.choice(["DTSTART:notadate", "DTSTART;VALUE=DATE:19700101", "DTSTART;TZID=X:19700101T000000", "DTSTART:19700101", "DTSTART:"])
        return "\r\n".join(lines) + "\r\n"
    if k == 0:
        i = rng.randrange(len(lines)); del lines[i]
    elif k == 1:
        i = rng.randrange(len(lines)); lines.insert(i, rng.choice(["X-FOO:bar", "BEGIN:OTHER", "END:OTHER", "TZURL:http://x", "LAST-MODIFIED:20200101T000000Z",
                                                                 "COMMENT:c", "TZID:Other", "TZNAME;LANGUAGE=en:EST", "TZOFFSETTO;X=1:+0100", "nocolon", "", "  ",
                                                                 "BEGIN:STANDARD", "END:DAYLIGHT", "END:VTIMEZONE", "BEGIN:VTIMEZONE"]))
    elif k == 2:
        i, j = rng.randrange(len(lines)), rng.randrange(len(lines)); lines[i], lines[j] = lines[j], lines[i]
    elif k == 3:
        i = rng.randrange(len(lines))
        if not protected(lines[i]) and ":" in lines[i]:
            n, v = lines[i].split(":", 1)
            lines[i] = n + ":" + rng.choice([v + " ", " " + v, v[:-1], v + "0", "", "+1", "-+130", "+01:00", "0100", "+010000", "+01000", "1_00", v.lower()])
    elif k == 4:
        i = rng.randrange(len(lines))
        if not protected(lines[i]):
            lines[i] = lines[i].lower() if rng.random() < 0.5 else lines[i].replace(":", ";", 1)
    elif k == 5:
        lines = lines + lines            # two zones with the same id
    elif k == 6:
        lines = lines + [l.replace("TZID:Test", "TZID:Second") for l in lines]
    elif k == 7:
        i = rng.randrange(len(lines))
        if not protected(lines[i]):
            lines[i] = lines[i] + rng.choice([" ", "\t", "  "])
    elif k == 8:
        i = rng.randrange(1, len(lines)); lines[i] = " " + lines[i]       # becomes a continuation of the previous line
    elif k in (10, 11):
        # several VTIMEZONEs, each of the later ones with its own TZID, without a TZID (mandatory per zone), or with the
        # TZID only after the components; per-zone state (TZID, component list) must not leak from one zone to the next
        zone = list(lines)
        for j in range(rng.randint(1, 2)):
            variant = rng.randint(0, 3)
            nz = [l.replace("TZID:Test", "TZID:Second" if j == 0 else "TZID:Third") for l in zone]
            if variant == 1:
                nz = [l for l in nz if not l.upper().startswith("TZID")]
            elif variant == 2:
                tz_l = [l for l in nz if l.upper().startswith("TZID")]
                nz = [l for l in nz if not l.upper().startswith("TZID")]
                nz = nz[:-1] + tz_l + nz[-1:]
            if rng.random() < 0.5:
                # the same rules under other names: every zone keeps ITS OWN TZNAMEs (nothing is shared between the zones of a stream)
                nz = [(l + str(j + 2)) if l.upper().startswith("TZNAME:") else l for l in nz]
            if variant == 3:
                # a zone without components after a complete one
                nz = [l for l in nz if l.upper().startswith(("BEGIN:VTIMEZONE", "END:VTIMEZONE", "TZID"))]
            lines = lines + nz
    else:
        sep = rng.choice(["\n", "\r", "\r\n"])
        return sep.join(lines) + sep
    return "\r\n".join(lines) + "\r\n"

def comps_wire(z, lo, hi):
    parts = []
    for c in z._comps:
        ons = [secs(d) for d in c.rrule.between(lo, hi, inc=True)] if c.rrule is not None else []
        parts.append("%d,%d,%d,%s" % (int(c.tzoffsetfrom.total_seconds()), int(c.tzoffsetto.total_seconds()), int(c.isdst), ilist(ons)))
    return "|".join(parts)

def correspondence(ctx):
    basecorr.run(ctx)
    from dateutil import tz
    rng = ctx.subrng("corr")
    n = ctx.budget(400, 12000)
    texts = []
    for i in range(n // 4):
        spec = gen_spec(rng)
        texts.append(vtimezone(spec, rng, order=rng.randint(0, 1), case=rng.randint(0, 1)))
    base = list(texts)
    for _ in range(n):
        t = rng.choice(base)
        for _ in range(rng.randint(1, 2)):
            t = mutate_text(rng, t)
        texts.append(t)
    texts += ["", "\r\n", "BEGIN:VTIMEZONE\r\nEND:VTIMEZONE\r\n", "BEGIN:VTIMEZONE\r\nTZID:x\r\nEND:VTIMEZONE\r\n", "garbage"]
    reqs, exp = [], []
    for t in dict.fromkeys(texts):
        if not all(ord(c) < 128 for c in t):
            continue
        e, obj = impl_parse(t)
        reqs.append("ical.parse " + hexs(t)); exp.append(("parse", e))
        if obj is not None:
            for tzid in (None, "Test", "Second", "nope"):
                try:
                    z = obj.get(tzid)
                    g = "ok none" if z is None else "ok %d" % list(obj._vtz.values()).index(z)
                except Exception as ex:
                    g = "err %s" % exc_kind(ex)
                reqs.append("ical.get %s %s" % (hexs(t), "-" if tzid is None else hexs(tzid))); exp.append(("get", g))
    for sv in ["+0100", "-0530", "0100", "+013015", "-000001", "", " ", "+", "+1", "+01:00", "+01000", "-+130", " +0100 ", "+01_0", "1_00", "+0a00", "++100", "+ 100", "123456", "+9999", "-999999"]:
        try:
            g = "ok %d" % tz.tzical._parse_offset(None, sv)
        except Exception as ex:
            g = "err %s" % exc_kind(ex)
        reqs.append("ical.offset " + hexs(sv)); exp.append(("offset", g))
    got = ctx.driver(reqs)
    # the TRANSLATED _parse_rfc (Generated/TzRfcKernels.lean) on the same texts: equal to the model by C17.gen_eq_model_parse_rfc;
    # run through the driver as well so that the translator's primitives (Model/RfcPy.lean) are exercised on every run
    if ((ctx.lean.gen_report.get("kernels") or {}).get("TzRfcKernels") or {}).get("ok"):
        pq = [q for q, (kind, _) in zip(reqs, exp) if kind == "parse"]
        gg = ctx.driver(["tzgen.ical.rfc " + q.split()[1] for q in pq])
        mm = dict(zip(reqs, got))
        for q, g2 in zip(pq, gg):
            if g2 != mm[q]:
                ctx.mismatch("tzgen.ical.rfc", q[:300], mm[q][:300], g2[:300])
        ctx.count("translated_parse_rfc_runs", len(pq)); ctx.traces += len(pq)
    else:
        ctx.note("TzRfcKernels not regenerated: %s" % (((ctx.lean.gen_report.get("kernels") or {}).get("TzRfcKernels") or {}).get("error"),))
    if ((ctx.lean.gen_report.get("kernels") or {}).get("TzRfcKernels") or {}).get("ok"):
        # the TRANSLATED tzical.get / tzical.keys on the dict the translated _parse_rfc leaves (C17.tzical_get_spec, get_after_parse)
        gq, ge = [], []
        for t in dict.fromkeys(texts):
            if not all(ord(c) < 128 for c in t):
                continue
            e, obj = impl_parse(t)
            if obj is None:
                continue
            for tzid in (None, "Test", "Second", "Third", "nope"):
                try:
                    z = obj.get(tzid)
                    g = "ok none" if z is None else "ok %d" % list(obj._vtz.values()).index(z)
                except Exception as ex:
                    g = "err %s" % exc_kind(ex)
                if g.startswith("ok"):
                    g += " keys=[" + ",".join(hexs(k) for k in obj.keys()) + "]"
                gq.append("tzgen.ical.get %s %s" % (hexs(t), "-" if tzid is None else hexs(tzid))); ge.append(g)
        for q, e, g in zip(gq, ge, ctx.driver(gq)):
            if e != g:
                ctx.mismatch("tzgen.ical.get", q[:300], e[:300], g[:300])
        ctx.count("translated_get_runs", len(gq)); ctx.traces += len(gq)
        # the TRANSLATED _tzicalvtzcomp.__init__ (offsets as timedeltas, their difference, OverflowError outside the timedelta range)
        from dateutil.tz import tz as _tzmod
        cq, ce = [], []
        for f, t2 in [(3600, 7200), (-18000, -14400), (0, 0), (-1, 1), (86399999999999, 0), (86400000000000, 0), (0, -86399999913601), (0, -86399999913600 - 86400),
                      (10 ** 15, 5), (7200, -10 ** 16), (37800, 39600), (-12600, -9000)]:
            try:
                c = _tzmod._tzicalvtzcomp(f, t2, False)
                us = lambda td: td // datetime.timedelta(microseconds=1)
                g = "ok %d %d %d" % (us(c.tzoffsetfrom), us(c.tzoffsetto), us(c.tzoffsetdiff))
            except Exception as ex:
                g = "err %s" % exc_kind(ex)
            cq.append("tzgen.ical.compinit %d %d" % (f, t2)); ce.append(g)
        for q, e, g in zip(cq, ce, ctx.driver(cq)):
            if e != g:
                ctx.mismatch("tzgen.ical.compinit", q, e, g)
        ctx.traces += len(cq)
    # tzical.__init__ (translated: Gen.tzical_init): a path and a stream with the same text build the same zones / raise alike; what
    # open() raises is raised unchanged
    import tempfile, os as _os
    for t in [x for x in dict.fromkeys(texts) if all(ord(c) < 128 for c in x)][:ctx.budget(12, 120)]:
        with tempfile.NamedTemporaryFile("w", suffix=".ics", delete=False, newline="") as fh:
            fh.write(t)
        try:
            a, _ = impl_parse(t)
            try:
                with warnings.catch_warnings():
                    warnings.simplefilter("ignore")
                    zs = tz.tzical(fh.name)
                b = "ok %d %s" % (len(zs._vtz), ";".join(hexs(k) for k in zs._vtz))
            except Exception as ex:
                b = "err %s" % exc_kind(ex)
            a2 = a if a.startswith("err") else "ok %s %s" % (a.split()[1], ";".join(z.split("=")[0] for z in a.split(" ", 2)[2].split(";")) if len(a.split(" ", 2)) > 2 and a.split(" ", 2)[2] else "")
            if a2.strip() != b.strip():
                ctx.mismatch("tzical.__init__ path vs stream", hexs(t)[:200], a2[:200], b[:200])
            ctx.traces += 1
        finally:
            _os.unlink(fh.name)
    try:
        tz.tzical("/nonexistent/definitely/not/here.ics")
        ctx.mismatch("tzical.__init__ missing path", "-", "raises", "accepted")
    except (IOError, OSError):
        ctx.count("init_missing_path_raises_oserror")
    pending = []
    accepted = []
    for q, (kind, e), g in zip(reqs, exp, got):
        e = e.replace("err ParserError", "err ValueError")       # ParserError is a ValueError
        if kind == "parse" and e.startswith("ok "):
            accepted.append((q, e))
        if kind == "parse":
            if e == "err ValueError" and g.startswith("ok ") and rrulestr_rejects(g):
                # the component's recurrence lines are rejected by rrulestr (C13's domain): the model stops before that call
                ctx.count("parse_rejected_by_rrulestr"); continue
            g = strip_rrulelines(g)
        if kind == "get" and e == "err ValueError" and g.startswith("ok") :
            full = got[reqs.index("ical.parse " + q.split()[1])]
            if rrulestr_rejects(full):
                continue
        if e != g:
            if kind in ("parse", "get") and e == "err ValueError" and g.startswith("ok"):
                pending.append((kind, q, e, g))
            else:
                ctx.mismatch("ical." + kind, q, e, g)
    # the model stops before rrulestr(): ask it for every group of recurrence lines the real code hands to
    # rrulestr (also in zones later overwritten or never closed) and see whether rrulestr rejects one of them
    outs = ctx.driver(["ical.rrulecalls " + q.split()[1] for _, q, _, _ in pending])
    for (kind, q, e, g), o in zip(pending, outs):
        if rrule_groups_rejected(o):
            ctx.count("parse_rejected_by_rrulestr")
        else:
            ctx.mismatch("ical." + kind, q, e, g)
    # the other direction: a text the implementation ACCEPTS must not contain a component whose recurrence lines are
    # rejected by rrulestr
    outs = ctx.driver(["ical.rrulecalls " + q.split()[1] for q, _ in accepted])
    for (q, e), o in zip(accepted, outs):
        if rrule_groups_rejected(o):
            ctx.mismatch("ical.parse", q[:300], e[:200], "err ValueError (rrulestr rejects a component's recurrence lines)")
    ctx.count("accepted_texts_rule_checked", len(accepted))
    ctx.traces += len(reqs)
    ctx.count("corr_texts", len(texts))
    # component selection, fromutc and the cache on real zones
    reqs, exp = [], []
    lo, hi = datetime.datetime(2012, 1, 1), datetime.datetime(2030, 1, 1)
    for i in range(ctx.budget(25, 400)):
        spec = gen_spec(rng)
        z = load(vtimezone(spec, order=i % 2)).get()
        cw = comps_wire(z, lo, hi)
        qs = []
        for y in (2015, 2020, 2024):
            for tu in transitions_utc(spec, y):
                for d in DELTAS[::2]:
                    u = tu + datetime.timedelta(seconds=d)
                    loc = u.replace(tzinfo=tz.UTC).astimezone(z)
                    reqs.append("ical.fromutc %s %d" % (cw, secs(u)))
                    exp.append("ok %d %d" % (secs(loc.replace(tzinfo=None)), loc.fold))
                    for off in (spec["std"], spec["dst"]):
                        w = u + datetime.timedelta(seconds=off)
                        for fold in (0, 1):
                            ww = w.replace(tzinfo=z, fold=fold)
                            idx = z._comps.index(z._find_comp(ww))
                            reqs.append("ical.query %s %d %d" % (cw, secs(w), fold))
                            exp.append("ok %d %d %d" % (idx, int(ww.utcoffset().total_seconds()), int(ww.dst().total_seconds())))
                            qs.append((w, fold))
        # cache transparency: a fresh zone queried in a repetitive order
        z2 = load(vtimezone(spec, order=i % 2)).get()
        seq = [qs[rng.randrange(len(qs))] for _ in range(40)]
        outs = [z2._comps.index(z2._find_comp(w.replace(tzinfo=z2, fold=f))) for w, f in seq]
        reqs.append("ical.cached %s %s" % (cw, ";".join("%d:%d" % (secs(w), f) for w, f in seq)))
        exp.append("ok " + ilist(outs))
    # branches of _find_comp that the two-component zones above never reach: single component, three components,
    # tied onsets (first listed wins), all-DAYLIGHT (first component before any onset), negative saving, and wall
    # times before the first onset
    def comp_txt(kind, dtstart, rrule_, ofrom, oto, name):
        ls = ["BEGIN:%s" % kind, "DTSTART:%s" % dtstart]
        if rrule_:
            ls.append("RRULE:" + rrule_)
        return ls + ["TZOFFSETFROM:" + off4(ofrom), "TZOFFSETTO:" + off4(oto), "TZNAME:" + name, "END:%s" % kind]
    def zone_txt(comps):
        return "\r\n".join(["BEGIN:VTIMEZONE", "TZID:S"] + [l for c in comps for l in c] + ["END:VTIMEZONE"]) + "\r\n"
    S1 = comp_txt("STANDARD", "19701101T020000", "FREQ=YEARLY;BYMONTH=11;BYDAY=1SU", -14400, -18000, "EST")
    D1 = comp_txt("DAYLIGHT", "19700308T020000", "FREQ=YEARLY;BYMONTH=3;BYDAY=2SU", -18000, -14400, "EDT")
    S2 = comp_txt("STANDARD", "20000101T000000", "", -18000, -21600, "CST")                     # a later base-offset change
    Dn = comp_txt("DAYLIGHT", "19701025T020000", "FREQ=YEARLY;BYMONTH=10;BYDAY=-1SU", 3600, 0, "GMT")    # negative saving (winter is 'DST')
    Sn = comp_txt("STANDARD", "19700329T010000", "FREQ=YEARLY;BYMONTH=3;BYDAY=-1SU", 0, 3600, "IST")
    specials = {"single": [S1], "single_dst": [D1], "three": [S1, D1, S2], "three_rev": [S2, D1, S1], "tie_sd": [S1, [l.replace("STANDARD", "DAYLIGHT").replace("EST", "XXX") for l in S1]],
                "tie_ds": [[l.replace("STANDARD", "DAYLIGHT").replace("EST", "XXX") for l in S1], S1], "all_daylight": [D1, [l.replace("20", "21", 1) if l.startswith("DTSTART") else l for l in D1]],
                "neg_saving": [Sn, Dn], "neg_saving_rev": [Dn, Sn]}
    lo2, hi2 = datetime.datetime(1940, 1, 1), datetime.datetime(2030, 1, 1)
    for label, comps in specials.items():
        z = load(zone_txt(comps)).get()
        cw = comps_wire(z, lo2, hi2)
        walls = [datetime.datetime(1950, 6, 1, 12), datetime.datetime(1969, 12, 31, 23, 59, 59), datetime.datetime(1970, 3, 8, 1, 59, 59),
                 datetime.datetime(1970, 3, 8, 2), datetime.datetime(1970, 3, 8, 2, 30), datetime.datetime(1970, 11, 1, 1, 30), datetime.datetime(1970, 11, 1, 2),
                 datetime.datetime(1999, 12, 31, 23), datetime.datetime(2000, 1, 1, 0), datetime.datetime(2000, 1, 1, 0, 30), datetime.datetime(2010, 3, 14, 2, 30),
                 datetime.datetime(2010, 3, 28, 1, 30), datetime.datetime(2010, 10, 31, 1, 30), datetime.datetime(2010, 11, 7, 1, 30), datetime.datetime(2020, 7, 1)]
        for w in walls:
            for fold in (0, 1):
                ww = w.replace(tzinfo=z, fold=fold)
                idx = z._comps.index(z._find_comp(ww))
                reqs.append("ical.query %s %d %d" % (cw, secs(w), fold))
                exp.append("ok %d %d %d" % (idx, int(ww.utcoffset().total_seconds()), int(ww.dst().total_seconds())))
        ctx.count("special_component_layouts")
    got = ctx.driver(reqs)
    for q, e, g in zip(reqs, exp, got):
        if e != g:
            ctx.mismatch(q.split()[0], q[:200] + " …", e, g)
    ctx.traces += len(reqs)

# ------------------------------------------------------------------ oracle

def same(ctx, what, spec, text, a, b, case):
    if a != b:
        ctx.violation("%s: tzical %r != tzstr %r" % (what, b, a), case, {"tzstr": tzstr_of(spec), "vtimezone": text})
        return False
    return True

FRESH_CHILD = """
import sys, io, datetime, warnings
warnings.simplefilter("ignore")
from dateutil import tz
text = bytes.fromhex(%r).decode()
try:
    z = tz.tzical(io.StringIO(text)).get()
    for s in %r:
        u = datetime.datetime(1970, 1, 1) + datetime.timedelta(seconds=s)
        b = u.replace(tzinfo=tz.UTC).astimezone(z)
        print(b.replace(tzinfo=None).isoformat(), b.fold, b.utcoffset(), b.tzname(), b.dst())
except Exception as ex:
    print("EXC", type(ex).__name__)
"""

def answers_in_process(text, points):
    from dateutil import tz
    out = []
    try:
        with warnings.catch_warnings():
            warnings.simplefilter("ignore")
            z = load(text).get()
            for s in points:
                u = datetime.datetime(1970, 1, 1) + datetime.timedelta(seconds=s)
                b = u.replace(tzinfo=tz.UTC).astimezone(z)
                out.append("%s %s %s %s %s" % (b.replace(tzinfo=None).isoformat(), b.fold, b.utcoffset(), b.tzname(), b.dst()))
    except Exception as ex:
        out.append("EXC %s" % type(ex).__name__)
    return out

def oracle_fresh(ctx):
    """the first use in a NEW interpreter gives what a long-running process gives: a definition is loaded and queried as the
    very first dateutil call of a child process (module-level lazy imports and caches empty) and compared with this process,
    whose answers the main oracle compares with the TZ string"""
    from vlib import fresh_interpreters
    rng = ctx.subrng("fresh")
    jobs = []
    for k in range(ctx.budget(6, 48)):
        spec = gen_spec(rng)
        rd = None
        if k % 3 != 1:
            rd = {"dst": [], "std": []}
            for y in range(2014, 2020):
                a = datetime.datetime.combine(rule_date(y, spec["sr"]), datetime.time()) + datetime.timedelta(seconds=spec["st"])
                b = datetime.datetime.combine(rule_date(y, spec["er"]), datetime.time()) + datetime.timedelta(seconds=spec["et"])
                rd["dst"].append(a.strftime("%Y%m%dT%H%M%S")); rd["std"].append(b.strftime("%Y%m%dT%H%M%S"))
        text = vtimezone(spec, rng if k % 2 else None, order=rng.randint(0, 1), rdates=rd)
        epoch = datetime.datetime(1970, 1, 1)
        points = sorted(int((tu - epoch).total_seconds()) + d for y in (2015, 2018) for tu in transitions_utc(spec, y) for d in (-3600, -1, 0, 1, 3600))
        jobs.append((text, points, "rdate" if rd else "rrule"))
    res = fresh_interpreters([FRESH_CHILD % (text.encode().hex(), points) for text, points, _ in jobs])
    for (text, points, kind), (rc, out, err) in zip(jobs, res):
        ctx.case(("fresh", text)); ctx.count("fresh_interpreter_" + kind)
        here = answers_in_process(text, points)
        if rc is None:
            ctx.count("fresh_child_timeout"); continue      # the child process timed out: infrastructure, no verdict
        there = out.strip().splitlines() if rc == 0 else ["child failed rc=%s: %s" % (rc, err.strip().splitlines()[-1:] or "")]
        if here != there:
            i = next((j for j, (x, y) in enumerate(zip(here, there)) if x != y), min(len(here), len(there)))
            ctx.violation("a VTIMEZONE loaded as the first dateutil call of a new interpreter answers differently: %s, this process: %s"
                          % (there[i] if i < len(there) else "<nothing>", here[i] if i < len(here) else "<nothing>"),
                          {"kind": "fresh-interpreter", "mode": kind}, text)

def oracle(ctx):
    from dateutil import tz
    oracle_fresh(ctx)
    rng = ctx.subrng("oracle")
    nspecs = ctx.budget(40, 1200)
    for k in range(nspecs):
        spec = gen_spec(rng)
        mode = k % 3
        years = (2016, 2020, 2023)
        rd = None
        if mode == 2:
            # RDATE lists: explicit onsets 2014..2026
            rd = {"dst": [], "std": []}
            for y in range(2014, 2027):
                a = datetime.datetime.combine(rule_date(y, spec["sr"]), datetime.time()) + datetime.timedelta(seconds=spec["st"])
                b = datetime.datetime.combine(rule_date(y, spec["er"]), datetime.time()) + datetime.timedelta(seconds=spec["et"])
                rd["dst"].append(a.strftime("%Y%m%dT%H%M%S")); rd["std"].append(b.strftime("%Y%m%dT%H%M%S"))
        text = vtimezone(spec, rng if mode else None, order=rng.randint(0, 1), rdates=rd, case=rng.randint(0, 1))
        s = tzstr_of(spec)
        with warnings.catch_warnings():
            warnings.simplefilter("ignore")
            zs = reference_zone(spec)
            try:
                zi = load(text).get()
            except Exception as ex:
                ctx.case((text, "load"))
                ctx.violation("tzical rejects a well-formed VTIMEZONE: %s" % exc_kind(ex), {"kind": "load", "tzstr": s}, text)
                continue
        ctx.count("mode_%s" % ["rrule_plain", "rrule_folded_shuffled", "rdate"][mode])
        if k < 3:
            ctx.sample({"tzstr": s, "vtimezone": text})
        ok = True
        if mode == 2:
            years = (2014,) + years          # the DTSTART itself is the first onset of an RDATE-list component
        for y in years:
            grid = [datetime.datetime(y, 1, 20) + datetime.timedelta(days=d, hours=(d * 5) % 24, minutes=30 * (d % 2)) for d in range(0, 330, 23)] if k % 4 == 0 else []
            us = [(tu + datetime.timedelta(seconds=d), True) for tu in transitions_utc(spec, y) for d in DELTAS] + [(g, False) for g in grid]
            if mode == 2 and y == 2014:
                # the property speaks "from its first onset on": keep instants from two hours before the earliest
                # listed onset of either component (before it the first STANDARD component applies — checked below)
                first = min(transitions_utc(spec, 2014)) - datetime.timedelta(hours=2)   # wall probes reach 2 h back
                us = [(u, near) for (u, near) in us if u >= first + datetime.timedelta(hours=4)]
            for u, near in us:
                if not ok:
                    break
                case = {"kind": "utc", "tzstr": s, "utc": u.isoformat(), "mode": mode}
                ctx.case((s, mode, "utc", secs(u)), nontrivial=near)
                a = u.replace(tzinfo=tz.UTC).astimezone(zs); b = u.replace(tzinfo=tz.UTC).astimezone(zi)
                ta = (a.replace(tzinfo=None), a.fold, a.utcoffset(), a.tzname(), a.dst())
                tb = (b.replace(tzinfo=None), b.fold, b.utcoffset(), b.tzname(), b.dst())
                ok = same(ctx, "UTC %s -> local (wall, fold, offset, abbr, dst)" % u.isoformat(), spec, text, ta, tb, case)
                for off in (spec["std"], spec["dst"]):
                    w = u + datetime.timedelta(seconds=off)
                    for fold in (0, 1):
                        if not ok:
                            break
                        ctx.case((s, mode, "wall", secs(w), fold), nontrivial=near)
                        wa = w.replace(tzinfo=zs, fold=fold); wb = w.replace(tzinfo=zi, fold=fold)
                        ok = same(ctx, "wall %s fold=%d (offset, abbr, dst)" % (w.isoformat(), fold), spec, text,
                                  (wa.utcoffset(), wa.tzname(), wa.dst()), (wb.utcoffset(), wb.tzname(), wb.dst()),
                                  {"kind": "wall", "tzstr": s, "wall": w.isoformat(), "fold": fold, "mode": mode})
                    if ok:
                        ok = same(ctx, "wall %s (exists, ambiguous)" % w.isoformat(), spec, text,
                                  (tz.datetime_exists(w, zs), tz.datetime_ambiguous(w, zs)),
                                  (tz.datetime_exists(w, zi), tz.datetime_ambiguous(w, zi)),
                                  {"kind": "exists", "tzstr": s, "wall": w.isoformat(), "mode": mode})
        # before the first onset the first STANDARD component applies
        early = datetime.datetime(1950, 6, 1, 12, tzinfo=zi) if mode != 2 else datetime.datetime(2000, 6, 1, 12, tzinfo=zi)
        ctx.case((s, mode, "before-first"))
        got = (early.utcoffset(), early.tzname(), early.dst())
        want = (datetime.timedelta(seconds=spec["std"]), "SSS", datetime.timedelta(0))
        if got != want:
            ctx.violation("before the first onset tzical reports %r, the first STANDARD component is %r" % (got, want),
                          {"kind": "before-first", "tzstr": s, "mode": mode}, text)
    # line folding: a definition folded at ANY position (also right after a space, inside TZID / TZNAME values that
    # contain spaces) denotes the same zones with the same names as the unfolded text
    spec = gen_spec(rng)
    base = vtimezone(spec, tzid="Test/US Eastern", names=("Eastern Standard Time", "Eastern Daylight Time"))
    try:
        ref = load(base)
        ref_names = (list(ref.keys()), [c.tzname for c in ref.get()._comps])
        lines = base.split("\r\n")
        budget = ctx.budget(400, 6000)
        tried = 0
        for li, line in enumerate(lines):
            for pos in range(1, len(line)):
                if tried >= budget:
                    break
                if not (line.startswith(("TZID", "TZNAME")) or (li + pos) % 7 == 0):
                    continue
                tried += 1
                folded = "\r\n".join(lines[:li] + [line[:pos], " " + line[pos:]] + lines[li + 1:])
                ctx.case(("fold", li, pos)); ctx.count("fold_positions")
                try:
                    t = load(folded)
                    got = (list(t.keys()), [c.tzname for c in t.get()._comps])
                except Exception as ex:
                    got = "raised " + exc_kind(ex)
                if got != ref_names:
                    ctx.violation("folding line %d at column %d changes the definition: %r instead of %r" % (li, pos, got, ref_names),
                                  {"kind": "fold", "line": li, "col": pos}, folded)
                    break
    except Exception as ex:
        ctx.violation("unfolded reference definition rejected: %s" % exc_kind(ex), {"kind": "fold-ref"}, base)
    # all-DAYLIGHT definition: the first component applies before the first onset
    spec = gen_spec(rng)
    t = vtimezone(spec).replace("STANDARD", "DAYLIGHT")
    ctx.case(("all-daylight",))
    try:
        z = load(t).get()
        datetime.datetime(1950, 1, 1, tzinfo=z).utcoffset()
    except Exception as ex:
        ctx.violation("all-DAYLIGHT definition before the first onset: %s" % exc_kind(ex), {"kind": "all-daylight"}, t)
    # get() semantics
    spec = gen_spec(rng)
    one = vtimezone(spec, tzid="A")
    two = one + vtimezone(gen_spec(rng), tzid="B")
    cases = [(one, None, "zone"), (one, "A", "zone"), (one, "zzz", "none"), (two, None, "ValueError"), (two, "A", "zone"), (two, "B", "zone"),
             ("X:1\r\n", None, "ValueError")]
    for text, tzid, want in cases:
        ctx.case(("get", hexs(text)[:40], tzid)); ctx.count("get_semantics")
        try:
            z = load(text).get(tzid)
            got = "none" if z is None else "zone"
            if got == "zone" and tzid is not None and z._tzid != tzid:
                got = "wrong-zone"
        except ValueError:
            got = "ValueError"
        except Exception as ex:
            got = exc_kind(ex)
        if got != want:
            ctx.violation("tzical.get(%r) on %d-zone text: %s, expected %s" % (tzid, text.count("BEGIN:VTIMEZONE"), got, want),
                          {"kind": "get", "tzid": tzid}, text)
    # malformed definitions raise ValueError
    good = vtimezone(gen_spec(rng)).split("\r\n")
    def drop(prefix, first_only=True):
        out, done = [], False
        for l in good:
            if l.startswith(prefix) and not (done and first_only):
                done = True
                continue
            out.append(l)
        return "\r\n".join(out)
    malformed = {
        "missing-TZID": drop("TZID"), "missing-DTSTART": drop("DTSTART"), "missing-TZOFFSETFROM": drop("TZOFFSETFROM"),
        "missing-TZOFFSETTO": drop("TZOFFSETTO"), "unknown-component": "\r\n".join(good).replace("BEGIN:DAYLIGHT", "BEGIN:SUMMER").replace("END:DAYLIGHT", "END:SUMMER"),
        "unknown-property": "\r\n".join(good).replace("TZNAME:SSS", "X-WHAT:SSS"), "unclosed-component": drop("END:DAYLIGHT"),
        "no-components": "BEGIN:VTIMEZONE\r\nTZID:x\r\nEND:VTIMEZONE\r\n", "empty": "", "bad-offset": "\r\n".join(good).replace("TZOFFSETTO:", "TZOFFSETTO:x", 1),
        "mismatched-end": "\r\n".join(good).replace("END:STANDARD", "END:DAYLIGHT", 1),
        # every VTIMEZONE needs its own TZID and its own components: nothing carries over from the zone before it
        "second-zone-missing-TZID": "\r\n".join(good) + "\r\n" + drop("TZID"),
        "third-zone-missing-TZID": "\r\n".join(good) + "\r\n" + "\r\n".join(good).replace("TZID:Test", "TZID:B") + "\r\n" + drop("TZID"),
        "second-zone-no-components": "\r\n".join(good) + "\r\nBEGIN:VTIMEZONE\r\nTZID:B\r\nEND:VTIMEZONE\r\n",
        "first-zone-missing-TZID": drop("TZID") + "\r\n" + "\r\n".join(good),
    }
    for cls, text in malformed.items():
        ctx.case(("malformed", cls)); ctx.count("malformed_" + cls)
        try:
            load(text); got = "accepted"
        except ValueError:
            got = "ValueError"
        except Exception as ex:
            got = exc_kind(ex)
        if got != "ValueError":
            ctx.violation("malformed VTIMEZONE [%s]: %s instead of ValueError" % (cls, got), {"kind": "malformed", "class": cls}, text)

class _Alarm(BaseException):
    pass

def under_alarm(seconds, fn):
    """run fn() under a wall-clock alarm; returns ("ok", value) | ("raised", kind) | ("timeout", None)"""
    import signal
    def h(*a):
        raise _Alarm()
    old = signal.signal(signal.SIGALRM, h)
    signal.setitimer(signal.ITIMER_REAL, seconds)
    try:
        try:
            return "ok", fn()
        except _Alarm:
            return "timeout", None
        except ValueError:
            return "raised", "ValueError"          # ParserError is a ValueError
        except Exception as ex:
            return "raised", exc_kind(ex)
    finally:
        signal.setitimer(signal.ITIMER_REAL, 0)
        signal.signal(signal.SIGALRM, old)

COMP_TEMPLATE = ("BEGIN:VTIMEZONE\r\nTZID:X\r\nBEGIN:STANDARD\r\n%s\r\nTZOFFSETFROM:+0200\r\nTZOFFSETTO:+0100\r\nEND:STANDARD\r\n"
                 "BEGIN:DAYLIGHT\r\nDTSTART:19700329T020000\r\nRRULE:FREQ=YEARLY;BYMONTH=3;BYDAY=-1SU\r\nTZOFFSETFROM:+0100\r\nTZOFFSETTO:+0200\r\n"
                 "END:DAYLIGHT\r\nEND:VTIMEZONE\r\n")
DT = "DTSTART:19701025T030000"
BAD_RULE_CLASSES = {
    # recurrence lines rrulestr rejects
    "rrule-bad-freq": [DT, "RRULE:FREQ=BOGUS"], "rrule-missing-freq": [DT, "RRULE:INTERVAL=2;BYMONTH=10"], "rrule-garbage": [DT, "RRULE:garbage"],
    "rrule-bad-byday": [DT, "RRULE:FREQ=YEARLY;BYDAY=XX"], "rrule-bad-count": [DT, "RRULE:FREQ=YEARLY;COUNT=x"], "rrule-bad-until": [DT, "RRULE:FREQ=YEARLY;UNTIL=zzz"],
    "rrule-empty": [DT, "RRULE:"], "dtstart-bad-value": ["DTSTART:notadate", "RRULE:FREQ=YEARLY;BYMONTH=10;BYDAY=-1SU"],
    "rdate-bad-value": [DT, "RDATE:notadate"], "exrule-bad-freq": [DT, "RRULE:FREQ=YEARLY", "EXRULE:FREQ=NEVER"],
    # rules that never advance: the zone loaded and every lookup spun forever (review 3b F4); repaired by fix D-C01-interval
    # (rrule.__init__ rejects an interval below 1, so rrulestr raises ValueError inside _parse_rfc)
    "rrule-interval-0-daily": [DT, "RRULE:FREQ=DAILY;INTERVAL=0"], "rrule-interval-0-yearly": [DT, "RRULE:FREQ=YEARLY;INTERVAL=0;BYMONTH=10;BYDAY=-1SU"],
    "rrule-interval-0-minutely": [DT, "RRULE:FREQ=MINUTELY;INTERVAL=0"], "rrule-interval-negative": [DT, "RRULE:FREQ=YEARLY;INTERVAL=-1"],
    "exrule-interval-0": [DT, "RRULE:FREQ=YEARLY;BYMONTH=10;BYDAY=-1SU", "EXRULE:FREQ=DAILY;INTERVAL=0"],
    # a recurrence line but no DTSTART
    "rrule-without-dtstart": ["RRULE:FREQ=YEARLY;BYMONTH=10;BYDAY=-1SU"], "rdate-without-dtstart": ["RDATE:19701025T030000,19711031T030000"],
    "exdate-without-dtstart": ["EXDATE:19701025T030000"],
    "dtstart-unsupported-param": ["DTSTART;TZID=X:19701025T030000", "RRULE:FREQ=YEARLY;BYMONTH=10;BYDAY=-1SU"],
}
# valid RFC rules outside "yearly": a lookup walks the rule from DTSTART, so its cost is the number of occurrences before the query
SUBDAILY_CLASSES = {"rule-hourly": [DT, "RRULE:FREQ=HOURLY"], "rule-minutely": [DT, "RRULE:FREQ=MINUTELY"], "rule-secondly": [DT, "RRULE:FREQ=SECONDLY"],
                    "rule-daily": [DT, "RRULE:FREQ=DAILY"], "rule-weekly": [DT, "RRULE:FREQ=WEEKLY;BYDAY=SU"], "rule-monthly": [DT, "RRULE:FREQ=MONTHLY;BYDAY=-1SU"]}

def load_and_ask(text):
    z = load(text).get()
    return str(datetime.datetime(2020, 6, 1, 12, tzinfo=z).utcoffset())

def oracle_bad_rules(ctx):
    """malformed recurrence parts raise ValueError WHEN THE DEFINITION IS LOADED; no definition that loads may make a lookup hang"""
    budget_s = 2.0
    for cls, body in BAD_RULE_CLASSES.items():
        text = COMP_TEMPLATE % "\r\n".join(body)
        ctx.case(("malformed", cls)); ctx.count("malformed_" + cls)
        st, val = under_alarm(budget_s, lambda: load(text))
        if st == "raised" and val == "ValueError":
            continue
        case = {"kind": "malformed", "class": cls, "load": st if st != "raised" else val}
        if st == "ok":
            st2, val2 = under_alarm(budget_s, lambda: load_and_ask(text))
            case["lookup"] = "timeout" if st2 == "timeout" else (val2 if st2 == "raised" else "answered")
        ctx.violation("malformed VTIMEZONE [%s]: loading %s instead of raising ValueError%s" % (
            cls, "timed out" if st == "timeout" else ("raised " + val if st == "raised" else "succeeded"),
            (", then utcoffset(): " + case["lookup"]) if "lookup" in case else ""), case, text)
    for cls, body in SUBDAILY_CLASSES.items():
        text = COMP_TEMPLATE % "\r\n".join(body)
        ctx.case(("rule-frequency", cls)); ctx.count("frequency_" + cls)
        st, val = under_alarm(budget_s, lambda: load_and_ask(text))
        if st == "ok":
            continue
        case = {"kind": "rule-frequency", "class": cls, "outcome": st if st != "raised" else val}
        ctx.violation("VTIMEZONE with a valid %s component rule: utcoffset(2020-06-01) %s" % (
            cls, "did not return within %.0f s" % budget_s if st == "timeout" else "raised " + val), case, text)

_oracle_without_bad_rules = oracle

def oracle(ctx):
    _oracle_without_bad_rules(ctx)
    oracle_bad_rules(ctx)

KNOWN = {
    # a lookup walks the component's rule from DTSTART (rrule.before with cache=True): for HOURLY / MINUTELY / SECONDLY rules that is
    # 4*10^5 .. 10^9 occurrences. Class AND symptom: only those frequencies, only a time-out (a wrong answer or an exception is still reported)
    "D-C17-subdaily-rule-cost": lambda v: v["case"].get("kind") == "rule-frequency" and v["case"].get("class") in ("rule-hourly", "rule-minutely", "rule-secondly")
        and v["case"].get("outcome") == "timeout",
}

def _shared_funcs():
    from dateutil.tz import tz as tzmod
    V = tzmod._tzicalvtz
    funcs = [V._find_comp, V._find_compdt, V.utcoffset, V.dst]
    tn = getattr(V.tzname, "__wrapped__", V.tzname)
    if hasattr(tn, "__code__"):
        funcs.append(tn)
    return funcs

def replay(ctx, payload):
    c = payload["violation"]["case"]
    print(payload["violation"]["what"])
    if c.get("kind") in ("history", "threads") and c.get("text"):
        import tzshared as S
        mk = lambda: load(c["text"]).get()
        with warnings.catch_warnings():
            warnings.simplefilter("ignore")
            if c["kind"] == "history":
                return S.replay_history(mk(), mk, c["history_wire"])
            return S.replay_threads(mk, mk, _shared_funcs(), "_cache_lock", c)
    if c.get("kind") == "malformed" and isinstance(payload["violation"].get("detail"), str):
        st, val = under_alarm(3.0, lambda: load(payload["violation"]["detail"]))
        print("load:", st, val)
        return st == "raised" and val == "ValueError"
    return False


# --- appended by the translator tie (wt-iso): tzical._parse_offset and _tzicalvtz._find_comp/_find_compdt/utcoffset/dst/tzname (a component's TZNAME is an uninterpreted field of the component object) are re-translated from tz/tz.py on every run
# (Generated/TzObjKernels.lean, harness/translate_obj.py) and compared with the implementation's methods
_correspondence_without_tzobj = correspondence


def correspondence(ctx):
    _correspondence_without_tzobj(ctx)
    import sys, tzobjlib
    tzobjlib.validate_ical(ctx, sys.modules[__name__])

TRUSTED = TRUSTED + [
    "translator tie: harness/translate_obj.py (ObjPy) re-translates tzical._parse_offset and _tzicalvtz._find_comp/_find_compdt/utcoffset/dst/tzname (a component's TZNAME is an uninterpreted field of the component object) from /repo's working tree into Generated/TzObjKernels.lean on every run; Properties/TzObjGen.lean proves the translated functions equal to the hand model (gen_eq_model_* obligations in the Audit file); an edit of those functions changes the generated file and breaks the translation or a named obligation",
    "named primitives of the ObjPy translator (Model/ObjPy.lean), trusted with their documented meaning and exercised by the tzgen.ical.* / tzgen.str.* / tzgen.range.init|eq validation against the implementation's methods on every run: ASCII str.strip/int()/indexing/slicing, `comp.rrule.before(dt, inc=True)` as the last onset <= dt of the component's onset list, `list.index` on (naive datetime, fold) keys, list insert(0)/append/pop, `with self._cache_lock` transparent, `for` loops as monadic folds with a break flag, `relativedelta(**kwargs)` for the keywords month/day/weekday/yearday/nlyearday/seconds/hours producing the model's Delta record, `datetime(year,1,1) + relativedelta` = TzStr.applyDelta, `parser._parsetz` = TzStr.parse, timedelta(seconds=) with its OverflowError, int-or-None offset arguments (timedelta arguments not modelled), the object under construction as the tuple of its fields",
]
# --- end of the appended block

# --- ONE ZONE OBJECT, MANY CALLS (wt-tzrule): a _tzicalvtz keeps a ten-entry lookup cache in two parallel lists under a lock.
def oracle_shared(ctx):
    import tzshared as S
    from dateutil import tz
    rng = ctx.subrng("shared")
    funcs = _shared_funcs()
    for k in range(ctx.budget(4, 30)):
        spec = gen_spec(rng)
        text = vtimezone(spec, order=k % 2)
        mk = lambda text=text: load(text).get()
        shared = mk()
        case = {"zone": "tzical", "tzstr": tzstr_of(spec), "text": text}
        def near(y, n=1):
            qs = []
            for tu in transitions_utc(spec, y):
                for off in (spec["std"], spec["dst"]):
                    for _ in range(n):
                        w = tu + datetime.timedelta(seconds=off + rng.choice([-3600, -1, 0, 1, 1800, 3600]))
                        f = rng.randint(0, 1)
                        qs.append(("wall", w, f)); qs.append(("comp", w, f))
            return qs
        hist = []
        for y in rng.sample(range(1975, 2035), 8):
            hist += near(y)                                      # > 10 distinct keys several times over
        hist += [("wall", datetime.datetime(9999, 12, 31, 23, 59, 59), 1), ("wall", datetime.datetime(1, 1, 1), 0), ("wall", datetime.datetime(1960, 1, 1), 0)]
        pool = list(hist)
        hist += [rng.choice(pool) for _ in range(60)]            # repeats, in and out of the cache
        hist += [("utc", tu + datetime.timedelta(seconds=d)) for tu in transitions_utc(spec, 2021) for d in (-1, 0, 1)]
        with warnings.catch_warnings():
            warnings.simplefilter("ignore")
            if not S.history(ctx, "tzical-cache", shared, mk, hist, case):
                continue
            # the two lists stay in step: same length, at most ten, and entry i of one belongs to entry i of the other
            ctx.case(("cache-shape", case["tzstr"]))
            if len(shared._cachedate) != len(shared._cachecomp) or len(shared._cachedate) > 10:
                ctx.violation("tzical zone cache lists out of step after %d lookups: %d keys, %d components" % (len(hist), len(shared._cachedate), len(shared._cachecomp)),
                              dict(case, kind="cache-shape"), text)
                continue
            ref = mk()
            for (d, fo), c in zip(list(shared._cachedate), list(shared._cachecomp)):
                if shared._comps.index(c) != ref._comps.index(ref._find_comp(d.replace(tzinfo=ref, fold=fo))):
                    ctx.violation("tzical zone cache entry (%s, fold=%d) holds component %d, a fresh zone selects %d" % (
                        d.isoformat(), fo, shared._comps.index(c), ref._comps.index(ref._find_comp(d.replace(tzinfo=ref, fold=fo)))),
                        dict(case, kind="cache-entry"), text)
                    break
            # two threads: a miss that inserts (writer) against a lookup of the same / a cached key, pre-empted at every statement
            if k >= ctx.budget(2, 10):
                continue
            y0, y1 = rng.sample(range(2000, 2030), 2)
            text2 = vtimezone(spec, order=k % 2, first_year=1999)          # short rules: the schedules re-load the definition every time
            mk = lambda text2=text2: load(text2).get()
            tu0, tu1 = transitions_utc(spec, y0), transitions_utc(spec, y1)
            k0 = ("comp", tu0[0] + datetime.timedelta(seconds=spec["dst"] + 3600), 0)        # in DST
            k1 = ("comp", tu1[1] + datetime.timedelta(seconds=spec["std"] + 3600), 0)        # back on standard time
            k2 = ("off", tu1[0] + datetime.timedelta(seconds=spec["dst"] + 60), 0)
            for warm, jobs in (([k0], [[k1], [k1]]), ([k0], [[k1], [k0]]), ([k0, k2], [[k1], [k2]]), ([], [[k0], [k1]])):
                if not S.threads(ctx, "tzical-two-threads", mk, mk, funcs, "_cache_lock", warm, jobs, dict(case, years=[y0, y1], text=text2)):
                    break
    ctx.count("shared_object_zones")

_oracle_without_shared = oracle

def oracle(ctx):
    _oracle_without_shared(ctx)
    oracle_shared(ctx)

_correspondence_without_audit = correspondence

def correspondence(ctx):
    _correspondence_without_audit(ctx)
    import tzshared
    tzshared.run_audit(ctx, ["_tzicalvtz", "_tzicalvtzcomp", "_tzinfo"])

TRUSTED = TRUSTED + [
    "one object, many calls: harness/tzshared.py — history stream on one _tzicalvtz (> 10 distinct lookups several times over, repeats, year 1 / year 9999, then a check that the two cache lists are in step entry by entry), two-thread statement-level schedules over _find_comp/_find_compdt/utcoffset/dst/tzname with `_cache_lock` replaced by a cooperative lock, and an AST audit that nothing but the two cache lists is written outside __init__",
]
# --- end of the appended block

TRUSTED = TRUSTED + [
    "translator tie for tzical._parse_rfc: harness/translate_rfc.py re-translates it from /repo's working tree into Generated/TzRfcKernels.lean on every run (while-loop body and condition, line-loop body on the record of carried locals, whole function); named primitives in Model/RfcPy.lean (split(c,1) with its unpack ValueError, del l[i], l[i] += x, for-loops that only raise, the fuelled while loop - proved never to exhaust its fuel -, rrulestr(...) as a parameter: C13's domain, _tzicalvtzcomp / _tzicalvtz constructors as records, self._vtz as an insertion-ordered association list, locals first bound inside a component starting at the record's defaults); exercised through the driver op tzgen.ical.rfc on every correspondence text",
]


# --- several zones in one stream (wt-tzrule, second wave): zones with IDENTICAL offsets and rules but different TZNAMEs, fetched by TZID,
# answer exactly like the same definition loaded alone (nothing of one zone's components may be reused for another zone)
def oracle_multi_zone(ctx):
    from dateutil import tz
    rng = ctx.subrng("multi-zone")
    for k in range(ctx.budget(6, 60)):
        spec = gen_spec(rng)
        ids = ["Zone/A", "Zone/B", "Zone/C"][:rng.choice([2, 3])]
        names = {"Zone/A": ("AS", "AD"), "Zone/B": ("BS", "BD"), "Zone/C": ("CS", "CD")}
        other = gen_spec(rng)
        parts = []
        for i, zid in enumerate(ids):
            sp = other if (zid == "Zone/C" and rng.random() < 0.5) else spec
            parts.append((zid, sp, vtimezone(sp, rng if k % 2 else None, tzid=zid, names=names[zid], order=(k + i) % 2)))
        stream = "".join(t for _, _, t in parts)
        with warnings.catch_warnings():
            warnings.simplefilter("ignore")
            try:
                multi = load(stream)
            except Exception as ex:
                ctx.case(("multi-zone", stream))
                ctx.violation("tzical rejects a stream of %d well-formed zones: %s" % (len(ids), exc_kind(ex)), {"kind": "multi-zone", "phase": "load"}, stream)
                continue
            ctx.case(("multi-zone-keys", stream))
            if sorted(multi.keys()) != sorted(ids):
                ctx.violation("keys() of a %d-zone stream: %r, expected %r" % (len(ids), multi.keys(), ids), {"kind": "multi-zone", "phase": "keys"}, stream)
                continue
            bad = False
            for zid, sp, text in parts:
                zm, zs = multi.get(zid), load(text).get()
                for y in (2019, 2022):
                    for tu in transitions_utc(sp, y):
                        for d in (-86400, -1, 0, 1, 86400):
                            u = tu + datetime.timedelta(seconds=d)
                            a = u.replace(tzinfo=tz.UTC).astimezone(zm); b = u.replace(tzinfo=tz.UTC).astimezone(zs)
                            ta = (a.replace(tzinfo=None), a.fold, a.utcoffset(), a.tzname(), a.dst())
                            tb = (b.replace(tzinfo=None), b.fold, b.utcoffset(), b.tzname(), b.dst())
                            ctx.case(("multi-zone", zid, tzstr_of(sp), secs(u)), nontrivial=True)
                            if ta != tb or a.tzname() not in names[zid]:
                                ctx.violation("zone %s of a %d-zone stream at %sZ answers %r; the same definition loaded alone answers %r" % (
                                    zid, len(ids), u.isoformat(), ta[1:], tb[1:]), {"kind": "multi-zone", "phase": "lookup", "tzid": zid, "utc": u.isoformat()}, stream)
                                bad = True
                                break
                        if bad: break
                    if bad: break
                if bad: break
        ctx.count("multi_zone_streams")

_oracle_without_multi = oracle

def oracle(ctx):
    _oracle_without_multi(ctx)
    oracle_multi_zone(ctx)
# --- end of the appended block


# --- the last representable years (wt-tzrule, second wave): a yearly component rule still yields its occurrences of year 9998 / 9999
# (DTSTART 9990), so the zone agrees with the tzstr of the same rules there too (years 1..2 are not swept: the DTSTART text of year 1
# goes through parser.parse's two-digit-year reading, which is C02's subject)
def oracle_edge_years(ctx):
    from dateutil import tz
    rng = ctx.subrng("edge-years")
    for k in range(ctx.budget(8, 80)):
        spec = gen_spec(rng)
        for first, years in ((9990, (9997, 9998, 9999)),):
            text = vtimezone(spec, first_year=first, order=k % 2)
            s = tzstr_of(spec)
            with warnings.catch_warnings():
                warnings.simplefilter("ignore")
                try:
                    zi = load(text).get(); zs = reference_zone(spec)
                except Exception as ex:
                    ctx.case(("edge-load", text))
                    ctx.violation("tzical rejects a well-formed VTIMEZONE with DTSTART in year %d: %s" % (first, exc_kind(ex)), {"kind": "edge-years", "phase": "load"}, text)
                    continue
                ok = True
                for y in years:
                    a, b = transitions_utc(spec, y)
                    first_onset = min(transitions_utc(spec, first)) + datetime.timedelta(days=2)
                    probes = [t + datetime.timedelta(seconds=d) for t in (a, b) for d in (-86400, -3600, -1, 0, 1, 3600, 86400)] + \
                        [datetime.datetime(y, 6, 15, 12), datetime.datetime(y, 7, 15), datetime.datetime(y, 2, 10, 6), datetime.datetime(y, 12, 10, 18)]
                    for u in probes:
                        if u < first_onset:
                            continue          # the property speaks "from its first onset on"
                        ctx.case(("edge-years", s, secs(u)), nontrivial=True)
                        try:
                            x = u.replace(tzinfo=tz.UTC).astimezone(zs); w = u.replace(tzinfo=tz.UTC).astimezone(zi)
                            tx = (x.replace(tzinfo=None), x.utcoffset(), x.tzname(), x.dst()); tw = (w.replace(tzinfo=None), w.utcoffset(), w.tzname(), w.dst())
                        except OverflowError:
                            continue
                        if tx != tw:
                            ctx.violation("year %d: tzical %r != tzstr %r at %sZ" % (y, tw[1:], tx[1:], u.isoformat()),
                                          {"kind": "edge-years", "phase": "lookup", "tzstr": s, "utc": u.isoformat(), "dtstart_year": first}, text)
                            ok = False
                            break
                    if not ok:
                        break
        ctx.count("edge_year_zones")

_oracle_without_edge = oracle

def oracle(ctx):
    _oracle_without_edge(ctx)
    oracle_edge_years(ctx)
# --- end of the appended block
