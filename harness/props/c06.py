"""C06 — tzfile reports exactly what the TZif data says at every instant."""
import io, os, pickle, warnings
import basecorr, zonelib as Z
from vlib import DriverError as vlib_DriverError

PROP = "C06"
TRUSTED = [
    "Model/TZif.lean (decode, build) and Model/Zones.lean (tzfile lookups) are hand models of tz.py 489-871, tied by the tzfile.load / tzfile.fromutc / tzfile.wall correspondence ops on real and synthetic streams",
    "Spec/Zones.lean typeAt / encode are the reference (written from tzfile(5)); typeAt is cross-checked on every run against a second independent reader (zonelib.Timeline, plain struct)",
    "CPython struct, bisect, io.BytesIO, tarfile, pickle are trusted; bisect_right is modelled as its loop",
]
ASSUMPTIONS = [
    "offsets and derived dstoffsets are strictly within ±24 h (CPython raises ValueError from utcoffset()/dst() otherwise; not modelled)",
    "abbreviation bytes are ASCII (valid multi-byte UTF-8 in the abbreviation block is outside the model)",
    "streams behave like io.BytesIO (short reads at EOF, relative seek clamps at 0); OS-level I/O errors are out of scope",
    "|utcoffset| < 24 h and datetimes stay inside 0001..9999 (32-bit transition times: 1901..2038)",
    "load paths (gettz by name, path, open stream, ZoneInfoFile archive with link entries, pickle) are I/O glue: compared for equality and identical answers, not modelled",
]
RULE = ("zones = distinct TZif files of /usr/share/zoneinfo (quick: 60 incl. a fixed list of unusual zones; thorough: all 447 "
        "plus the right/ leap-second variants for the decoder) + 37 named synthetic shapes (incl. abbreviation tables of 132..256 bytes, zic-style suffix sharing, and 129 / 200 / 256 types with type, flag and abbreviation indices >= 128) + seeded random tables + malformed streams; "
        "instants = every transition ± {0, 1 s, 30 min, 1 h, 2 h, Δ, Δ±1}; a case = (stream, instant); non-trivial = first ≤ t < last "
        "transition on a WF table (t < first counts for before_first)")


def zones_for(ctx):
    real = [(n, d, names) for n, names, d in Z.pick_zones(ctx, "c06-zones")]
    syn = [(n, d, None) for n, d in Z.synthetic_set(ctx, "c06-syn")]
    return real, syn


def correspondence(ctx):
    basecorr.run(ctx)
    real, syn = zones_for(ctx)
    streams = [(n, d) for n, d, _ in real + syn] + [("mal:" + k, v) for k, v in Z.malformed_streams().items()]
    right = Z.system_zones(right=True)
    streams += [("right/" + n, d) for n, _, d in (right if ctx.tier == "thorough" else right[::45])]
    reqs, exp, meta = [], [], []
    for name, data in streams:
        z, line = Z.impl_load(data)
        ctx.count("decoded_ok" if z is not None else "decode_error:" + line.split()[-1])
        hx = Z.hexs(data)
        reqs.append("tzfile.load " + hx); exp.append(line); meta.append((name, "load", None))
        if z is None:
            continue
        try:
            ups, _ = Z.probe_points(Z.Timeline(data))
        except Exception:
            ups = []
        ups = ups or [0, Z.T0]
        reqs.append("tzfile.fromutc %s %s" % (hx, Z.ilist(ups)))
        exp.append("ok " + " ".join(Z.impl_fromutc_line(z, t) for t in ups)); meta.append((name, "fromutc", ups))
        # the encoder of the spec: re-encode what the model decoded; the implementation must read it as the same zone
        # (only inside the canonical encoder's image: one private abbreviation per type must fit 256 bytes, RawWF)
        if sum(len(t.abbr) + 1 for t in z._ttinfo_list) <= 256:
            reqs.append("tzfile.reenc " + hx); exp.append(None); meta.append((name, "reenc", (z, line)))
        else:
            ctx.count("reenc_skipped_outside_encoder_image")
    got = ctx.driver(reqs)
    for q, e, g, (name, kind, pts) in zip(reqs, exp, got, meta):
        ctx.traces += 1
        if kind == "reenc":
            z, line = pts
            if not g.startswith("ok "):
                ctx.mismatch("tzfile.reenc", name, line[:100], g[:100]); continue
            try:
                z2, line2 = Z.impl_load(bytes.fromhex(g[3:]) if g[3:] != "." else b"")
            except ValueError:
                z2, line2 = None, "unparsable hex"
            if line2 != line or z2 is None or not (z2 == z):
                ctx.mismatch("tzfile.reenc", name, line[:300], (line2 or "")[:300])
            continue
        if e != g:
            if kind == "fromutc":
                for p, a, b in Z.diff_lines(pts, e, g)[:3]:
                    ctx.mismatch("tzfile.fromutc", {"zone": name, "t": p}, a, b)
            else:
                ctx.mismatch("tzfile.load", name, e[:400], g[:400])
        elif kind == "fromutc":
            ctx.traces += len(pts)


def check_zone(ctx, name, data, z, typeat_line, ups, tl):
    """C06 on the implementation: offset / abbreviation / dst at every probe vs the Lean typeAt"""
    wf = tl.wf()
    if not wf:
        ctx.count("streams_violating_WF")
    first, last = (tl.utc[0], tl.utc[-1]) if tl.utc else (None, None)
    specs = typeat_line.split()[1:]
    for t, s in zip(ups, specs):
        so, sd, sn = s.split(",")
        po, pd, pn = tl.type_at(t)
        if (int(so), int(sd), sn) != (po, pd, Z.hexs(pn)):
            ctx.violation("Lean typeAt and the independent struct reader disagree", {"zone": name, "t": t, "stream": Z.hexs(data) if name.startswith(("syn", "rnd")) else None}, {"lean": s, "reader": (po, pd, pn)})
            continue
        in_range = first is not None and first <= t < last
        before = first is not None and t < first
        if not (in_range or before):
            ctx.case((name, t), nontrivial=False); ctx.count("not_required_at_or_after_last"); continue
        got = Z.impl_fromutc_line(z, t, us=(t % 3) * 333333)
        parts = got.split(",")
        ok = len(parts) == 5 and parts[2] == so and parts[4] == sn and (int(sd) != 0 or parts[3] == "0") \
            and parts[0] == str(t + int(so))
        if not wf:
            ctx.case((name, t), nontrivial=False)
            ctx.count("nonWF_probe_ok" if ok else "nonWF_probe_differs(not required)")
            continue
        ctx.case((name, t))
        ctx.count("before_first" if before else "in_range")
        if int(sd) == 0:
            ctx.count("standard_time_probe")
        if not ok:
            ctx.violation("utc.astimezone(zone) reports %s but the data says off=%s isdst=%s abbr=%s" % (got, so, sd, sn),
                          {"zone": name, "t": t, "stream": Z.hexs(data) if name.startswith(("syn", "rnd")) else None},
                          {"impl": got, "spec": s})


def glue(ctx, real):
    """gettz(name) / path / open stream / ZoneInfoFile archive (with links) / pickle: equal and identical answers"""
    from dateutil import tz
    from dateutil.zoneinfo import ZoneInfoFile
    import dateutil.zoneinfo as dzi
    tmp, path = Z.build_archive([(n, names, d) for n, d, names in real])
    try:
        with warnings.catch_warnings():
            warnings.simplefilter("ignore")
            with open(path, "rb") as f:
                zif = ZoneInfoFile(f)
    finally:
        Z.remove_archive(tmp)
    assert not os.path.exists(path)
    for name, data, names in real:
        p = os.path.join(Z.ROOT, name)
        zs = {}
        zs["path"] = tz.tzfile(p)
        with open(p, "rb") as f:
            zs["stream"] = tz.tzfile(f)
        zs["bytesio"] = tz.tzfile(io.BytesIO(data), filename=name)
        zs["gettz"] = tz.gettz(name)
        zs["gettz_nocache"] = tz.gettz.nocache(name)
        zs["archive"] = zif.get(name)
        zs["pickle"] = pickle.loads(pickle.dumps(zs["path"]))
        zs["pickle_gettz"] = pickle.loads(pickle.dumps(zs["gettz"], protocol=2))
        ref = zs["path"]
        refdump = Z.impl_dump(ref)
        ups, _ = Z.probe_points(Z.Timeline(data))
        ups = (ups or [0])[:: max(1, len(ups) // 40)]
        refans = [Z.impl_fromutc_line(ref, t) for t in ups]
        for k, z in zs.items():
            ctx.case((name, k)); ctx.count("load_path:" + k)
            ok = isinstance(z, tz.tzfile) and z == ref and not (z != ref) and Z.impl_dump(z) == refdump \
                and [Z.impl_fromutc_line(z, t) for t in ups] == refans
            if not ok:
                ctx.violation("zone loaded via %s differs from tzfile(path)" % k, {"zone": name, "path": k}, None)
        for other in names:
            ctx.case((name, "link", other)); ctx.count("archive_link_entries")
            if zif.get(other) is not zs["archive"]:
                ctx.violation("archive link entry does not resolve to its target object", {"zone": name, "link": other}, None)
            g = tz.gettz(other)
            if not (g == ref):
                ctx.violation("gettz(alias) differs from the zone of the same data", {"zone": name, "alias": other}, None)
        red = zs["archive"].__reduce__()
        if not (red[0] is dzi.gettz and red[1] == (name,)):
            ctx.violation("zoneinfo.tzfile.__reduce__ is not (gettz, (name,))", {"zone": name}, repr(red))


def oracle(ctx):
    real, syn = zones_for(ctx)
    todo = []
    for name, data, _ in real + syn:
        z, line = Z.impl_load(data)
        if z is None:
            ctx.violation("well-formed stream rejected: " + line, {"zone": name, "stream": Z.hexs(data)}, None); continue
        tl = Z.Timeline(data)
        ups, _ = Z.probe_points(tl)
        ups = ups or [0, Z.T0]
        todo.append((name, data, z, ups, tl))
    for m in ctx.mismatches:                      # seed the search with correspondence differences
        ctx.note("correspondence difference: %s %s" % (m["op"], str(m["input"])[:120]))
    reqs = ["tzfile.typeat %s %s" % (Z.hexs(d), Z.ilist(ups)) for _, d, _, ups, _ in todo]
    reqs += ["tzfile.wf %s" % Z.hexs(d) for _, d, _, _, _ in todo]
    got = ctx.driver(reqs)
    n = len(todo)
    for (name, data, z, ups, tl), line, wfl in zip(todo, got[:n], got[n:]):
        if wfl.split()[1:] != [str(int(tl.wf())), str(int(tl.wf_coarse()))]:
            ctx.violation("Lean wf and the harness's wf disagree", {"zone": name}, wfl)
        if name in [r[0] for r in real] and not tl.wf():
            ctx.count("REAL_zone_violating_WF"); ctx.note("real zone violating WF: " + name)
        if name in [r[0] for r in real] and not tl.wf_coarse():
            ctx.count("real_zone_violating_DESIGN_coarse_WF")
        check_zone(ctx, name, data, z, line, ups, tl)
    glue(ctx, real if ctx.tier == "thorough" or ctx.escalated else real[:25])
    ctx.count("zones_real", len(real)); ctx.count("streams_synthetic", len(syn))
    # guard against a vacuous pass (tzdata built `-b slim` has empty version-1 blocks)
    real_names = {r[0] for r in real}
    real_in_range = sum(max(0, len(tl.utc) - 1) for name, _, _, _, tl in todo if name in real_names)
    ctx.hist["real_transition_intervals"] = real_in_range
    if real_in_range == 0:
        raise vlib_DriverError("the system tz database has no version-1 transitions (slim TZif?): C06 would pass vacuously")
    for name, data, z, ups, tl in todo[:2] + [x for x in todo if x[0].startswith("syn:abbr_table_200")][:1]:
        mid = [t for t in ups if tl.utc and tl.utc[0] <= t < tl.utc[-1]]
        for t in mid[len(mid) // 2: len(mid) // 2 + 2]:
            ctx.sample({"zone": name, "t": t, "impl": Z.impl_fromutc_line(z, t), "data": tl.type_at(t)})


KNOWN = {}


def replay(ctx, payload):
    from dateutil import tz
    c = payload["violation"]["case"]
    if c.get("stream"):
        data = bytes.fromhex(c["stream"])
    else:
        data = open(os.path.join(Z.ROOT, c["zone"]), "rb").read()
    z, line = Z.impl_load(data)
    if z is None or "t" not in c:
        print(line); return z is not None
    tl = Z.Timeline(data)
    got = Z.impl_fromutc_line(z, c["t"]); want = tl.type_at(c["t"])
    print("zone=%s t=%s impl=%s data=%s" % (c["zone"], c["t"], got, want))
    p = got.split(",")
    return len(p) == 5 and int(p[2]) == want[0] and p[4] == Z.hexs(want[2]) and (want[1] != 0 or p[3] == "0")


# --- appended by the translator tie (wt-iso): the tz lookup functions re-translated from tz/tz.py and tz/_common.py
# (Generated/TzKernels.lean, ops tzgen.*) are compared with the implementation's methods on every run
_correspondence_without_tzgen = correspondence


def correspondence(ctx):
    _correspondence_without_tzgen(ctx)
    import tzgenlib
    tzgenlib.validate(ctx, quick_zones=8, quick_syn=8)

TRUSTED = TRUSTED + [
    "translator tie: harness/translate_dt.py (DtPy) re-translates tzfile._find_last_transition/_get_ttinfo/_find_ttinfo/_resolve_ambiguous_time/_offset_before/is_ambiguous/fromutc/utcoffset/dst/tzname, _datetime_to_timestamp and tzrangebase._dst_base_offset/_naive_isdst/is_ambiguous/_isdst/utcoffset/dst/tzname/fromutc from /repo on every run into Generated/TzKernels.lean; Proofs/TzGenEq*.lean prove each equal to the function of Model/Zones.lean (for datetimes with microseconds; tzfile: on every coherent zone, i.e. build of a WF table with a transition), Properties/TzGen.lean lists the obligations gen_eq_model_* and the `_gen` twins in the audit; a behaviour-changing edit breaks the translation or a named obligation",
    "named primitives of the DtPy translator (Model/DtPy.lean), trusted with their documented meaning and exercised by the tzgen.* validation against the implementation's methods on every run: a datetime as (microseconds of the naive reading, fold, tzinfo-is-self), datetime +/- timedelta resets fold, timedelta.total_seconds() as an exact number (float rounding not modelled), int() truncation, bisect.bisect_right as its loop, list indexing with IndexError, attribute of None as AttributeError, unpacking None as TypeError, OverflowError of datetime arithmetic not modelled, `dt is None` tests on datetime parameters statically false; in the `_tzinfo` base-class functions `dt.utcoffset()`/`dt.dst()` are the zone's abstract offset functions applied to (wall seconds, fold) and `self.is_ambiguous(dt)` is dynamic dispatch (DtPy.dispatchAmbiguous: a subclass override if the GenericZone has one, else the translated base method)",
]


# --- translator tie for the READER (wt-tzfile): `tzfile._read_tzfile` itself is re-translated from tz/tz.py on every run
# (harness/translate_tzif.py -> Generated/TzifKernels.lean, `Gen.readTzfile`) and run by the driver op `tzif.read` on every
# stream of the correspondence (real, right/, synthetic, random, malformed) against the implementation's reader
_correspondence_without_tzif = correspondence


def tzif_expected(data):
    import datetime
    z, line = Z.impl_load(data)
    if z is not None:
        ok = all(t.delta == datetime.timedelta(seconds=t.offset) for t in z._ttinfo_list)
        line += " delta=%d first=%s" % (ok, Z.tt_opt(getattr(z, "_ttinfo_first", None)))
    return line


def correspondence(ctx):
    _correspondence_without_tzif(ctx)
    real, syn = zones_for(ctx)
    streams = [(n, d) for n, d, _ in real + syn] + [("mal:" + k, v) for k, v in Z.malformed_streams().items()]
    right = Z.system_zones(right=True)
    streams += [("right/" + n, d) for n, _, d in (right if ctx.tier == "thorough" else right[::45])]
    reqs = ["tzif.read " + Z.hexs(d) for _, d in streams]
    got = ctx.driver(reqs)
    for (name, data), g in zip(streams, got):
        ctx.traces += 1
        e = tzif_expected(data)
        ctx.count("tzif.read_ok" if e.startswith("ok ") else "tzif.read_" + e.split()[-1])
        if e != g:
            ctx.mismatch("tzif.read", {"zone": name, "stream": Z.hexs(data) if len(data) < 4000 else None}, e[:400], g[:400])


TRUSTED = TRUSTED + [
    "translator tie for the reader: harness/translate_tzif.py (TzifPy) re-translates tzfile._read_tzfile from /repo on every run into Generated/TzifKernels.lean (Gen.readTzfile and one definition per `for` statement); the driver op tzif.read runs it on every stream of the correspondence against the implementation; Properties/TzifGen.lean lists the obligations gen_eq_model_read_tzfile* that prove it equal to Model/TZif.lean's decode/build",
    "named primitives of the TzifPy translator (Model/TzifPy.lean), trusted with their documented meaning and exercised by tzif.read on every run: a BytesIO-like stream (short reads, relative seek clamped at 0), struct.unpack for the formats >Nl >NB >Nb >lbB with struct.error as one kind, bytes.decode() on ASCII, the compound `s[i:s.find('\\x00', i)]` as one primitive (TZ.abbrAt), `_ttinfo` objects as references into a heap in allocation order (aliasing through trans_idx / ttinfo_list / ttinfo_std/dst/before is explicit), `_get_supported_offset` as the identity (its definition for Python >= 3.6 is checked to be `return second_offset`), timedelta as whole seconds, a name bound on one path only defaults to the empty list (UnboundLocalError not modelled)",
]


# --- HISTORY of the process and shared state (wt-tzfile): a file rewritten under the same path / name must be reported as it
# is NOW by every load kind (harness/props/c06_history.py: 14 load kinds x overwrite/replace x same/later mtime), and the TZif
# classes must hold no class- or module-level mutable state (AST audit against an allow-list of the sites of the unchanged tree)
_oracle_without_history = oracle
_replay_without_history = replay


def oracle(ctx):
    _oracle_without_history(ctx)
    from props import c06_history as HIST
    HIST.history(ctx)
    HIST.shared_state_audit(ctx)


def replay(ctx, payload):
    c = payload["violation"]["case"]
    if isinstance(c, dict) and ("kind" in c or "site" in c):
        from props import c06_history as HIST
        return HIST.replay_history(c)
    return _replay_without_history(ctx, payload)


ASSUMPTIONS = ASSUMPTIONS + [
    "by design and not asserted by the history stream: gettz(name) / gettz(path) return the cached object while the key is in gettz's strong LRU cache or the earlier object is still alive in the weak instance map (C18); zoneinfo.get_zonefile_instance() keeps one ZoneInfoFile per process; unpickled and copied zones carry their decoded state (asserted to report the ORIGINAL object's data)",
]
RULE = RULE + ("; history stream: sequences of 2-3 different well-formed TZif byte strings (same length / same instants with different offsets, abbreviations, "
               "isdst, type indices, flags; real pairs; random tables) written to the SAME path or name, rewritten in place or by os.replace with the mtime restored or advanced, "
               "loaded through 14 load kinds; a case = (sequence, load kind, step); audit: one case per audited site (not counted as non-trivial)")


# --- translator tie for the LOAD PATHS (wt-tzfile): tz.tzfile.__init__ and zoneinfo.ZoneInfoFile.__init__ / get are re-translated on every
# run (harness/translate_load.py -> Generated/TzLoadKernels.lean; C06.load_paths_equal in Properties/TzLoadGen.lean) and run by the driver ops
# tzload.file / tzload.archive against the implementation (paths, named streams, BytesIO + filename=, None; archives with duplicates, hard and
# symbolic links, a link overriding a regular member, METADATA, directory members)
_correspondence_without_tzload = correspondence


def correspondence(ctx):
    _correspondence_without_tzload(ctx)
    import tzhelplib
    real, syn = zones_for(ctx)
    tzhelplib.validate_load(ctx, [(n, d) for n, d, _ in real + syn])


TRUSTED = TRUSTED + [
    "translator tie for the load paths: harness/translate_load.py (LoadPy) re-translates tz.tzfile.__init__ and zoneinfo.ZoneInfoFile.__init__ / get from /repo on every run into Generated/TzLoadKernels.lean (the reader they call is the translated Gen.readTzfile); C06.load_paths_equal proves that a file name, an open stream, a regular archive member and a link member hand the same bytes to the reader and carry the same zone data (build r); named primitives (Model/LoadPy.lean), trusted with their documented meaning and exercised by tzload.file / tzload.archive on every run: open(path,'rb') as a partial function, a stream as its bytes + .name + repr, `with` / _nullcontext handing the stream through, TarFile members in archive order (regular / hard link / symbolic link / other) with extractfile and getmember, dict as last-binding-wins, json.loads as identity on the text, _set_tzdata copying every attribute",
]


# --- streams that do not start at offset 0 (wt-tzfile, seeded C06K): `tzfile(stream)` must decode the block AT THE STREAM'S POSITION
# (several TZif blocks back to back, a block behind a foreign header) and leave the stream right behind the version-1 block it read
def _v1_consumed(data):
    import struct
    isgmt, isstd, leap, timecnt, typecnt, charcnt = struct.unpack(">6l", data[20:44])
    return 44 + timecnt * 5 + typecnt * 6 + charcnt + leap * 8 + isstd + isgmt


def positioned_streams(ctx):
    import tempfile
    from dateutil import tz
    rng = ctx.subrng("c06-positioned")
    real, syn = zones_for(ctx)
    pool = [(n, d) for n, d, _ in real[:12] + syn if Z.impl_load(d)[0] is not None and len(d) < 20000]
    if len(pool) < 2:
        return
    tmp = tempfile.mkdtemp(prefix="verif-pos-")
    try:
        for k in range(ctx.budget(30, 200)):
            (na, a), (nb, b) = rng.sample(pool, 2)
            prefix = rng.choice([a, b"HDR!" * rng.randrange(1, 9), a + a, b""])
            blob = prefix + b + rng.choice([b"", a, b"trailing bytes"])
            want = Z.impl_dump(Z.impl_load(b)[0])
            end = len(prefix) + _v1_consumed(b)
            kinds = [("bytesio", lambda: io.BytesIO(blob))]
            if k % 3 == 0:
                path = os.path.join(tmp, "blob%d" % k)
                open(path, "wb").write(blob)
                kinds.append(("file", lambda path=path: open(path, "rb")))
            for kind, mk in kinds:
                f = mk()
                try:
                    f.seek(len(prefix))
                    case = {"kind": "positioned", "stream": kind, "prefix": Z.hexs(prefix), "block": Z.hexs(b), "rest": Z.hexs(blob[len(prefix) + len(b):])}
                    ctx.case(("positioned", kind, nb, len(prefix), k)); ctx.count("positioned_stream:" + kind)
                    try:
                        z = tz.tzfile(f, filename="positioned")
                        got, pos = Z.impl_dump(z), f.tell()
                    except Exception as ex:
                        got, pos = "raised " + Z.exc_name(ex), None
                    if got != want:
                        ctx.violation("tzfile(stream positioned at offset %d) does not report the block at that position" % len(prefix), case,
                                      {"got": got[:200], "want": want[:200]})
                    elif pos != end:
                        ctx.violation("tzfile(stream) leaves the stream at offset %s, the version-1 block it read ends at %d" % (pos, end), case, None)
                finally:
                    f.close()
    finally:
        import shutil
        shutil.rmtree(tmp, ignore_errors=True)


_oracle_without_positioned = oracle
_replay_without_positioned = replay


def oracle(ctx):
    _oracle_without_positioned(ctx)
    positioned_streams(ctx)


def replay(ctx, payload):
    c = payload["violation"]["case"]
    if isinstance(c, dict) and c.get("kind") == "positioned":
        from dateutil import tz
        prefix, b, rest = (bytes.fromhex(c[k]) if c[k] != "." else b"" for k in ("prefix", "block", "rest"))
        f = io.BytesIO(prefix + b + rest); f.seek(len(prefix))
        z = tz.tzfile(f, filename="positioned")
        ok = Z.impl_dump(z) == Z.impl_dump(Z.impl_load(b)[0]) and f.tell() == len(prefix) + _v1_consumed(b)
        print("block at offset %d: reported %s, stream left at %d (block ends at %d)" % (len(prefix), "correctly" if Z.impl_dump(z) == Z.impl_dump(Z.impl_load(b)[0]) else "WRONGLY", f.tell(), len(prefix) + _v1_consumed(b)))
        return ok
    return _replay_without_positioned(ctx, payload)
