"""C11 — cached recurrences behave like uncached ones under any interleaving."""
import basecorr, rrlib, sched
from rrlib import q_wire, py_query, ints, ilist

PROP = "C11"
TRUSTED = [
    "rrulebase._iter_cached and _invalidate_cache are TRANSLATED from the source on every run (harness/translate_rrbase.py -> Generated/RRBaseCache.lean: one node per "
    "pause-point statement with its control flow; C11.program_sim: same step as Cache.stepIter at every pc on every state; cache.trun runs the translated program "
    "against the real generators); __iter__'s dispatch and the consumers are hand-modelled",
    "Model/Cache.lean mirrors rrulebase.__iter__/_iter_cached (rrule.py 105-149) one transition per source line; tied on every run by "
    "cache.run (statement-granularity thread schedules on the real generators via sys.settrace + an instrumented lock substituted for "
    "rule._cache_lock) and cache.nexts (next()-granularity): the line trace of every step, the blocked set, the final cache/flags and every "
    "thread's answer are compared with the model",
    "harness/sched.py: one thread runs at a time (binary-semaphore hand-off); blocked = acquire() on a held lock reported by the lock object itself",
    "the underlying generator (`self._iter()`) is an arbitrary finite list; next(gen) under the lock is one atomic step (justified by the mutual-exclusion invariant)",
]
ASSUMPTIONS = [
    "statement granularity = CPython `line` trace events; pre-emption inside a statement (bytecode level) and the GIL hand-off are not modelled",
    "no mutation of an rruleset while iterators are live (that is C10's history domain)",
    "a generator that raises something other than StopIteration is covered (Shared.endErr; finished_answer / genraise_history): it is assumed to be "
    "DETERMINISTIC (a fresh `self._iter()` yields the same values and raises at the same position — what `_restartable` relies on when it "
    "replaces the dead generator); on the raising path the handler statements `except Exception: if i == len(cache): raise` are one model step "
    "with the raise (they touch only locals and the lock), so thread schedules over raising generators are judged against the uncached answers "
    "(oracle generator_raises), not compared line by line with the model",
]
RULE = ("schedules: (a) every next()-interleaving with <= 2 (thorough 3) switches of 2-3 iterators over src lengths 0,1,9,10,11,19,20,21; "
        "(b) statement granularity: 2 threads, every single pre-emption point k0, a grid of (k0,k1) double pre-emptions, 3 threads with 2 "
        "pre-emptions on a systematic grid (thorough: 20x19 points x 2 orders x 8 lengths) and random, "
        "then seeded random schedules of 2-4 threads running list/islice/index/slice/in/count/before/after/xafter/between on rrule and rruleset objects; "
        "distinct = distinct (src, queries, schedule); non-trivial = all threads finished (vs a deadlock or an escaped exception)")

LENGTHS = [0, 1, 9, 10, 11, 19, 20, 21]


def set_rule(L, cache=True):
    """an rruleset whose sequence is exactly L (ints) — arbitrary strictly increasing src"""
    from dateutil import rrule as R
    s = R.rruleset(cache=cache)
    for x in L:
        s.rdate(rrlib.to_dt(x))
    return s


def mk(kind, n):
    """(rule factory(cache), src ints)"""
    if kind == "daily":
        return (lambda cache: rrlib.daily(n, cache)), [86400 * k for k in range(n)]
    L = [7 * k + (k % 3) for k in range(n)]
    return (lambda cache: set_rule(L, cache)), L


# ------------------------------------------------------------------ (a) next() granularity

def nexts_schedules(n, tier_full):
    """op lists for 2 and 3 iterators with a bounded number of switches"""
    full = n + 1
    out = []
    pts = sorted(set([0, 1, 2, 9, 10, 11, 12, 19, 20, 21, 22]) & set(range(full + 1))) if not tier_full else list(range(full + 1))
    for a in pts:
        for b in pts:
            # A x a, B x b, A to the end, B to the end; iterators created up front or lazily
            for lazy in (False, True):
                ops = ([] if lazy else ["c0", "c1"]) + ["n0"] * a + ["n1"] * b + ["n0"] * (full - a + 1) + ["n1"] * (full - b + 1)
                out.append((2, ops))
            if tier_full or (a in (0, 1, 10, 11) and b in (0, 1, 10, 11)):
                for c in (0, 1, 10, 11):
                    if c <= full:
                        ops = ["c0", "c1", "c2"] + ["n0"] * a + ["n1"] * b + ["n2"] * c + ["n1"] * (full - b + 1) + ["n0"] * (full - a + 1) + ["n2"] * (full - c + 1)
                        out.append((3, ops))
    # strict alternation, and B created after A exhausted
    out.append((2, ["n0", "n1"] * (full + 1)))
    out.append((2, ["n0"] * (full + 1) + ["n1"] * (full + 1)))
    out.append((3, ["n0", "n1", "n2"] * (full + 1)))
    return out


def run_nexts_case(kind, n, k, ops):
    fac, L = mk(kind, n)
    rule = fac(True)
    out, got, stopped, held = sched.run_nexts(rule, k, ops)
    statuses = []
    results = []
    for i in range(k):
        fin = stopped[i]
        statuses.append("done" if fin else "x")
        results.append("ok l " + ilist(ints(got[i])) if fin else "-")
    return L, out, got, stopped, held, rule


def corr_nexts(ctx, runs):
    reqs, exp, meta = [], [], []
    full = ctx.tier == "thorough" or ctx.escalated
    for kind in ("daily", "set"):
        for n in LENGTHS:
            for k, ops in nexts_schedules(n, full and kind == "daily"):
                L, out, got, stopped, held, rule = run_nexts_case(kind, n, k, ops)
                reqs.append("cache.nexts %s %d %s" % (ilist(L), k, ",".join(ops)))
                exp.append("%s %s %d %s %s" % (",".join(out) if out else "-", ilist(ints(rule._cache)), int(bool(rule._cache_complete)),
                                               "-" if rule._len is None else rule._len, "L" if held else "-"))
                meta.append((kind, n, k, ops))
                runs.append({"kind": "nexts", "rule": kind, "n": n, "k": k, "ops": ops, "L": L, "out": out,
                             "got": [ints(g) for g in got], "stopped": stopped, "held": held})
    got = ctx.driver(reqs)
    for r, e, g, m in zip(reqs, exp, got, meta):
        # model answer: ok <outs> <cache> <complete> <len> <lock> <status> <results>
        parts = g.split()
        gg = "%s %s %s %s %s" % (parts[1], parts[2], parts[3], parts[4], "-" if parts[5] == "-" else "L") if len(parts) >= 6 else g
        if gg != e:
            ctx.mismatch("cache.nexts", {"rule": m[0], "n": m[1], "k": m[2], "ops": ",".join(m[3])}, e, gg)
    ctx.traces += len(reqs)
    ctx.count("corr_nexts_schedules", len(reqs))


# ------------------------------------------------------------------ (b) statement granularity

def thread_schedules(ctx, rng):
    """[(kind, n, queries, segments)]"""
    full = ctx.tier == "thorough" or ctx.escalated
    out = []
    A = ("all",)
    # one pre-emption: thread 0 runs k0 statements, thread 1 runs to the end, then 0
    for n in LENGTHS:
        K = 60 + 6 * n
        k0s = range(0, K) if full else sorted(set(list(range(0, 48, 2)) + [rng.randrange(K) for _ in range(6)]))
        for k0 in k0s:
            out.append(("daily", n, [A, A], [(0, k0), (1, None)]))
    # two pre-emptions on a grid biased to the fill/boundary region
    for n in LENGTHS:
        K = 60 + 6 * n
        npts = 40 if full else 5
        for _ in range(npts * (4 if full else 1)):
            k0 = rng.choice([rng.randrange(0, 45), rng.randrange(0, K)])
            k1 = rng.choice([rng.randrange(1, 45), rng.randrange(1, K)])
            out.append((rng.choice(["daily", "set"]), n, [A, A], [(0, k0), (1, k1), (0, rng.choice([None, rng.randrange(1, K)]))]))
    # three threads, two pre-emptions, systematic grid: thread a runs k0 statements, thread b runs k1, then
    # everybody to the end (thorough: every 3rd point of the fill/boundary region for both orders of the
    # pre-empted pair and every length; quick: a seeded sample of the same grid)
    grid = list(range(0, 48, 3)) + [55, 70, 90, 120]
    three = [("daily", n, [A, A, A], [(a, k0), (b, k1), (c, None)])
             for n in LENGTHS for (a, b, c) in ((0, 1, 2), (1, 0, 2)) for k0 in grid for k1 in grid if k1 > 0]
    out += three if full else rng.sample(three, 40)
    # three threads, up to three pre-emptions
    for _ in range(ctx.budget(60, 1500)):
        n = rng.choice(LENGTHS)
        K = 60 + 6 * n
        segs = [(rng.randrange(3), rng.choice([rng.randrange(0, 45), rng.randrange(0, K)])) for _ in range(rng.randint(1, 3))]
        out.append((rng.choice(["daily", "set"]), n, [A, A, A], segs))
    # random schedules, 2-4 threads, queries mixed in, many small time slices
    for _ in range(ctx.budget(250, 6000)):
        n = rng.choice(LENGTHS + [5, 12, 30])
        kind = rng.choice(["daily", "set"])
        _, L = mk(kind, n)
        T = rng.randint(2, 4)
        qs = [A if rng.random() < 0.35 else rrlib.random_query(rng, L) for _ in range(T)]
        segs = [(rng.randrange(T), rng.choice([1, 2, 3, 5, 8, 13, 21, 34, 55])) for _ in range(rng.randint(2, 14))]
        out.append((kind, n, qs, segs))
    return out


def run_thread_case(kind, n, qs, segs):
    fac, L = mk(kind, n)
    rule = fac(True)
    tr, fin, res, st = sched.run_threads(rule, qs, segs)
    return L, tr, fin, res, st


def corr_threads(ctx, rng, runs):
    reqs, exp, meta = [], [], []
    for kind, n, qs, segs in thread_schedules(ctx, rng):
        L, tr, fin, res, st = run_thread_case(kind, n, qs, segs)
        reqs.append("cache.run %s %s %s" % (ilist(L), ";".join(q_wire(q) for q in qs), sched.seg_wire(segs)))
        exp.append("ok %s %s" % (tr, fin))
        meta.append((kind, n, qs, segs))
        runs.append({"kind": "threads", "rule": kind, "n": n, "L": L, "qs": [list(q) for q in qs], "segs": [list(s) for s in segs],
                     "res": res, "st": st, "steps": tr.count(",") + 1})
        ctx.count("thread_steps", tr.count(",") + 1)
    got = ctx.driver(reqs)
    for r, e, g, m in zip(reqs, exp, got, meta):
        if e != g:
            ctx.mismatch("cache.run", {"rule": m[0], "n": m[1], "qs": [list(q) for q in m[2]], "segs": [list(s) for s in m[3]]},
                         first_diff(e, g), first_diff(g, e))
    # the same schedules with the statements of `_iter_cached` executed by the program TRANSLATED from the source
    # (Gen.iterCachedProgram, CachePy.stepProg): validation of the translation against the real generators
    got_t = ctx.driver(["cache.trun" + r[len("cache.run"):] for r in reqs])
    for r, e, g, m in zip(reqs, exp, got_t, meta):
        if e != g:
            ctx.mismatch("cache.trun", {"rule": m[0], "n": m[1], "qs": [list(q) for q in m[2]], "segs": [list(s) for s in m[3]]},
                         first_diff(e, g), first_diff(g, e))
    ctx.traces += 2 * len(reqs)
    ctx.count("corr_thread_schedules", len(reqs))
    ctx.count("corr_thread_schedules_translated_program", len(reqs))


def first_diff(a, b):
    ta, tb = a.replace(" ", ",").split(","), b.replace(" ", ",").split(",")
    for i, (x, y) in enumerate(zip(ta, tb)):
        if x != y:
            return "token %d: %s | context %s" % (i, x, ",".join(ta[max(0, i - 6):i + 3]))
    return "length %d vs %d: tail %s" % (len(ta), len(tb), ",".join(ta[-6:]))


# ------------------------------------------------------------------ nested cached objects (sets over cached members)

def nested_specs(ctx, rng):
    """[(member sequences, sets [(inc slots, exc slots)], jobs [(obj, query)], segments)]
    slot = ('m', k) cached member k | ('p', [ints]) plain dates.  Member values are globally distinct (residues mod 7)
    so that the heap order is determined by the values alone."""
    out = []
    A = ("all",)

    def seq(m, n):
        return [70 * k + 7 * m + 1 for k in range(n)]
    lens = [0, 1, 3, 9, 10, 11, 15, 21]
    # the shape of the C11D report: one cached set over one cached rule, one thread
    for n in lens:
        out.append(([seq(0, n)], [([("m", 0)], [])], [(1, A)], []))
    # set + direct iteration of the member, every pre-emption point of either
    full = ctx.tier == "thorough" or ctx.escalated
    for n in (3, 11):
        K = 200 if n == 11 else 110
        for k0 in (range(0, K, 1 if full else 9)):
            out.append(([seq(0, n)], [([("m", 0)], [])], [(1, A), (0, A)], [(0, k0), (1, None)]))
            out.append(([seq(0, n)], [([("m", 0)], [])], [(1, A), (0, A)], [(1, k0 % 60), (0, None)]))
    # the same cached rule in two sets, rrule + exrule roles, plain dates, queries; random schedules
    for _ in range(ctx.budget(120, 2500)):
        nm = rng.randint(1, 3)
        ms = [seq(m, rng.choice(lens)) for m in range(nm)]
        sets = []
        for _s in range(rng.randint(1, 2)):
            inc = [("p", sorted(rng.sample(range(3, 700, 7), rng.randint(0, 3))))] + [("m", rng.randrange(nm)) for _ in range(rng.randint(0, 2))]
            exm = [("m", m) for m in range(nm) if ("m", m) not in inc and rng.random() < 0.4]
            exc = [("p", sorted(rng.sample(range(1, 700, 7), rng.randint(0, 2))))] + exm
            # at most one slot per member inside one heap (ties between equal streams are heapq's business, oracle-only)
            inc = [inc[0]] + sorted(set(inc[1:]))
            sets.append((inc, exc))
        nobj = nm + len(sets)
        T = rng.randint(1, 4)
        jobs = []
        for _j in range(T):
            o = rng.randrange(nobj)
            jobs.append((o, A if rng.random() < 0.6 else rrlib.random_query(rng, seq(0, 5))))
        segs = [(rng.randrange(T), rng.choice([1, 2, 3, 5, 8, 13, 21, 34, 55, 89])) for _ in range(rng.randint(0, 10))]
        out.append((ms, sets, jobs, segs))
    return out


def build_nested(ms, sets, share_member_objects=True):
    """real objects: cached members (rrulesets of rdates: arbitrary sequences) and cached sets over them"""
    from dateutil import rrule as R
    members = [set_rule(L, True) for L in ms]
    sobjs = []
    for inc, exc in sets:
        s = R.rruleset(cache=True)
        for kind, v in inc:
            if kind == "p":
                for x in v:
                    s.rdate(rrlib.to_dt(x))
            else:
                s.rrule(members[v])
        for kind, v in exc:
            if kind == "p":
                for x in v:
                    s.exdate(rrlib.to_dt(x))
            else:
                s.exrule(members[v])
        sobjs.append(s)
    return members + sobjs


def nested_wire(ms, sets, jobs, segs, shared=0):
    def slot(x):
        return "m%d" % x[1] if x[0] == "m" else ilist(x[1])
    w_m = "|".join(ilist(L) for L in ms) if ms else "-"
    w_s = ";".join("+".join(slot(x) for x in inc) + "/" + "+".join(slot(x) for x in exc) for inc, exc in sets) if sets else "-"
    w_q = ";".join("%d@%s" % (o, q_wire(q)) for o, q in jobs) if jobs else "-"
    return "nest.run %s %s %s %d %s" % (w_m, w_s, w_q, shared, sched.seg_wire(segs))


def expected_nested(ms, sets):
    """what each object must yield: Python set algebra on the member sequences"""
    exp = [list(L) for L in ms]
    for inc, exc in sets:
        I, E = set(), set()
        for kind, v in inc:
            I.update(v if kind == "p" else ms[v])
        for kind, v in exc:
            E.update(v if kind == "p" else ms[v])
        exp.append(sorted(I - E))
    return exp


def corr_nested(ctx, rng, runs):
    reqs, exp, meta = [], [], []
    for ms, sets, jobs, segs in nested_specs(ctx, rng):
        objs = build_nested(ms, sets)
        distinct_before = len(set(id(o._cache_lock) for o in objs))
        tr, states, st, res, nlocks = sched.run_nested(objs, jobs, segs)
        reqs.append(nested_wire(ms, sets, jobs, segs))
        exp.append("ok %s %s %s %s" % (tr, states, ";".join(st) if st else "-", ";".join(r.replace(" ", "_") for r in res) if res else "-"))
        meta.append((ms, sets, jobs, segs))
        runs.append({"kind": "nested", "ms": ms, "sets": [[list(map(list, a)), list(map(list, b))] for a, b in sets],
                     "jobs": [[o, list(q)] for o, q in jobs], "segs": [list(x) for x in segs], "st": st, "res": res,
                     "nobjs": len(objs), "nlocks": distinct_before})
        ctx.count("nested_steps", tr.count(",") + 1)
    got = ctx.driver(reqs)
    for r, e, g, m in zip(reqs, exp, got, meta):
        if e != g:
            ctx.mismatch("nest.run", {"request": r[:1500]}, first_diff(e, g), first_diff(g, e))
    ctx.traces += len(reqs)
    ctx.count("corr_nested_schedules", len(reqs))


def judge_nested(ctx, r):
    ms, sets = r["ms"], [(a, b) for a, b in r["sets"]]
    exp = expected_nested(ms, [([tuple(x) if x[0] == "m" else ("p", x[1]) for x in a], [tuple(x) if x[0] == "m" else ("p", x[1]) for x in b]) for a, b in sets])
    jobs = [(o, tuple(q)) for o, q in r["jobs"]]
    key = ("nested", repr(ms), repr(r["sets"]), repr(r["jobs"]), repr(r["segs"]))
    ok = all(x == "done" for x in r["st"])
    ctx.case(key, nontrivial=ok)
    ctx.count("oracle_nested_schedules")
    case = {"kind": "nested", "ms": ms, "sets": r["sets"], "jobs": r["jobs"], "segs": r["segs"]}
    if r["nlocks"] != r["nobjs"]:
        ctx.count("objects_sharing_a_lock")
    if not ok:
        ctx.violation("nested cached objects: runner(s) never finish under schedule %s: statuses %s (%d cached objects use %d distinct lock objects)"
                      % (sched.seg_wire([tuple(x) for x in r["segs"]]), r["st"], r["nobjs"], r["nlocks"]), case, {"statuses": r["st"]})
        return
    for (o, q), got in zip(jobs, r["res"]):
        want = py_query(exp[o], q)
        if got != want:
            ctx.violation("nested cached objects: %s on object %d got %s, set algebra on the members gives %s" % (q_wire(q), o, got, want),
                          case, {"impl": got, "list": want})
            return


# ------------------------------------------------------------------ C12 histories through the machine

def partial_then_len(rng, L):
    """a partial query (index, early-exit in/after/between/xafter, abandoned iteration) followed by count() / len-dependent queries"""
    n = len(L)
    t = rrlib.instants_near(L, rng, 2)
    part = rng.choice([("idx", rng.randint(0, max(0, n - 1))), ("take", rng.randint(0, n)), ("in", t[0]), ("aft", t[0], rng.random() < 0.5),
                       ("btw", min(t), max(t), rng.random() < 0.5), ("xaf", t[0], rng.choice([0, 1, 2]), rng.random() < 0.5),
                       ("sl", 0, rng.randint(0, n), None), ("bef", t[0], rng.random() < 0.5)])
    tail = rng.choice([[("cnt",)], [("cnt",), ("idx", -1)], [("cnt",), ("all",)], [("idx", -1), ("cnt",)], [("sl", -2, None, None), ("cnt",)]])
    return [part] + tail


def history_correspondence(ctx, rng, count):
    reqs, exp = [], []
    stash = getattr(ctx, "_qhist", [])
    ctx._qhist = stash
    for i in range(count):
        n = rng.choice(LENGTHS + [3, 5, 12])
        kind = rng.choice(["daily", "set"])
        fac, L = mk(kind, n)
        cache = rng.random() < (0.7 if i % 3 else 0.3)
        rule = fac(cache)
        if i % 5 == 4:
            # a PARTLY filled cache (the fill batch is 10), then every kind of query that must see the whole sequence: negative
            # indices and slices (list path), count(), a far `in`, the last element
            n = rng.choice([12, 15, 21, 25, 31])
            fac, L = mk(kind, n)
            cache = rng.random() < 0.85
            rule = fac(cache)
            part = rng.choice([("take", rng.choice([1, 9, 10, 11, 19, 20])), ("idx", rng.choice([0, 5, 10])), ("aft", L[rng.choice([0, 8, 10])], False)])
            kinds = [("idx", -1), ("idx", -n), ("idx", -n - 1), ("idx", -2), ("sl", -3, None, None), ("sl", None, None, -1), ("sl", -5, -1, 2), ("sl", None, -2, None),
                     ("sl", -n - 3, 2, None), ("cnt",), ("in", L[-1]), ("bef", L[-1] + 1, False), ("btw", L[2], L[-1], True), ("xaf", L[1], None, False), ("take", n + 1)]
            qs = [part] + rng.sample(kinds, rng.randint(2, 5))
        elif i % 3 == 0:
            qs = partial_then_len(rng, L) + [rrlib.random_query(rng, L) for _ in range(rng.randint(0, 2))]
        else:
            qs = [rrlib.random_query(rng, L) for _ in range(rng.randint(1, 7))]
        outs = [rrlib.impl_query(rule, q).replace(" ", "_") for q in qs]
        reqs.append("query.run %s %d %s" % (ilist(L), int(cache), ";".join(q_wire(q) for q in qs)))
        exp.append("ok " + ";".join(outs))
        stash.append({"rule": kind, "n": n, "cache": cache, "L": L, "qs": [list(q) for q in qs], "outs": outs})
    got = ctx.driver(reqs)
    for r, e, g in zip(reqs, exp, got):
        if e != g:
            ctx.mismatch("query.run", {"request": r}, e, g)
    ctx.traces += len(reqs)
    ctx.count("corr_query_histories", len(reqs))


def judge_query_histories(ctx):
    """the histories the correspondence ran, against the Python-side reference (list semantics), not the model"""
    for h in getattr(ctx, "_qhist", []):
        L = h["L"]
        qs = [tuple(q) for q in h["qs"]]
        ctx.case(("qhist", h["rule"], h["n"], h["cache"], tuple(qs)), nontrivial=all(o.startswith("ok") for o in h["outs"]))
        ctx.count("oracle_rejudged_query_histories")
        for j, (q, o) in enumerate(zip(qs, h["outs"])):
            want = py_query(L, q).replace(" ", "_")
            if o != want:
                ctx.violation("query %d (%s) of history %s on %s rule of length %d (cache=%s): got %s, list semantics %s"
                              % (j, q_wire(q), ";".join(q_wire(x) for x in qs), h["rule"], h["n"], h["cache"], o, want),
                              {"kind": "qhist", "rule": h["rule"], "n": h["n"], "cache": h["cache"], "qs": h["qs"]}, {"impl": o, "list": want})
                break


def correspondence(ctx):
    basecorr.run(ctx)
    rng = ctx.subrng("corr")
    runs = []
    corr_nexts(ctx, runs)
    corr_threads(ctx, rng, runs)
    corr_nested(ctx, rng, runs)
    history_correspondence(ctx, rng, ctx.budget(200, 2000))
    ctx._c11_runs = runs


# ------------------------------------------------------------------ oracle

def judge_nexts(ctx, r):
    """every iterator observes a prefix of list(uncached rule), the whole list once it stopped; nothing blocks"""
    L = r["L"]
    key = ("nexts", r["rule"], r["n"], r["k"], tuple(r["ops"]))
    dead = "D" in r["out"]
    ctx.case(key, nontrivial=not dead)
    ctx.count("oracle_nexts")
    case = {"kind": "nexts", "rule": r["rule"], "n": r["n"], "k": r["k"], "ops": ",".join(r["ops"])}
    if any(o.startswith("E:") for o in r["out"]):
        ctx.violation("next() raises %s under schedule %s over a cached rule of length %d" % (r["out"][-1][2:], ",".join(r["ops"]), r["n"]),
                      case, {"outputs": r["out"]})
        return
    if dead:
        ctx.violation("an iterator blocks forever: next() #%d of schedule %s over a cached rule of length %d re-acquires the held lock"
                      % (len(r["out"]), ",".join(r["ops"]), r["n"]), case, {"outputs": r["out"]})
        return
    for i, g in enumerate(r["got"]):
        if g != L[:len(g)] or (r["stopped"][i] and g != L):
            ctx.violation("iterator %d observed %s, uncached rule yields %s" % (i, g, L), case, {"outputs": r["out"]})
            return
    if r["held"]:
        ctx.count("lock_left_held")      # compared with the model by the correspondence; not by itself a failure of the property


def judge_threads(ctx, r):
    L = r["L"]
    qs = [tuple(q) for q in r["qs"]]
    key = ("threads", r["rule"], r["n"], tuple(qs), tuple(map(tuple, r["segs"])))
    ok = all(s == "done" for s in r["st"])
    ctx.case(key, nontrivial=ok)
    ctx.count("oracle_thread_schedules")
    case = {"kind": "threads", "rule": r["rule"], "n": r["n"], "qs": r["qs"], "segs": r["segs"]}
    if not ok:
        ctx.violation("thread(s) never finish under schedule %s: statuses %s (deadlock)" % (sched.seg_wire([tuple(s) for s in r["segs"]]), r["st"]),
                      case, {"statuses": r["st"]})
        return
    for q, got in zip(qs, r["res"]):
        ctx.count("tq_" + q[0])
        want = py_query(L, q)
        if got != want:
            ctx.violation("thread running %s got %s, the uncached rule gives %s" % (q_wire(q), got, want), case, {"impl": got, "list": want})
            return


def oracle(ctx):
    runs = getattr(ctx, "_c11_runs", None)
    if not runs:
        ctx.note("oracle generated its own schedules (correspondence did not run)")
        runs = []
        rng = ctx.subrng("corr")
        for kind in ("daily", "set"):
            for n in LENGTHS:
                for k, ops in nexts_schedules(n, False):
                    L, out, got, stopped, held, rule = run_nexts_case(kind, n, k, ops)
                    runs.append({"kind": "nexts", "rule": kind, "n": n, "k": k, "ops": ops, "L": L, "out": out,
                                 "got": [ints(g) for g in got], "stopped": stopped, "held": held})
        for kind, n, qs, segs in thread_schedules(ctx, rng):
            L, tr, fin, res, st = run_thread_case(kind, n, qs, segs)
            runs.append({"kind": "threads", "rule": kind, "n": n, "L": L, "qs": [list(q) for q in qs], "segs": [list(s) for s in segs], "res": res, "st": st})
    for r in runs:
        {"nexts": judge_nexts, "threads": judge_threads, "nested": judge_nested}[r["kind"]](ctx, r)
    judge_query_histories(ctx)
    # a second, independent stream of random schedules (and, when escalated, the thorough budget)
    rng = ctx.subrng("oracle")
    for _ in range(ctx.budget(150, 4000)):
        n = rng.choice(LENGTHS + [2, 13, 25])
        kind = rng.choice(["daily", "set"])
        _, L = mk(kind, n)
        T = rng.randint(2, 4)
        qs = [("all",) if rng.random() < 0.4 else rrlib.random_query(rng, L) for _ in range(T)]
        segs = [(rng.randrange(T), rng.choice([1, 2, 3, 4, 6, 9, 14, 22, 35, 60])) for _ in range(rng.randint(1, 16))]
        L, tr, fin, res, st = run_thread_case(kind, n, qs, segs)
        judge_threads(ctx, {"rule": kind, "n": n, "L": L, "qs": [list(q) for q in qs], "segs": [list(s) for s in segs], "res": res, "st": st})
    free_running_smoke(ctx)
    generator_raises(ctx)
    twin_histories(ctx)
    mutator_schedules(ctx)
    transient_failures(ctx)
    for r in runs:
        if r["kind"] == "threads" and len(r["qs"]) >= 3:
            ctx.sample({"rule": r["rule"], "n": r["n"], "queries": [q_wire(tuple(q)) for q in r["qs"]],
                        "schedule": sched.seg_wire([tuple(s) for s in r["segs"]]), "answers": r["res"], "statuses": r["st"]}, cap=4)
    ctx.sample({"kind": "nexts", "n": 13, "ops": "n1,n0 x14,n1 x14 (the schedule that dead-locked before fix a459cd4)",
                "out": run_nexts_case("daily", 13, 2, ["n1"] + ["n0"] * 14 + ["n1"] * 14)[1]})


class FlakyOnce(object):
    """a member 'rule' whose iterators yield L, except that the FIRST time any of them is about to produce the value of index k it raises
    `exc` instead — once: a transient failure (an I/O error in a lazily loaded zone, a Ctrl-C); every later attempt succeeds"""
    def __init__(self, L, k, exc):
        self.L, self.k, self.exc, self.fired = L, k, exc, False

    def __iter__(self):
        for j, x in enumerate(self.L):
            if j == self.k and not self.fired:
                self.fired = True
                raise self.exc("transient failure before value %d" % j)
            yield rrlib.to_dt(x)


EXCS = {"OSError": OSError, "KeyboardInterrupt": KeyboardInterrupt, "ZeroDivisionError": ZeroDivisionError}
TRANSIENT_L = [7 * i + 3 for i in range(40)]


def run_transient(k, excname, cache, qs, live):
    """one history on a set whose member fails ONCE before value k: (observations, expectations, error count, wrong answers)"""
    from dateutil import rrule as R
    import itertools
    exc, L = EXCS[excname], TRANSIENT_L

    def run_q(obj, q):
        try:
            return rrlib.impl_query(obj, q)
        except BaseException as ex:
            return "err " + type(ex).__name__

    def take(it, n):
        try:
            return ints(list(itertools.islice(it, n)))
        except BaseException as ex:
            return "err " + type(ex).__name__
    s = R.rruleset(cache=cache)
    s.rrule(FlakyOnce(L, k, exc))
    obs, want, its = [], [], []
    if live is not None:
        # two iterators created up front; one of them advanced a little BEFORE the queries: both are live during the error
        its = [iter(s), iter(s)]
        obs.append(("it%d+%d" % (live[1], live[0]), take(its[live[1]], live[0]))); want.append(L[:live[0]])
    for q in qs:
        obs.append((q_wire(q), run_q(s, q))); want.append(py_query(L, q))
    for j, it in enumerate(its):
        already = live[0] if j == live[1] else 0
        prev = obs[0][1] if j == live[1] else []
        if isinstance(prev, str):
            continue                     # that iterator itself met the error: its generator is finished (cached or not)
        obs.append(("it%d rest" % j, take(it, 100))); want.append(L[already:])
    iserr = lambda o: isinstance(o, str) and o.startswith("err " + excname)
    errs = [o for (_, o) in obs if iserr(o)]
    bad = [(n, o, w) for (n, o), w in zip(obs, want) if o != w and not iserr(o)]
    return obs, want, errs, bad


def transient_failures(ctx):
    """a TRANSIENT failure of the underlying generator (it raises once, at one position, and works when asked again): an uncached object
    recovers on the next request, and so must a cached one — `_restartable` replaces the dead generator by a fresh one at the same
    position, it does not remember the error.  On twins (cached / uncached) and with iterators that were LIVE during the error:
    in every history at most ONE operation ends with the error, and every other one gives the list-semantics answer on the full sequence."""
    rng = ctx.subrng("transient")
    cases = []
    for k in (0, 4, 9, 10, 20, 24, 39):
        for exc in sorted(EXCS):
            cases.append((k, exc, [("all",), ("all",), ("cnt",), ("idx", -1)], None))
            cases.append((k, exc, [("idx", min(k, 39)), ("all",), ("cnt",)], None))
            cases.append((k, exc, [("all",), ("cnt",)], (rng.choice([1, 3, 12]), rng.choice([0, 1]))))     # with live iterators
    for _ in range(ctx.budget(30, 300)):
        cases.append((rng.randrange(0, 40), rng.choice(sorted(EXCS)), [rrlib.random_query(rng, TRANSIENT_L) for _ in range(rng.randint(2, 6))],
                      (rng.choice([1, 3, 12, 25]), rng.choice([0, 1])) if rng.random() < 0.5 else None))
    for k, exc, qs, live in cases:
        for cache in (True, False):
            with hang_guard(30, "transient failure at %d, queries %s" % (k, ";".join(q_wire(q) for q in qs))):
                try:
                    obs, want, errs, bad = bounded(lambda: run_transient(k, exc, cache, qs, live), "transient failure at %d, queries %s" % (k, ";".join(q_wire(q) for q in qs)))
                except Blocked as ex:
                    ctx.case(("transient", k, exc, cache, tuple(qs), live), nontrivial=True)
                    blocked_violation(ctx, ex, {"kind": "transient", "k": k, "exc": exc, "cache": cache, "qs": [list(q) for q in qs], "live": list(live) if live else None})
                    continue
            ctx.case(("transient", k, exc, cache, tuple(qs), live), nontrivial=True)
            ctx.count("transient_failure_histories")
            if len(errs) > 1 or bad:
                ctx.violation("generator that fails ONCE (%s before value %d of 40), %s set, history %s: %d operations end with the error (at most one may), wrong answers %s"
                              % (exc, k, "cached" if cache else "uncached", [(n, (o if isinstance(o, str) else "%d values" % len(o))[:40]) for n, o in obs], len(errs), bad[:2]),
                              {"kind": "transient", "k": k, "exc": exc, "cache": cache, "qs": [list(q) for q in qs], "live": list(live) if live else None}, None)


MUTATIONS = {
    "rd": lambda s, R: s.rdate(rrlib.to_dt(-86400 * 30)),
    "rr": lambda s, R: s.rrule(R.rrule(R.WEEKLY, count=4, dtstart=rrlib.to_dt(86400 * 100))),
    "xd": lambda s, R: s.exdate(rrlib.to_dt(86400 * 4)),
    "xr": lambda s, R: s.exrule(R.rrule(R.WEEKLY, count=3, dtstart=rrlib.to_dt(0))),
}


def run_mutator_case(mut, warm, n, rq, segs):
    """a cached set of n daily instants (warm: nothing read / a partial read / completely read); thread 0 calls the mutator `mut`
    (pre-empted at the statements of the decorated wrapper), thread 1 runs the query `rq`; schedule `segs`, then everybody to the end.
    Returns (statuses, what the set answers AFTERWARDS to list / count / last, the same on an uncached set with the same final contents)"""
    from dateutil import rrule as R

    def build(cache):
        s = R.rruleset(cache=cache)
        s.rrule(rrlib.daily(n, False))
        return s
    s = build(True)
    if warm == "partial":
        s[0]
    elif warm == "complete":
        list(s)
    sc = sched.Sched(s)
    sc.add(lambda: MUTATIONS[mut](s, R))
    sc.add(lambda: rrlib.impl_query(s, rq))
    trace = []
    for k, cnt in segs:
        sc.run_seg(k, cnt, trace)
    sc.finish_all(trace)
    st = sc.statuses()
    sc.kill()
    s._cache_lock = sc.locks[list(sc.locks)[0]][1]          # the object's own lock back
    ref = build(False)
    MUTATIONS[mut](ref, R)
    probes = [("all",), ("cnt",), ("idx", -1)]
    try:
        got = bounded(lambda: [rrlib.impl_query(s, q) for q in probes], "list / count / [-1] after the mutator call")
    except Blocked as ex:
        got = ["blocked: %s" % ex] * 3
    return st, got, [rrlib.impl_query(ref, q) for q in probes], ",".join(trace)


def mutator_schedules(ctx):
    """a MUTATOR thread against a reader on ONE cached set, at statement granularity: thread 0 executes rdate()/rrule()/exdate()/exrule()
    and is pre-empted at the statements of the decorated wrapper (`_invalidates_cache.inner_func`: before the member is appended, between
    the append and `_invalidate_cache()`, after it); thread 1 lists / counts / indexes the set meanwhile.  Whatever the reader saw, once both
    calls have returned the cached set must answer like an uncached set with the same final contents (the invalidation comes AFTER the
    append: a reader that fills the cache in between fills the cache of the generation that is then thrown away)."""
    rng = ctx.subrng("mutator")
    cases = []
    for mut in sorted(MUTATIONS):
        for warm in ("fresh", "partial", "complete"):
            for k0 in (0, 1, 2, 3, 4):
                for rq in (("all",), ("cnt",)):
                    cases.append((mut, warm, 25, rq, [(0, k0), (1, None)]))
    for _ in range(ctx.budget(40, 400)):
        mut = rng.choice(sorted(MUTATIONS))
        rq = rng.choice([("all",), ("cnt",), ("idx", -1), ("take", 12), ("btw", 0, 86400 * 9, True)])
        segs = [(rng.randrange(2), rng.choice([1, 2, 3, 5, 9, 14, 30, 60])) for _ in range(rng.randint(1, 8))]
        cases.append((mut, rng.choice(["fresh", "partial", "complete"]), rng.choice([9, 11, 25]), rq, segs))
    for mut, warm, n, rq, segs in cases:
        with hang_guard(60, "mutator %s against %s under schedule %s" % (mut, q_wire(rq), sched.seg_wire(segs))):
            st, got, want, tr = run_mutator_case(mut, warm, n, rq, segs)
        ctx.case(("mutator", mut, warm, n, rq, tuple(segs)), nontrivial=True)
        ctx.count("mutator_thread_schedules")
        if any(x != "done" for x in st) or got != want:
            ctx.violation("cached set of %d daily instants (%s), thread 0 calls the mutator %s, thread 1 runs %s, schedule %s (trace %s): statuses %s; afterwards "
                          "list / count / [-1] of the cached set %s, of an uncached set with the same contents %s"
                          % (n, warm, mut, q_wire(rq), sched.seg_wire(segs), tr[:200], st, [g[:80] for g in got], [w[:80] for w in want]),
                          {"kind": "mutator", "mut": mut, "warm": warm, "n": n, "rq": list(rq), "segs": [list(x) for x in segs]}, None)


def twin_histories(ctx):
    """cached = uncached along BUILD-and-query histories of a set: the same history of member additions, queries and live iterators
    (never advanced after a later addition: C10's domain otherwise) on a cached set and on an uncached twin — in particular sets
    that are fully observed while EMPTY (no member yet, or everything excluded) and then given members, partial fills followed
    by negative indices / slices, repeated dates, members cut short by year 9999, one uncached rule object in two roles.
    The generators are C10's (props.c10.gen_history / shaped_history); the model side is C10.history_inv (cache on/off give the
    same specification)."""
    import props.c10 as c10
    rng = ctx.subrng("twins")
    for i in range(ctx.budget(400, 4000)):
        mode = "plain" if i % 2 else "live"
        ops = c10.shaped_history(rng, mode) if i % 3 else c10.gen_history(rng, mode)
        try:
            obs_c = bounded(lambda: c10.run_impl(True, ops)[0], "history %s on a cached set" % c10.describe(ops)[:200])
            obs_u = bounded(lambda: c10.run_impl(False, ops)[0], "history %s on an uncached set" % c10.describe(ops)[:200])
        except Blocked as ex:
            table, uses = c10.member_table(ops)
            ctx.case(("twin", c10.describe(ops)), nontrivial=True)
            blocked_violation(ctx, ex, {"kind": "twin", "history": c10.describe(ops), "failing_op": -1, "members": table, "member_uses": uses})
            continue
        ctx.case(("twin", c10.describe(ops)), nontrivial=c10.nontrivial_history(ops, obs_u))
        ctx.count("twin_histories")
        for j, (a, b) in enumerate(zip(obs_c, obs_u)):
            if a != b:
                table, uses = c10.member_table(ops)
                ctx.violation("observation %d (%s) of history %s: the cached set gives %s, the uncached twin %s"
                              % (j, c10.op_wire(ops[j]), c10.describe(ops)[:300], a[:200], b[:200]),
                              {"kind": "twin", "history": c10.describe(ops), "failing_op": j, "members": table, "member_uses": uses}, None)
                break


class Blocked(Exception):
    """an operation on the real objects did not return: its thread sits in `_iter_cached` (blocked on the cache lock with nobody left to
    release it) — the property fails ("every operation completes"), this is not a time-out of the check"""
    def __init__(self, what, where):
        Exception.__init__(self, "%s: blocked at %s" % (what, where))
        self.where = where


def bounded(fn, what, secs=20):
    """run `fn` (real iterators, the real lock, one thread) in a worker thread.  If it has not returned after `secs` seconds its stack is
    inspected: a frame of `_iter_cached` (or of a lock acquisition under it) means the operation is BLOCKED on the cache lock -> `Blocked`
    (reported as a violation by the caller); anything else is an infrastructure error.  The worker is a daemon thread: it stays parked."""
    import threading, sys
    box = {}

    def body():
        try:
            box["v"] = fn()
        except BaseException as ex:
            box["e"] = ex
    t = threading.Thread(target=body, daemon=True)
    t.start()
    t.join(secs)
    if t.is_alive():
        fr = sys._current_frames().get(t.ident)
        where = []
        while fr is not None:
            where.append("%s:%d" % (fr.f_code.co_name, fr.f_lineno))
            fr = fr.f_back
        if any(w.startswith("_iter_cached:") for w in where):
            raise Blocked(what, where[:4])
        raise InfraError("no return within %d s and not blocked in _iter_cached: %s at %s" % (secs, what, where[:6]))
    if "e" in box:
        raise box["e"]
    return box["v"]


def blocked_violation(ctx, ex, case):
    ctx.violation("an operation does not complete: %s" % ex, case, None)


class InfraError(Exception):
    """a wall-clock guard fired: infrastructure (exit 2), never a violation (vlib.is_infra)"""
    infrastructure = True


class hang_guard(object):
    """an operation on a (possibly modified) implementation that does not return would stall the whole check: after `secs`
    seconds of wall clock the check stops with an infrastructure error"""
    def __init__(self, secs, what):
        self.secs, self.what = secs, what

    def __enter__(self):
        import signal

        def fire(sig, frm):
            raise InfraError("no return within %d s: %s" % (self.secs, self.what))
        self.old = signal.signal(signal.SIGALRM, fire)
        signal.setitimer(signal.ITIMER_REAL, self.secs)

    def __exit__(self, *a):
        import signal
        signal.setitimer(signal.ITIMER_REAL, 0)
        signal.signal(signal.SIGALRM, self.old)
        return False


class Flaky(object):
    """a member 'rule' whose iterator yields k instants and then raises ZeroDivisionError (not StopIteration)"""
    def __init__(self, L, k):
        self.L, self.k = L, k

    def __iter__(self):
        for x in self.L[:self.k]:
            yield rrlib.to_dt(x)
        1 // 0


def generator_raises(ctx):
    """the underlying generator RAISES: an uncached rule raises in every operation that reaches the raising point and answers every
    operation decided before it; a cached one must behave the same (former known finding D-C11-genraise, repaired in /repo:
    `_restartable` + deferred read-ahead errors).  Regression stream: (1) call histories, cached vs uncached vs the Lean model in both
    modes (query.runx; C11.genraise_history); (2) the documented witness; (3) statement-granularity thread schedules over a cached set
    whose member raises, every thread's answer against the uncached one (C11.finished_answer with endErr = some E)."""
    from dateutil import rrule as R
    import datetime as D
    rng = ctx.subrng("genraise")
    cases = []
    for k in (0, 1, 5, 9, 10, 11, 15, 20, 21):
        L = [7 * i + 3 for i in range(k + 3)]
        scripts = [[("all",), ("all",), ("all",), ("cnt",), ("in", L[0])], [("idx", min(3, max(0, k - 1))), ("all",), ("all",), ("cnt",), ("idx", 0)],
                   [("idx", -1), ("take", k), ("take", k + 1), ("idx", k - 1), ("idx", k)]]
        for _ in range(ctx.budget(2, 12)):
            scripts.append([rrlib.random_query(rng, L[:k]) for _ in range(rng.randint(2, 6))])
        for qs in scripts:
            cases.append((L, k, qs))
    reqs = []
    outs = []
    for L, k, qs in cases:
        per = {}
        for cache in (False, True):
            s = R.rruleset(cache=cache)
            s.rrule(Flaky(L, k))
            with hang_guard(30, "queries %s on a %s set whose generator raises after %d values" % (";".join(q_wire(q) for q in qs), "cached" if cache else "uncached", k)):
                try:
                    per[cache] = bounded(lambda: [rrlib.impl_query(s, q).replace(" ", "_") for q in qs], "queries %s on a set whose generator raises" % ";".join(q_wire(q) for q in qs))
                except Blocked as ex:
                    per[cache] = ["blocked"] * len(qs)
                    blocked_violation(ctx, ex, {"kind": "genraise", "k": k, "qs": [list(q) for q in qs]})
            reqs.append("query.runx %s %d %d %s" % (ilist(L), k, int(cache), ";".join(q_wire(q) for q in qs)))
        outs.append(per)
    try:
        got = ctx.driver(reqs)
    except Exception:
        got = ["-"] * len(reqs)
    for i, ((L, k, qs), per) in enumerate(zip(cases, outs)):
        m_unc = got[2 * i][3:].split(";") if got[2 * i].startswith("ok ") else []
        m_c = got[2 * i + 1][3:].split(";") if got[2 * i + 1].startswith("ok ") else []
        ctx.case(("genraise", k, tuple(qs)), nontrivial=True)
        ctx.count("generator_raises_case")
        agrees = (per[False] == m_unc and per[True] == m_c)
        if not agrees:
            ctx.count("generator_raises_model_differs")
        if per[True] != per[False]:
            ctx.violation("the underlying generator raises after %d values; queries %s: the uncached set gives %s, the cached one %s"
                          % (k, ";".join(q_wire(q) for q in qs), per[False], per[True]),
                          {"kind": "genraise", "k": k, "qs": [list(q) for q in qs], "cached": per[True], "uncached": per[False],
                           "model_reproduces": agrees}, {"model_cached": m_c, "model_uncached": m_unc})
        elif not agrees:
            ctx.violation("the underlying generator raises after %d values; queries %s: implementation %s / %s, model %s / %s"
                          % (k, ";".join(q_wire(q) for q in qs), per[False], per[True], m_unc, m_c),
                          {"kind": "genraise-model", "k": k, "qs": [list(q) for q in qs], "model_reproduces": False}, None)
    # the documented witness (a naive and an aware date: TypeError from the sort, k = 0)
    want, gotw = genraise_witness(False), genraise_witness(True)
    ctx.case(("generator-raises-witness",), nontrivial=True)
    if gotw != want:
        ctx.violation("witness: the uncached set gives %s on list, list, list, count, in; the cached one gives %s" % (want, gotw),
                      {"kind": "genraise-witness", "cached": gotw, "uncached": want}, None)
    # statement-granularity schedules: several threads over ONE cached set whose member raises after k values
    A = ("all",)
    tcases = []
    for k in (0, 1, 9, 10, 11, 21):
        L = [7 * i + 3 for i in range(k + 3)]
        for k0 in ([0, 7, 14, 19, 23, 27, 31, 36, 44, 58, 90] if ctx.budget(0, 1) == 0 else range(0, 120, 2)):
            tcases.append((L, k, [A, A], [(0, k0), (1, None)]))
        for _ in range(ctx.budget(3, 30)):
            T = rng.randint(2, 4)
            qs = [A if rng.random() < 0.4 else rrlib.random_query(rng, L[:k]) for _ in range(T)]
            segs = [(rng.randrange(T), rng.choice([1, 2, 3, 4, 6, 9, 14, 22, 35, 60])) for _ in range(rng.randint(1, 12))]
            tcases.append((L, k, qs, segs))
    for L, k, qs, segs in tcases:
        with hang_guard(60, "threads %s under schedule %s over a cached set whose generator raises after %d values" % ([q_wire(q) for q in qs], sched.seg_wire(segs), k)):
            res, st = genraise_threads(L, k, qs, segs)
        u = R.rruleset(cache=False)
        u.rrule(Flaky(L, k))
        want = [rrlib.impl_query(u, q) for q in qs]
        ctx.case(("genraise-threads", k, tuple(qs), tuple(segs)), nontrivial=True)
        ctx.count("generator_raises_thread_schedule")
        if any(x != "done" for x in st) or res != want:
            ctx.violation("the underlying generator raises after %d values; threads %s under schedule %s: statuses %s, answers %s, the uncached set answers %s"
                          % (k, [q_wire(q) for q in qs], sched.seg_wire(segs), st, res, want),
                          {"kind": "genraise-threads", "k": k, "L": L, "qs": [list(q) for q in qs], "segs": [list(x) for x in segs]}, None)


def genraise_witness(cache):
    from dateutil import rrule as R
    import datetime as D
    s = R.rruleset(cache=cache)
    s.rdate(D.datetime(2020, 1, 1)); s.rdate(D.datetime(2020, 1, 2, tzinfo=D.timezone.utc))
    out = []
    for op in (lambda: list(s), lambda: list(s), lambda: list(s), lambda: s.count(), lambda: D.datetime(2020, 1, 1) in s):
        try:
            out.append(repr(op()))
        except Exception as ex:
            out.append(type(ex).__name__)
    return out


def genraise_threads(L, k, qs, segs):
    from dateutil import rrule as R
    s = R.rruleset(cache=True)
    s.rrule(Flaky(L, k))
    tr, fin, res, st = sched.run_threads(s, qs, segs)
    return res, st


# what the unrepaired code gave on the witness (kept for the record; the regression stream above reports it again)
GENRAISE_DOCUMENTED = ["TypeError", "TypeError", "[]", "None", "False"]


def free_running_smoke(ctx):
    """extra smoke stream only: real free-running threads over the real lock, joined with a generous time-out that is an
    infrastructure error, never the deciding signal"""
    import threading
    for n in (11, 25):
        r = rrlib.daily(n, True)
        L = ints(list(rrlib.daily(n, False)))
        outs = [None] * 4

        def work(i):
            try:
                outs[i] = ints(list(r))
            except Exception as ex:
                outs[i] = "err " + type(ex).__name__
        ths = [threading.Thread(target=work, args=(i,), daemon=True) for i in range(4)]
        for t in ths:
            t.start()
        for t in ths:
            t.join(20)
        if any(t.is_alive() for t in ths):
            ctx.note("free-running smoke: a thread did not finish within 20 s (n=%d) — not a deciding signal" % n)
        elif any(o != L for o in outs):
            ctx.violation("free-running threads observed %s, expected %s" % (outs, L), {"kind": "free", "n": n}, None)
        ctx.count("free_running_smoke")


KNOWN = {}


def replay(ctx, payload):
    c = payload["violation"]["case"]
    if c.get("kind") == "nexts":
        ops = c["ops"].split(",")
        L, out, got, stopped, held, rule = run_nexts_case(c["rule"], c["n"], c["k"], ops)
        print("replay nexts n=%d ops=%s -> %s" % (c["n"], c["ops"], ",".join(out)))
        ok = "D" not in out and not any(o.startswith("E:") for o in out) and all(ints(g) == L[:len(g)] and (not s or ints(g) == L) for g, s in zip(got, stopped))
        return ok
    if c.get("kind") == "threads":
        qs = [tuple(q) for q in c["qs"]]
        segs = [tuple(s) for s in c["segs"]]
        L, tr, fin, res, st = run_thread_case(c["rule"], c["n"], qs, segs)
        print("replay threads n=%d queries=%s schedule=%s -> statuses %s answers %s" % (c["n"], [q_wire(q) for q in qs], sched.seg_wire(segs), st, res))
        return all(s == "done" for s in st) and all(g == py_query(L, q) for q, g in zip(qs, res))
    if c.get("kind") == "qhist":
        fac, L = mk(c["rule"], c["n"])
        rule = fac(c["cache"])
        ok = True
        for q in c["qs"]:
            q = tuple(q)
            got, want = rrlib.impl_query(rule, q), py_query(L, q)
            print("replay %s: impl=%s list=%s" % (q_wire(q), got, want))
            ok = ok and got == want
        return ok
    if c.get("kind") == "nested":
        ms = c["ms"]
        sets = [([tuple(x) if x[0] == "m" else ("p", x[1]) for x in a], [tuple(x) if x[0] == "m" else ("p", x[1]) for x in b]) for a, b in c["sets"]]
        jobs = [(o, tuple(q)) for o, q in c["jobs"]]
        segs = [tuple(x) for x in c["segs"]]
        objs = build_nested(ms, sets)
        nl = len(set(id(o._cache_lock) for o in objs))
        tr, states, st, res, _ = sched.run_nested(objs, jobs, segs)
        exp = expected_nested(ms, sets)
        print("replay nested: %d cached objects, %d distinct lock objects; schedule %s -> statuses %s answers %s"
              % (len(objs), nl, sched.seg_wire(segs), st, res))
        return all(x == "done" for x in st) and all(g == py_query(exp[o], q) for (o, q), g in zip(jobs, res))
    if c.get("kind") == "transient":
        try:
            obs, want, errs, bad = bounded(lambda: run_transient(c["k"], c["exc"], c["cache"], [tuple(q) for q in c["qs"]], tuple(c["live"]) if c.get("live") else None), "transient history")
        except Blocked as ex:
            print("replay transient: %s" % ex)
            return False
        print("replay transient failure (%s once before value %d, %s set): %s -> %d operations end with the error, wrong answers %s"
              % (c["exc"], c["k"], "cached" if c["cache"] else "uncached", [(n, (o if isinstance(o, str) else "%d values" % len(o))[:40]) for n, o in obs], len(errs), bad[:2]))
        return len(errs) <= 1 and not bad
    if c.get("kind") == "mutator":
        st, got, want, tr = run_mutator_case(c["mut"], c["warm"], c["n"], tuple(c["rq"]), [tuple(x) for x in c["segs"]])
        print("replay mutator %s vs %s, schedule %s: trace %s statuses %s; afterwards cached %s uncached %s"
              % (c["mut"], q_wire(tuple(c["rq"])), sched.seg_wire([tuple(x) for x in c["segs"]]), tr[:300], st, [g[:60] for g in got], [w[:60] for w in want]))
        return all(x == "done" for x in st) and got == want
    if c.get("kind") == "twin":
        import props.c10 as c10
        ops = c10.parse_history(c["history"], c.get("members"), c.get("member_uses"))
        try:
            obs_c = bounded(lambda: c10.run_impl(True, ops)[0], "history on a cached set")
        except Blocked as ex:
            print("replay twin: %s" % ex)
            return False
        ops = c10.parse_history(c["history"], c.get("members"), c.get("member_uses"))
        obs_u, _, _ = c10.run_impl(False, ops)
        for op, a, b in zip(ops, obs_c, obs_u):
            if op[0] in ("q", "open", "resume"):
                print("replay %s: cached=%s uncached=%s" % (c10.op_wire(op), a[:120], b[:120]))
        return obs_c == obs_u
    if c.get("kind") in ("genraise", "genraise-model"):
        from dateutil import rrule as R
        L = [7 * i + 3 for i in range(c["k"] + 3)]
        per = {}
        for cache in (False, True):
            s = R.rruleset(cache=cache)
            s.rrule(Flaky(L, c["k"]))
            per[cache] = [rrlib.impl_query(s, tuple(q)) for q in c["qs"]]
        print("replay generator raising after %d values, queries %s: uncached %s cached %s" % (c["k"], [q_wire(tuple(q)) for q in c["qs"]], per[False], per[True]))
        return per[False] == per[True]
    if c.get("kind") == "genraise-witness":
        want, got = genraise_witness(False), genraise_witness(True)
        print("replay witness: uncached %s cached %s" % (want, got))
        return want == got
    if c.get("kind") == "genraise-threads":
        from dateutil import rrule as R
        qs = [tuple(q) for q in c["qs"]]
        segs = [tuple(x) for x in c["segs"]]
        res, st = genraise_threads(c["L"], c["k"], qs, segs)
        u = R.rruleset(cache=False)
        u.rrule(Flaky(c["L"], c["k"]))
        want = [rrlib.impl_query(u, q) for q in qs]
        print("replay threads over a generator raising after %d values: schedule %s -> statuses %s answers %s, uncached %s" % (c["k"], sched.seg_wire(segs), st, res, want))
        return all(x == "done" for x in st) and res == want
    print("replay: unsupported case")
    return False
