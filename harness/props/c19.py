"""C19 — easter() returns the canonical Easter Sunday for each method."""
import datetime
import basecorr

PROP = "C19"
TRUSTED = [
    "Generated/Easter.lean is re-translated from src/dateutil/easter.py on every run; the theorems are about that translation",
    "translator validated by exhaustive differential run: Gen.easter vs easter.easter over 1..9999 x methods 1..3 plus invalid methods",
    "Spec/Easter.lean (Meeus/Jones/Butcher, Meeus Julian, Julian->Gregorian day count) is the reference; written from the literature",
]
ASSUMPTIONS = [
    "datetime.date(y, m, d) construction is modelled by the validity predicate Cal.ValidYMD (theorem shows the triple is valid)",
]
RULE = ("exhaustive: every (year, method) with year in 1583..4099 for methods 2,3 and 326..9999 for method 1; every year 1583..4099 "
        "again with the three methods called in a rotating order and the first one repeated (call histories) "
        "(plus years 1..9999 for translator validation and invalid methods); distinct = distinct (year, method); "
        "non-trivial = method in 1..3 inside its documented range")

INVALID_METHODS = [0, 4, -1, 5, 100, -100]

def impl_easter(y, m):
    from dateutil import easter
    try:
        d = easter.easter(y, m)
        return "ok %d %d %d" % (d.year, d.month, d.day)
    except ValueError:
        return "err ValueError"
    except Exception as ex:            # any other exception kind is itself a finding
        return "err %s" % type(ex).__name__

def correspondence(ctx):
    basecorr.run(ctx)
    # translator validation: generated Lean function vs the Python function
    reqs, exp = [], []
    for y in range(1, 10000):
        for m in (1, 2, 3):
            reqs.append("easter.gen %d %d" % (y, m)); exp.append(impl_easter(y, m))
    for y in (1, 1583, 2024, 9999):
        for m in INVALID_METHODS:
            reqs.append("easter.gen %d %d" % (y, m)); exp.append(impl_easter(y, m))
    got = ctx.driver(reqs)
    for q, e, g in zip(reqs, exp, got):
        # the model returns the (y, m, d) triple; date() construction failure shows as ValueError in the impl
        if e != g:
            ctx.mismatch("easter.gen", q, e, g)
    ctx.traces += len(reqs)
    ctx.count("translator_validation_cases", len(reqs))

def in_range(y, m):
    return (m in (2, 3) and 1583 <= y <= 4099) or (m == 1 and 326 <= y <= 9999)

def oracle(ctx):
    """the property evaluated on the implementation against the Lean spec, exhaustively"""
    cases = [(y, m) for m in (1, 2, 3) for y in range(1, 10000) if in_range(y, m)]
    spec = ctx.driver(["easter.spec %d %d" % c for c in cases])
    for (y, m), s in zip(cases, spec):
        g = impl_easter(y, m)
        ctx.case((y, m))
        ctx.count("method_%d" % m)
        ok = (g == s)
        if ok and m in (2, 3):
            _, yy, mm, dd = g.split()
            d = datetime.date(int(yy), int(mm), int(dd))
            ok = d.weekday() == 6 and (m != 3 or (datetime.date(y, 3, 22) <= d <= datetime.date(y, 4, 25)))
        if not ok:
            ctx.violation("easter(%d, %d) = %s but the canonical date is %s" % (y, m, g, s),
                          {"year": y, "method": m}, {"impl": g, "spec": s})
    for y in (1, 326, 1583, 2024, 4099, 9999):
        for m in INVALID_METHODS:
            g = impl_easter(y, m)
            ctx.case((y, m), nontrivial=False)
            ctx.count("invalid_method")
            if g != "err ValueError":
                ctx.violation("easter(%d, %d) should raise ValueError, got %s" % (y, m, g), {"year": y, "method": m}, {"impl": g})
    # method values that are not integers: everything but the three documented constants must raise ValueError
    # (2.0 and True compare equal to 2 and 1 and are those methods)
    from dateutil import easter as E
    for y in (1583, 2024, 4099):
        for m, want in ((2.5, "ValueError"), (1.5, "ValueError"), (0.999, "ValueError"), (3.0000001, "ValueError"), (None, "ValueError"),
                        ("3", "ValueError"), ((3,), "ValueError"), (float("nan"), "ValueError"), (2.0, impl_easter(y, 2)), (True, impl_easter(y, 1))):
            ctx.case((y, repr(m)), nontrivial=False); ctx.count("non_integer_method")
            try:
                d = E.easter(y, m); got = "ok %d %d %d" % (d.year, d.month, d.day)
            except ValueError:
                got = "ValueError"
            except Exception as ex:
                got = type(ex).__name__
            if got != want:
                ctx.violation("easter(%d, %r) gave %s, expected %s" % (y, m, got, want), {"year": y, "method": repr(m)}, {"impl": got})
    # ARGUMENT SPELLING: a year given as any integral-valued number (float, Decimal, Fraction, bool-free int subclass, numpy-like
    # __index__/__int__ objects are out of scope) denotes that year: the computus uses only //, % and +, and the result is built
    # with int(...), so easter(2024.0) == easter(2024).  A regression dropped the int() casts (TypeError for 2024.0).
    import decimal, fractions
    class MyInt(int):
        pass
    for y in (1583, 1700, 1999, 2024, 2100, 4099):
        for m in (1, 2, 3):
            want = spec_of_year = impl_easter(y, m)
            for label, yy in (("float", float(y)), ("Decimal", decimal.Decimal(y)), ("Fraction", fractions.Fraction(y)), ("int subclass", MyInt(y))):
                ctx.case(("spelling", label, y, m), nontrivial=False); ctx.count("year_spellings")
                got = impl_easter(yy, m)
                if got != want:
                    ctx.violation("easter(%r, %d) = %s but easter(%d, %d) = %s: the year is the same number spelled as %s"
                                  % (yy, m, got, y, m, want, label), {"year": y, "method": m, "year_spelling": label}, {"impl": got, "int_year": want})
    # HISTORY: easter() is a function of (year, method) alone.  Call the three methods for one year in every order, and
    # every year twice, in one process: a memo keyed too coarsely (e.g. by (year, method < 3)), or any other state kept
    # between calls, makes the answer depend on the calls made before.  The case records the calls made so far for that
    # year so that the replay repeats the history, not just the last call.
    import itertools
    spec_of = dict(zip(cases, spec))
    years = [y for y in range(1583, 4100)]
    orders = list(itertools.permutations((1, 2, 3)))
    for i, y in enumerate(years):
        order = orders[i % 6]
        hist = []
        for m in order + order[:1]:
            g = impl_easter(y, m)
            hist.append(m)
            ctx.case(("hist", y, tuple(hist))); ctx.count("history_calls")
            if g != spec_of[(y, m)]:
                ctx.violation("after easter(%d, m) for m in %s the call easter(%d, %d) = %s but the canonical date is %s (the answer depends on earlier calls)"
                              % (y, hist[:-1], y, m, g, spec_of[(y, m)]), {"year": y, "method": m, "history": hist[:-1]},
                              {"impl": g, "spec": spec_of[(y, m)]})
    ctx.sample({"year": 2024, "method": 3, "impl": impl_easter(2024, 3)})
    ctx.sample({"year": 2024, "method": 2, "impl": impl_easter(2024, 2)})
    ctx.sample({"year": 326, "method": 1, "impl": impl_easter(326, 1)})
    ctx.sample({"year": 4099, "method": 5, "impl": impl_easter(4099, 5)})
    ctx.hist["exhaustive"] = 1

KNOWN = {}

def replay(ctx, payload):
    c = payload["violation"]["case"]
    y, m = c["year"], c["method"]
    s = ctx.driver(["easter.spec %d %d" % (y, m)])[0]
    for hm in c.get("history", []):          # repeat the calls made before the failing one
        impl_easter(y, hm)
    if "year_spelling" in c:
        import decimal, fractions
        yy = {"float": float, "Decimal": decimal.Decimal, "Fraction": fractions.Fraction, "int subclass": type("MyInt", (int,), {})}[c["year_spelling"]](y)
        g = impl_easter(yy, m)
        print("easter(%r,%d): impl=%s spec=%s" % (yy, m, g, s))
        return g == s
    g = impl_easter(y, m)
    print("easter(%d,%d): impl=%s spec=%s" % (y, m, g, s))
    return g == s
