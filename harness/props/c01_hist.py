"""C01 — one rule object, several live iterators (helpers of harness/props/c01.py).

(a) history stream: ONE uncached rrule object, k >= 2 iterators created at different moments and advanced in a seeded
    interleaving together with queries on the same object (between / after / before / count / indexing / slicing / `in`,
    an rruleset holding the rule twice).  Every iterator must deliver the sequence a fresh iterator over a SEPARATELY built,
    never shared object delivers, and every query must answer what that sequence says.
(b) shared-state audit (AST): which attributes of the rule object rrule._iter and _iterinfo read and write, which
    attributes __init__ creates, class-level / global state of _iterinfo; compared with the committed table
    c01_shared_state_sites.json.  The model's iteration state (Model/RRule.lean `State`) is local to one iterator and the
    only field of the object an iteration writes is `_len` (C01.interleaved_iterators_independent); a new write or a new
    attribute read by _iter breaks that correspondence.
"""
import ast, os, json, datetime, itertools

SITES_FILE = os.path.join(os.path.dirname(os.path.abspath(__file__)), "c01_shared_state_sites.json")


# ---------------------------------------------------------------------------------- (b) AST audit

def _chain(node):
    """dotted name of an attribute chain rooted in a Name ('self.rrule._x'), or None"""
    parts = []
    while isinstance(node, ast.Attribute):
        parts.append(node.attr)
        node = node.value
    if isinstance(node, ast.Name):
        parts.append(node.id)
        return ".".join(reversed(parts))
    return None


_MUTATORS = {"append", "extend", "insert", "pop", "remove", "clear", "sort", "reverse", "add", "discard", "update",
             "setdefault", "popitem", "__setitem__", "__delitem__", "__setattr__", "__delattr__"}


def _function_sites(cls, fn, rule_names):
    """sites of one function: stores / mutations / loads through a name that denotes the rule object.
    rule_names: dotted prefixes that denote the rule object at function entry ('self' in rrule methods, 'self.rrule' in
    _iterinfo methods); local aliases (`rr = self.rrule`) are followed."""
    out = {}
    pre = "%s.%s" % (cls, fn.name)
    aliases = set(rule_names)

    def is_rule(ch):
        return ch in aliases

    def add(kind, what):
        k = "%s:%s:%s" % (pre, kind, what)
        out[k] = 1

    # aliases first (flow-insensitive: any `x = <rule>` anywhere in the function)
    changed = True
    while changed:
        changed = False
        for n in ast.walk(fn):
            if isinstance(n, ast.Assign) and len(n.targets) == 1 and isinstance(n.targets[0], ast.Name):
                ch = _chain(n.value)
                if ch is not None and is_rule(ch) and n.targets[0].id not in aliases:
                    aliases.add(n.targets[0].id)
                    changed = True
    for n in ast.walk(fn):
        if isinstance(n, ast.Attribute):
            base = _chain(n.value)
            if base is not None and is_rule(base):
                if isinstance(n.ctx, (ast.Store, ast.Del)):
                    add("rule-store", n.attr)
                else:
                    add("rule-load", n.attr)
        if isinstance(n, ast.Subscript) and isinstance(n.ctx, (ast.Store, ast.Del)):
            ch = _chain(n.value)
            if ch is not None and any(ch.startswith(a + ".") for a in aliases):
                add("rule-item-store", ch.split(".")[-1])
        if isinstance(n, ast.AugAssign):
            ch = _chain(n.target) if isinstance(n.target, ast.Attribute) else None
            if ch is not None and any(ch.startswith(a + ".") for a in aliases):
                add("rule-store", ch.split(".")[-1])
        if isinstance(n, ast.Call):
            f = n.func
            if isinstance(f, ast.Attribute) and f.attr in _MUTATORS:
                ch = _chain(f.value)
                if ch is not None and any(ch.startswith(a + ".") for a in aliases):
                    add("rule-mutating-call", "%s.%s" % (ch.split(".")[-1], f.attr))
            if isinstance(f, ast.Name) and f.id in ("setattr", "delattr") and n.args:
                ch = _chain(n.args[0])
                if ch is not None and is_rule(ch):
                    add("rule-setattr", ast.unparse(n.args[1])[:40] if len(n.args) > 1 else "?")
            if isinstance(f, ast.Name) and f.id in ("vars",) and n.args:
                ch = _chain(n.args[0])
                if ch is not None and is_rule(ch):
                    add("rule-vars", "vars")
            if isinstance(f, ast.Name) and f.id == "_iterinfo":
                add("call", "_iterinfo")
        if isinstance(n, (ast.Global, ast.Nonlocal)):
            add("global", ",".join(n.names))
    for a in list(fn.args.defaults) + [d for d in fn.args.kw_defaults if d is not None]:
        if isinstance(a, (ast.List, ast.Dict, ast.Set, ast.Call)):
            add("mutable-default", ast.unparse(a)[:40])
    for d in fn.decorator_list:
        add("decorator", ast.unparse(d)[:60])
    return out


def ast_sites(repo):
    """the table compared with c01_shared_state_sites.json (names only, no counts: an edit that adds a second
    `self._len = total` on a new return path is not a change of shared state)"""
    path = os.path.join(repo, "src", "dateutil", "rrule.py")
    tree = ast.parse(open(path).read())
    out = {}
    classes = {n.name: n for n in tree.body if isinstance(n, ast.ClassDef)}
    rr = classes.get("rrule")
    ii = classes.get("_iterinfo")
    if rr is None or ii is None:
        out["missing-class:%s" % ("rrule" if rr is None else "_iterinfo")] = 1
        return out
    for fn in rr.body:
        if isinstance(fn, ast.FunctionDef) and fn.name in ("_iter", "__init__", "__construct_byset", "__mod_distance"):
            s = _function_sites("rrule", fn, {"self"})
            if fn.name == "__init__":
                # the constructor: only WHICH attributes it creates (= the fields of the model's Rule) and whether it builds
                # iteration state (_iterinfo) up front
                s = {k: v for k, v in s.items() if ":rule-store:" in k or ":call:" in k or ":rule-setattr:" in k}
            out.update(s)
    for fn in ii.body:
        if isinstance(fn, ast.FunctionDef):
            s = _function_sites("_iterinfo", fn, {"self.rrule", "rrule"} if fn.name == "__init__" else {"self.rrule"})
            out.update({k: v for k, v in s.items() if ":rule-load:" not in k or fn.name == "__init__"})
            # loads of rule attributes inside _iterinfo, as one set
            for k in s:
                if ":rule-load:" in k:
                    out["_iterinfo:rule-load:" + k.split(":")[-1]] = 1
        elif isinstance(fn, ast.Assign):
            out["_iterinfo:class-attr:" + ast.unparse(fn.targets[0])] = 1
    # module-level names bound to iteration state
    for n in tree.body:
        if isinstance(n, ast.Assign):
            v = n.value
            if isinstance(v, ast.Call) and isinstance(v.func, ast.Name) and v.func.id == "_iterinfo":
                out["module:assign-iterinfo:" + ast.unparse(n.targets[0])] = 1
    # rrulebase.__iter__ decides which generator an iteration gets
    rb = classes.get("rrulebase")
    if rb is not None:
        for fn in rb.body:
            if isinstance(fn, ast.FunctionDef) and fn.name == "__iter__":
                out.update(_function_sites("rrulebase", fn, {"self"}))
    return out


def audit(ctx, repo):
    """compare with the committed table; returns the list of new / removed sites (empty = unchanged)"""
    sites = ast_sites(repo)
    try:
        committed = json.load(open(SITES_FILE))
    except Exception:
        committed = {}
    new = sorted(k for k in sites if k not in committed)
    gone = sorted(k for k in committed if k not in sites)
    ctx.count("shared_state_sites_total", len(sites))
    ctx.hist["iter_writes_to_rule_object"] = "; ".join(sorted(
        k for k in sites if k.startswith(("rrule._iter:", "_iterinfo")) and (":rule-store:" in k or ":rule-item-store:" in k
                                                                              or ":rule-mutating-call:" in k or ":rule-setattr:" in k))) or "none"
    return new, gone


# ---------------------------------------------------------------------------------- (a) histories

BURSTS = [1, 1, 1, 2, 2, 3, 5, 8, 13, 40, 100, 400]


def gen_history(rng, nref, finite):
    """a seeded interleaving over k iterators of one object; events are JSON-able lists"""
    k = rng.randint(2, 4)
    ev = [["new", 0]]
    live = {0}
    steps = rng.randint(8, 30)
    for _ in range(steps):
        u = rng.random()
        if u < 0.14 and len(live) < k:
            j = min(set(range(k)) - live)
            ev.append(["new", j]); live.add(j)
        elif u < 0.17:
            ev.append(["new", rng.choice(sorted(live))])            # an iterator re-created: starts again from the beginning
        elif u < 0.20 and len(live) < k:
            j = min(set(range(k)) - live)
            ev.append(["setnew", j]); live.add(j)                   # an rruleset holding the rule twice, iterated
        elif u < 0.70:
            ev.append(["next", rng.choice(sorted(live)), rng.choice(BURSTS)])
        elif u < 0.78 and nref >= 2:
            i = rng.randrange(nref); j = rng.randrange(i, nref)
            ev.append(["between", i, j, rng.random() < 0.5, rng.choice([0, 0, 1, -1])])
        elif u < 0.84 and nref >= 1:
            ev.append(["after", rng.randrange(nref), rng.choice([0, 1, -1]), rng.random() < 0.5])
        elif u < 0.88 and nref >= 1:
            ev.append(["before", rng.randrange(nref), rng.choice([0, 1, -1]), rng.random() < 0.5])
        elif u < 0.93 and nref >= 1:
            ev.append(["getitem", rng.randrange(nref)])
        elif u < 0.96 and nref >= 1:
            a = rng.randrange(nref); b = rng.randrange(a, nref + 1)
            ev.append(["slice", a, b, rng.choice([1, 1, 2, 3])])
        elif u < 0.98 and nref >= 1:
            ev.append(["contains", rng.randrange(nref), rng.choice([0, 0, 1])])
        elif finite:
            ev.append(["count"])
    # end: every live iterator moves once more (state disturbed by the last queries shows here)
    for j in sorted(live):
        ev.append(["next", j, rng.choice([1, 2, 3])])
    return ev


def run_history(build, ref, ref_status, hist):
    """run `hist` on ONE object built by build(); ref / ref_status = what a fresh iterator over a separately built
    object delivers (the first len(ref) items and `stop` if the sequence ends there, `more` otherwise).
    Returns None, or (what, detail) for the first deviation."""
    from dateutil import rrule as R
    r = build()
    its, pos = {}, {}
    sec = datetime.timedelta(seconds=1)
    complete = ref_status == "stop"

    def shift(x, d):
        try:
            return x + d * sec
        except OverflowError:
            return x

    for n, e in enumerate(hist):
        op = e[0]
        if op == "new":
            its[e[1]] = iter(r); pos[e[1]] = 0
        elif op == "setnew":
            rs = R.rruleset()
            rs.rrule(r); rs.rrule(r)
            its[e[1]] = iter(rs); pos[e[1]] = 0
        elif op == "next":
            j = e[1]
            for _ in range(e[2]):
                p = pos[j]
                if p >= len(ref) and not complete:
                    break
                try:
                    x = next(its[j])
                except StopIteration:
                    if p < len(ref):
                        return ("iterator %d of a shared rule object stopped after %d items; a fresh iterator delivers %s next"
                                % (j, p, ref[p]), {"event": n, "iterator": j, "index": p, "impl": None, "fresh": str(ref[p])})
                    break
                if p >= len(ref):
                    return ("iterator %d of a shared rule object delivered %s after the end of the sequence a fresh iterator sees (%d items)"
                            % (j, x, len(ref)), {"event": n, "iterator": j, "index": p, "impl": str(x), "fresh": None})
                if x != ref[p] or x.tzinfo is not ref[p].tzinfo:
                    return ("iterator %d of a shared rule object delivered %s at index %d; a fresh iterator delivers %s"
                            % (j, x, p, ref[p]), {"event": n, "iterator": j, "index": p, "impl": str(x), "fresh": str(ref[p])})
                pos[j] = p + 1
        else:
            got = exp = None
            if op == "between":
                a, b, inc = shift(ref[e[1]], e[4]), shift(ref[e[2]], -abs(e[4])), e[3]
                if b < a:
                    continue
                got = r.between(a, b, inc=inc)
                exp = [x for x in ref if (a <= x <= b if inc else a < x < b)]
            elif op == "after":
                t, inc = shift(ref[e[1]], e[2]), e[3]
                exp_l = [x for x in ref if (x >= t if inc else x > t)]
                if not exp_l and not complete:
                    continue
                got = r.after(t, inc=inc)
                exp = exp_l[0] if exp_l else None
            elif op == "before":
                t, inc = shift(ref[e[1]], e[2]), e[3]
                if t > ref[-1] and not complete:
                    continue
                got = r.before(t, inc=inc)
                exp_l = [x for x in ref if (x <= t if inc else x < t)]
                exp = exp_l[-1] if exp_l else None
            elif op == "getitem":
                got = r[e[1]]
                exp = ref[e[1]]
            elif op == "slice":
                got = r[e[1]:e[2]:e[3]]
                exp = ref[e[1]:e[2]:e[3]]
            elif op == "contains":
                t = shift(ref[e[1]], e[2])
                if t > ref[-1] and not complete:
                    continue
                got = t in r
                exp = t in ref
            elif op == "count":
                if not complete:
                    continue
                got = r.count()
                exp = len(ref)
            if got != exp:
                return ("query %s on a rule object with live iterators answered %s; the sequence a fresh iterator sees gives %s"
                        % (op, _short(got), _short(exp)), {"event": n, "query": e, "impl": _short(got), "fresh": _short(exp)})
    return None


def _short(v):
    if isinstance(v, list):
        return "[" + ", ".join(str(x) for x in v[:4]) + (", … %d items" % len(v) if len(v) > 4 else "") + "]"
    return str(v)


# ---------------------------------------------------------------------------------- UNTIL in another zone than DTSTART

ZONES = {
    "NY-str": ("tzstr", "EST5EDT,M3.2.0,M11.1.0"),
    "SYD-str": ("tzstr", "AEST-10AEDT,M10.1.0,M4.1.0/3"),
    "NY-file": ("gettz", "America/New_York"),
    "LHI-file": ("gettz", "Australia/Lord_Howe"),          # 30-minute saving
}
# (zone, naive wall start a few hours before the transition): end of DST (repeated hour) and start of DST (gap)
ZONE_STARTS = [
    ("NY-str", (2024, 11, 3, 0, 30, 0)), ("NY-str", (2024, 3, 10, 0, 30, 0)), ("NY-str", (2024, 11, 2, 23, 10, 5)),
    ("SYD-str", (2024, 4, 7, 1, 0, 0)), ("SYD-str", (2024, 10, 6, 0, 45, 0)),
    ("NY-file", (2021, 11, 7, 0, 20, 0)), ("NY-file", (2021, 3, 14, 0, 20, 0)),
    ("LHI-file", (2024, 4, 7, 0, 40, 0)), ("LHI-file", (2024, 10, 6, 0, 40, 0)),
]
ZONE_RULES = [
    {"freq": 5, "interval": 15}, {"freq": 5, "interval": 20}, {"freq": 5, "interval": 7}, {"freq": 5, "interval": 45},
    {"freq": 4, "interval": 1, "byminute": [20, 50]}, {"freq": 4, "interval": 1}, {"freq": 4, "interval": 2, "byminute": [0, 30], "bysecond": [0, 30]},
    {"freq": 6, "interval": 600}, {"freq": 6, "interval": 1234}, {"freq": 6, "interval": 3600, "bysetpos": [1]},
    {"freq": 3, "interval": 1, "byhour": [0, 1, 2, 3], "byminute": [15, 45]},
    {"freq": 5, "interval": 30, "byhour": [1, 2]},
]
_ZCACHE = {}


def zone_obj(name):
    from dateutil import tz
    if name not in _ZCACHE:
        kind, arg = ZONES[name]
        _ZCACHE[name] = tz.tzstr(arg) if kind == "tzstr" else tz.gettz(arg)
    return _ZCACHE[name]


def until_zone_cases(rng, n_random):
    """aware rules (DST zone) x UNTIL carried by ANOTHER tzinfo (UTC as RFC 5545 requires, a fixed offset, an equal but distinct
    zone object), the UNTIL instant placed around the repeated hour / the gap: at a candidate's instant, +-1 s, between candidates"""
    out = []
    for zi, (zname, start) in enumerate(ZONE_STARTS):
        for ri, rule in enumerate(ZONE_RULES):
            if (zi + ri) % 3 and n_random < 400:
                continue
            for place in (("item", 3, 0), ("item", 4, 0), ("item", 5, 1), ("item", 6, -1), ("item", 7, 0), ("item", 9, 0), ("item", 12, 1800), ("item", 2, 0)):
                c = dict(rule)
                c.update({"zone": zname, "dtstart": list(start) + [0], "wkst": None, "until_place": list(place),
                          "until_kind": ["utc", "offset", "same-zone-other-object"][(zi + ri + place[1]) % 3], "n": 40})
                out.append(c)
    for _ in range(n_random):
        zname, start = rng.choice(ZONE_STARTS)
        c = dict(rng.choice(ZONE_RULES))
        if rng.random() < 0.5:
            c["interval"] = rng.choice([1, 2, 3, 5, 10, 11, 25, 40, 59, 61, 90]) * (1 if c["freq"] != 6 else 60)
        c.update({"zone": zname, "dtstart": list(start) + [0], "wkst": None,
                  "until_place": ["item", rng.randint(0, 14), rng.choice([0, 0, 1, -1, 450, -450, 1800])],
                  "until_kind": rng.choice(["utc", "utc", "offset", "same-zone-other-object"]), "n": 40})
        out.append(c)
    return out


def run_until_zone(c):
    """None (agrees) | "skip" | (what, detail).  Reference: the SAME rule without UNTIL (its sequence is what the main oracle
    checks against the specification); with UNTIL = u the rule must deliver exactly the elements whose INSTANT is not later than
    u — evaluated only where the instants of the unbounded sequence are increasing up to and just past u (inside a gap the
    wall-clock order and the instant order differ and "the last instant not later than UNTIL" is not a prefix)."""
    import datetime, itertools, warnings
    from dateutil import rrule as R, tz
    UTC = tz.tzutc()
    z = zone_obj(c["zone"])
    if z is None:
        return "skip"
    kw = {"dtstart": datetime.datetime(*c["dtstart"][:6], tzinfo=z), "interval": c["interval"]}
    for k in ("byhour", "byminute", "bysecond", "bysetpos"):
        if c.get(k) is not None:
            kw[k] = list(c[k])
    with warnings.catch_warnings():
        warnings.simplefilter("ignore")
        ref = list(itertools.islice(R.rrule(c["freq"], **kw), c["n"]))
    if not ref:
        return "skip"
    inst = [x.astimezone(UTC) for x in ref]
    _, idx, delta = c["until_place"]
    idx = min(idx, len(ref) - 2)
    if idx < 0:
        return "skip"
    u = inst[idx] + datetime.timedelta(seconds=delta)
    if c.get("until_utc") is not None:
        u = datetime.datetime(*c["until_utc"][:6], tzinfo=UTC)
    if u >= inst[-1]:
        return "skip"
    kind = c["until_kind"]
    if kind == "utc":
        until = u
    elif kind == "offset":
        until = u.astimezone(tz.tzoffset("O", 3 * 3600 + 1800))
    else:
        kd, arg = ZONES[c["zone"]]
        z2 = tz.tzstr.instance(arg) if kd == "tzstr" else tz.gettz.nocache(arg)       # equal zone, DISTINCT object
        if z2 is z or z2 is None:
            return "skip"                # the same object: CPython compares wall clocks inside one tzinfo, fold ignored
        until = u.astimezone(z2)
    exp = [x for x, i in zip(ref, inst) if i <= u]
    prefix = list(itertools.takewhile(lambda p: p[1] <= u, zip(ref, inst)))
    if len(prefix) != len(exp):
        return "skip"                                   # instants not increasing around u (gap): not a prefix question
    near = ref[:len(exp) + 2]
    if any(not tz.datetime_exists(x) for x in near) or any(not (a < b) for a, b in zip(inst[:len(near)], inst[1:len(near)])):
        return "skip"                                   # a candidate inside the gap: its instant is not defined
    with warnings.catch_warnings():
        warnings.simplefilter("ignore")
        try:
            got = list(itertools.islice(R.rrule(c["freq"], until=until, **kw), c["n"] + 5))
        except Exception as ex:
            return ("%s raised by a rule whose UNTIL carries another tzinfo than DTSTART" % type(ex).__name__, {"exception": str(ex)[:200]})
    c["until_utc"] = [u.year, u.month, u.day, u.hour, u.minute, u.second]
    if got != exp or any(g.tzinfo is not z for g in got):
        k = 0
        while k < len(got) and k < len(exp) and got[k] == exp[k]:
            k += 1
        return ("UNTIL=%s (%s) with DTSTART in %s: the rule yields %d instants, %d instants of its sequence are not later than UNTIL; first difference at "
                "index %d: implementation %s, expected %s" % (u.isoformat(), kind, c["zone"], len(got), len(exp), k,
                                                             got[k].isoformat() if k < len(got) else None, exp[k].isoformat() if k < len(exp) else None),
                {"impl": [g.isoformat() for g in got[max(0, k - 1):k + 2]], "expected": [e.isoformat() for e in exp[max(0, k - 1):k + 2]]})
    return None
