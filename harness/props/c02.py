"""C02 — parse() inverts every supported unambiguous date/time rendering."""
import datetime
import basecorr
from props import _parser_lib as L, _parser_gen as G

PROP = "C02"
TRUSTED = [
    "Model/Lexer.lean + Model/Parser.lean tied by the parser.parse correspondence on the rendered strings of all 48 templates "
    "(and by C14's malformed stream); Gen.convertyear / Gen.adjustAmpm are re-translated from source on every run",
    "the template printers of the oracle are harness/props/_parser_gen.py (Python); the Lean printer of the proved family "
    "(Spec/ParserTemplates.lean, ISO-like YYYY-MM-DD[T ]HH:MM:SS) is compared with it on every run (parser.render op)",
    "which templates have a parse_render theorem is not typed here: the driver prints PT.provedTemplates (covered by the theorem "
    "C02.proved_templates_have_theorems) and the evidence shows it as histograms.proved_templates / partial_templates with the "
    "offset scope and the dayfirst/yearfirst scope of each theorem; everything else is parse_render_partial (oracle sweep + "
    "correspondence of the executable model only)",
    "a failing oracle case is KNOWN only if the implementation's answer equals the Lean model's answer on it and the observed "
    "result is exactly the listed symptom; anything else inside a known class is a VIOLATION",
]
ASSUMPTIONS = [
    "the two-digit-year pivot of the expectations and of the model comes from the process clock (_parser_lib.model_pivot), not "
    "from parserinfo._year; that a freshly built parserinfo and DEFAULTPARSER.info carry the current year and its century is "
    "checked on every run (here and by pivot_oracle in C14/C15)",
    "a year, an AM/PM marker or an `s` unit is separated from a following offset / Z by a space (part of the templates)",
    "a zero-offset rendering must come back with utcoffset 0 under EVERY process zone, also where the process zone is merely "
    "CALLED UTC / GMT but is elsewhere (TZ=UTC+3, GMT-2, XXX0UTC,M3.5.0,M10.5.0): the repaired D-C02-local-zone-named-utc, kept as a "
    "regression stream (TZ_NAMED in correspondence and oracle)",
]
RULE = ("48 templates (ISO-like T/space, 1-6 fraction digits dot/comma, compact 8/12/14 digits, ctime, RFC 2822, month-name forms, "
        "NNhNNmNNs, US/European/year-first numeric under the matching flags, 12-hour forms incl. 12 AM/12 PM, two-digit years) "
        "x boundary-biased datetimes (years 1, 2, 31, 32, 68, 69, 99, 100, 101, 999, 1000, 9998, 9999; day 31 / month end; "
        "midnight/noon; µs 0/1/999999) x 21 offset spellings x TZ settings (IANA names and POSIX strings that CALL a zone UTC / GMT at "
        "another offset: UTC+3, GMT-2, UTC0) x for proved templates every dayfirst/yearfirst combination and default the theorem "
        "allows; distinct = distinct (template, datetime, offset, TZ, flags, default); "
        "non-trivial = the rendering was parsed and compared with the datetime rendered (unnamed fields from the default)")

TZ_NAMED = ["UTC+3", "GMT-2", "UTC0", "XXX0UTC,M3.5.0,M10.5.0"]     # zones CALLED UTC / GMT by a POSIX string, at any offset
TZ_QUICK = ["UTC", "America/New_York", "Europe/London", "UTC+3", "GMT-2", "UTC0"]
TZ_ALL = ["UTC", "America/New_York", "Europe/London", "Asia/Kolkata", "Australia/Lord_Howe", "America/Sao_Paulo"] + TZ_NAMED


def in_domain(t, d, year_now):
    if t['yy']:
        return year_now - 50 <= d.year <= year_now + 49
    return True


def cases(rng, n, year_now):
    out = []
    while len(out) < n:
        t = rng.choice(G.TEMPLATES)
        d = G.boundary_dt(rng, rng.randint(year_now - 50, year_now + 49) if t['yy'] else None)
        if not in_domain(t, d, year_now):
            continue
        off = rng.choice(G.OFFSETS) if t['time'] else None
        out.append((t, d, off))
    return out


def call_of(t, d, off):
    return L.Call(G.render(t, d, off), default=datetime.datetime(2001, 1, 1), dayfirst=t['flags'].get('dayfirst'),
                  yearfirst=t['flags'].get('yearfirst'), tag=t['name'])


def correspondence(ctx):
    basecorr.run(ctx)
    from dateutil.parser import _parser
    year_now = L.model_pivot(_parser.DEFAULTPARSER.info)[0]      # from the process clock (review3b F8)
    rng = ctx.subrng("corr")
    prev = L.set_tz("UTC")
    try:
        for tzenv in (TZ_ALL if ctx.budget(0, 1) else ["UTC", "America/New_York", "UTC+3", "XXX0UTC,M3.5.0,M10.5.0"]):
            L.set_tz(tzenv)
            cs = cases(rng, ctx.budget(6000, 60000), year_now)
            calls = [call_of(t, d, off) for t, d, off in cs]
            model = L.model_answers(ctx, calls)
            for c, m in zip(calls, model):
                i, _, _ = L.run_impl(c)
                ctx.count("corr_" + c.tag)
                if i != m:
                    ctx.mismatch("parser.parse", c.describe(), i, m)
            ctx.traces += len(calls)
        # the hypothesis `AsciiOK` of the parse_render theorems: Python's classes of all 128 ASCII characters
        lean_ascii = ctx.driver(["parser.asciicls"])[0][3:]
        py_ascii = "".join(L.cls_char(chr(i)) for i in range(128))
        if lean_ascii != py_ascii:
            ctx.mismatch("AsciiOK", "ASCII classes", py_ascii, lean_ascii)
        # proved / partial template lists come from the Lean side (PT.provedTemplates, covered by the theorem
        # C02.proved_templates_have_theorems): an id listed there without a theorem does not build
        pm = proved_map(ctx)
        proved = {k: v[0] for k, v in pm.items()}
        py_ids = [t['name'] for t in G.TEMPLATES]
        ctx.hist["proved_templates"] = ", ".join("%s[offsets:%s dayfirst:%s yearfirst:%s]" % (k, v[0], v[1], v[2]) for k, v in pm.items())
        ctx.hist["partial_templates"] = ", ".join(
            [n for n in py_ids if n not in proved] +
            ["%s+offsets" % n for n in py_ids if n in proved and proved[n] == "none" and G.T[n]['time']])
        ctx.count("proved_template_ids", len(proved))
        ctx.count("partial_template_ids", len([n for n in py_ids if n not in proved]))
        unknown = [k for k in proved if k not in G.T]
        if unknown:
            ctx.mismatch("parser.proved", "ids unknown to the oracle's template table", "", ",".join(unknown))
        # the Lean printer of EVERY proved template against the oracle's Python printer of the same id
        rq = ctx.subrng("tmpl")
        treqs, texp = [], []
        OFFW = {None: "n", "Z": "z0", " Z": "z1", " UTC": "u"}
        def offwire(o):
            if o in OFFW:
                return OFFW[o]
            sp = 1 if o.startswith(" ") else 0
            t = o.strip(); neg = 1 if t[0] == "-" else 0; t = t[1:]
            if ":" in t:
                return "c%d%d.%d.%d" % (sp, neg, int(t[:2]), int(t[3:]))
            if len(t) == 4:
                return "m%d%d.%d.%d" % (sp, neg, int(t[:2]), int(t[2:]))
            return "h%d%d.%d" % (sp, neg, int(t))
        for _ in range(ctx.budget(6000, 60000)):
            pid = rq.choice(list(proved))
            if pid not in G.T:
                continue
            t = G.T[pid]
            d = G.boundary_dt(rq)
            off = None
            if t['time'] and proved[pid] != "none":
                off = rq.choice(G.OFFSETS)
                if off and t['sp'] and not off.startswith(" "):
                    off = " " + off
                if off and proved[pid] == "spaced" and not off.startswith(" "):
                    off = " " + off
            treqs.append("parser.tmpl %s [%d,%d,%d,%d,%d,%d,%d] %s" % (pid, d.year, d.month, d.day, d.hour, d.minute, d.second,
                                                                     d.microsecond, offwire(off)))
            texp.append("ok " + L.cps(G.render(t, d, off)))
        for q, e, g in zip(treqs, texp, ctx.driver(treqs)):
            if e != g:
                ctx.mismatch("parser.tmpl", q, e, g)
        ctx.traces += len(treqs)
        ctx.count("tmpl_printer_cases", len(treqs))
        # the Lean printers of the proved families against independent Python printers
        rr = ctx.subrng("rend")
        reqs, exp = [], []
        def offs():
            k = rr.choice("nzuhmc")
            sp, neg = rr.randint(0, 1), rr.randint(0, 1)
            hh, mm = rr.choice([0, 3, 9, 10, 23]), rr.choice([0, 1, 30, 59])
            sg = "-" if neg else "+"
            pre = " " if sp else ""
            if k == "n": return "n", ""
            if k == "z": return "z%d" % sp, pre + "Z"
            if k == "u": return "u", " UTC"
            if k == "h": return "h%d%d.%d" % (sp, neg, hh), "%s%s%02d" % (pre, sg, hh)
            if k == "m": return "m%d%d.%d.%d" % (sp, neg, hh, mm), "%s%s%02d%02d" % (pre, sg, hh, mm)
            return "c%d%d.%d.%d" % (sp, neg, hh, mm), "%s%s%02d:%02d" % (pre, sg, hh, mm)
        for _ in range(ctx.budget(4000, 40000)):
            d = G.boundary_dt(rr)
            dl = "[%d,%d,%d,%d,%d,%d,%d]" % (d.year, d.month, d.day, d.hour, d.minute, d.second, d.microsecond)
            ow, os_ = offs()
            kind = rr.choice(["isox", "isox", "compact", "mon", "mon", "ampm", "hmsl", "num"])
            date = "%04d-%02d-%02d" % (d.year, d.month, d.day)
            hms = "%02d:%02d:%02d" % (d.hour, d.minute, d.second)
            if kind == "isox":
                sep = rr.choice("T "); fc = rr.randint(0, 3); k = rr.randint(1, 6)
                tm = [hms, hms + "." + ("%06d" % d.microsecond)[:k], hms + "," + ("%06d" % d.microsecond)[:k], hms[:5]][fc]
                reqs.append("parser.rend isox [%d,%d,%d] %s %s" % (ord(sep), fc, k, dl, ow)); exp.append(date + sep + tm + os_)
            elif kind == "compact":
                f = rr.randint(0, 3); cd = "%04d%02d%02d" % (d.year, d.month, d.day)
                e = [cd + "T%02d%02d%02d" % (d.hour, d.minute, d.second), cd + "%02d%02d%02d" % (d.hour, d.minute, d.second),
                     cd + "T%02d%02d" % (d.hour, d.minute), cd][f]
                reqs.append("parser.rend compact [%d] %s n" % (f, dl)); exp.append(e)
            elif kind == "mon":
                f = rr.randint(0, 4); w = rr.randint(0, 6)
                e = ["%s %s %2d %s %04d" % (G.WD[w], G.MON[d.month - 1], d.day, hms, d.year),
                     "%s, %02d %s %04d %s%s" % (G.WD[w], d.day, G.MON[d.month - 1], d.year, hms, os_),
                     "%s %d, %04d" % (G.MONL[d.month - 1], d.day, d.year), "%d %s %04d" % (d.day, G.MON[d.month - 1], d.year),
                     "%02d-%s-%04d" % (d.day, G.MON[d.month - 1], d.year)][f]
                reqs.append("parser.rend mon [%d,%d] %s %s" % (f, w, dl, ow if f == 1 else "n")); exp.append(e)
            elif kind == "num":
                f = rr.randint(0, 5); yy = d.year % 100
                e = ["%02d/%02d/%04d" % (d.month, d.day, d.year), "%02d/%02d/%04d" % (d.day, d.month, d.year),
                     "%04d/%02d/%02d" % (d.year, d.month, d.day), "%02d/%02d/%02d" % (d.month, d.day, yy),
                     "%02d/%02d/%02d" % (d.day, d.month, yy), "%02d/%02d/%02d" % (yy, d.month, d.day)][f]
                reqs.append("parser.rend num [%d] %s n" % (f, dl)); exp.append(e)
            elif kind == "ampm":
                reqs.append("parser.rend ampm [] %s n" % dl); exp.append("%s %d:%02d %s" % (date, G.h12(d.hour), d.minute, G.ap(d.hour)))
            else:
                reqs.append("parser.rend hmsl [] %s n" % dl); exp.append("%s %02dh%02dm%02ds" % (date, d.hour, d.minute, d.second))
        got = ctx.driver(reqs)
        for q, e, g in zip(reqs, exp, got):
            if g != "ok " + L.cps(e):
                ctx.mismatch("parser.rend", q, e, g)
        # and the implementation parses exactly these renderings as the theorems say (offset descriptor included)
        sub = [(q, e) for q, e in zip(reqs, exp)][: ctx.budget(1500, 15000)]
        def flags(q):
            if q.startswith("parser.rend num [1]") or q.startswith("parser.rend num [4]"):
                return {"dayfirst": True}
            if q.startswith("parser.rend num [5]"):
                return {"yearfirst": True}
            return {}
        calls = [L.Call(e, default=datetime.datetime(2001, 1, 1), **flags(q)) for q, e in sub]
        model = L.model_answers(ctx, calls)
        for c, m in zip(calls, model):
            i, _, _ = L.run_impl(c)
            if i != m:
                ctx.mismatch("parser.parse", c.describe(), i, m)
        ctx.traces += len(reqs) + len(calls)
        ctx.count("rend_cases", len(reqs))
        # the Lean printer of the proved family against the Python printer
        L.set_tz("UTC")
        rs = ctx.subrng("render")
        reqs, exp = [], []
        for _ in range(ctx.budget(3000, 30000)):
            d = G.boundary_dt(rs)
            sep = rs.choice("T ")
            reqs.append("parser.render %d [%d,%d,%d,%d,%d,%d,0]" % (ord(sep), d.year, d.month, d.day, d.hour, d.minute, d.second))
            exp.append("ok " + L.cps(G.T['iso_T_s' if sep == 'T' else 'iso_sp_s']['render'](d)))
        got = ctx.driver(reqs)
        for q, e, g in zip(reqs, exp, got):
            if e != g:
                ctx.mismatch("parser.render", q, e, g)
        ctx.traces += len(reqs)
        ctx.count("render_cases", len(reqs))
    finally:
        L.set_tz(prev)


ZERO_NAMES = {"Z": "UTC", "UTC": "UTC"}        # what `validate` / `_parse` make of a zero-offset spelling: tzname 'UTC'


# second-precision renderings whose seconds do NOT go through `_parsems` (which sets microsecond = 0): the 14-digit run
# YYYYMMDDHHMMSS sets `second` only, so the microsecond is a field "absent from the text" and comes from the default (C15);
# this is what PT.CompactFmt.expect .nosepHMS says.  With the usual midnight default both readings are trunc(dt).
US_FROM_DEFAULT = {'compact_nosep_s'}


def expect_of(d, prec, dflt, name=None):
    """the datetime a rendering of precision `prec` must parse to: fields the text does not show come from the default"""
    if prec == 's' and name in US_FROM_DEFAULT:
        return d.replace(microsecond=dflt.microsecond)
    if prec == 'us':
        return d
    if isinstance(prec, tuple):
        q = 10 ** (6 - prec[1])
        return d.replace(microsecond=d.microsecond // q * q)
    if prec == 's':
        return d.replace(microsecond=0)
    if prec == 'm':
        return d.replace(second=dflt.second, microsecond=dflt.microsecond)
    if prec == 'h':
        return d.replace(minute=dflt.minute, second=dflt.second, microsecond=dflt.microsecond)
    return d.replace(hour=dflt.hour, minute=dflt.minute, second=dflt.second, microsecond=dflt.microsecond)


def proved_map(ctx):
    """id -> (offset scope, dayfirst code, yearfirst code) from the Lean side (PT.provedTemplates)"""
    out = {}
    for x in ctx.driver(["parser.proved"])[0][3:].split(","):
        k, v = x.split(":")
        sc, fl = v.split("/")
        out[k] = (sc, fl[0], fl[1])
    return out


_INFO_OBJS = {}


def info_of(df, yf):
    """one shared parserinfo(dayfirst=df, yearfirst=yf) per combination"""
    from dateutil.parser import parserinfo
    if (df, yf) not in _INFO_OBJS:
        _INFO_OBJS[(df, yf)] = parserinfo(dayfirst=df, yearfirst=yf)
    return _INFO_OBJS[(df, yf)]


def flag_choices(code, own):
    """argument values allowed by a theorem's flag code: 0 = effective flag false, 1 = true, * = any"""
    if code == '*':
        return [None, True, False]
    if code == '1':
        return [True]
    return [None, False]


def pivot_year(y2, year_now):
    """the unique year congruent to y2 mod 100 within -50..+49 of year_now (written without convertyear)"""
    for y in range(year_now - 50, year_now + 50):
        if y % 100 == y2 % 100:
            return y


def zone_clause(got, exp, off):
    """the property's own clause: naive iff nothing rendered; else aware with exactly the rendered offset"""
    if off is None:
        return got.tzinfo is None and got == exp
    try:
        return (got.tzinfo is not None and got.utcoffset() == datetime.timedelta(seconds=G.offset_seconds(off))
                and got.replace(tzinfo=None) == exp)
    except (ValueError, OverflowError):
        return False


def classify_failure(t, d, off, exp, ans, model, got, year_now):
    """which KNOWN class (if any) a failing case is an instance of.  A case is known only if the implementation's answer
    equals the Lean model's answer (the model is the formal statement of the defect) AND the observed result is exactly
    the symptom the finding describes."""
    import time as _time
    from dateutil import tz
    if ans == model == "err ParserError" and t['name'].startswith('hms_letters_') and t['name'][-1] in "35":
        return "D-C02-hms-fraction-token-length"        # exactly: rejected, model agrees, 3 or 5 fraction digits after NNhNNmNN
    if ans == model == "err OverflowError" and off is not None and G.offset_seconds(off) == 0 and "UTC" in _time.tzname:
        # D-C02-tzlocal-calendar-edge: exactly — zero offset under a zone called UTC, and the zone object's own tzname() overflows at
        # the expected wall time (within the DST saving of datetime.min / max)
        try:
            exp.replace(tzinfo=tz.tzlocal()).tzname()
            exp.replace(tzinfo=tz.tzlocal(), fold=1).tzname()
        except OverflowError:
            return "D-C02-tzlocal-calendar-edge"
        return None
    if ans != model or not ans.startswith("ok ") or got is None:
        return None
    naive = got.replace(tzinfo=None)
    ids = []
    # D-C02-monthname-century: the wall time is right except for the century — the year is the two-digit pivot of year % 100
    want = exp
    if t['ydec'] and d.year < 100:
        want = exp.replace(year=pivot_year(d.year, year_now))
        ids.append("D-C02-monthname-century")
    if naive != want:
        return None
    # zone: exactly as rendered (D-C02-local-zone-named-utc is repaired: a zero offset under a zone merely called UTC is no
    # longer excused)
    if off is None:
        zone_ok = got.tzinfo is None
    else:
        zone_ok = got.tzinfo is not None and got.utcoffset() == datetime.timedelta(seconds=G.offset_seconds(off))
    if not zone_ok:
        return None
    return "+".join(ids) if ids else None


def oracle_decimal_context(ctx, rng):
    """renderings with a fraction under an AMBIENT decimal context (`decimal.getcontext().prec` set to 3, 5, 9 around the call: the
    thread's context is process state the parser must not depend on for the digits it reads), and the same renderings with the
    fraction padded by zeros to 7 … 60 digits (the same value written with more digits: must still round-trip)."""
    import decimal
    frac = [t for t in G.TEMPLATES if (t['prec'] == 'us' or isinstance(t['prec'], tuple)) and not t['yy']]
    dflt = datetime.datetime(2001, 1, 1)
    for _ in range(ctx.budget(400, 4000)):
        t = rng.choice(frac)
        d = G.boundary_dt(rng)
        if t['ydec'] and d.year < 100:
            continue
        text = G.render(t, d, None)
        exp = expect_of(d, t['prec'], dflt, t['name'])
        ref = L.run_impl(L.Call(text, default=dflt, dayfirst=t['flags'].get('dayfirst'), yearfirst=t['flags'].get('yearfirst')))[0]
        variants = [("prec", p, text) for p in (3, 5, 9)]
        if text[-1:].isdigit() and ref.startswith("ok "):          # the fraction ends the text: pad it with zeros
            variants += [("pad", k, text + "0" * k) for k in (1, 10, 22, 23, 24, 30, 60)]
        for kind, k, txt in variants:
            c = L.Call(txt, default=dflt, dayfirst=t['flags'].get('dayfirst'), yearfirst=t['flags'].get('yearfirst'), tag=t['name'])
            if kind == "prec":
                with decimal.localcontext() as dc:
                    dc.prec = k
                    ans, _, got = L.run_impl(c, raw=True)
            else:
                ans, _, got = L.run_impl(c, raw=True)
            ctx.case(("decimal-context", kind, k, txt), nontrivial=ans.startswith("ok "))
            ctx.count("decimal_context_%s" % kind)
            # the reference is the same rendering under the default context (the known 3-/5-digit NNhNNmNN.fs rejection stays what it is)
            ok = (ans == ref) if kind == "prec" else (ref.startswith("ok ") and ans.startswith("ok ") and got == exp)
            if not ok:
                case = c.describe()
                case.update({"template": t['name'], "datetime": d.isoformat(), "offset": None, "year": d.year,
                             "decimal_context_prec": k if kind == "prec" else None, "fraction_zero_padding": k if kind == "pad" else None})
                ctx.violation("parse(render(dt)) != the datetime rendered (ambient decimal context / zero-padded fraction)", case,
                              {"impl": ans, "default_context": ref, "expected": exp.isoformat()})


def oracle(ctx):
    import time as _time
    from dateutil import parser as P
    from dateutil.parser import _parser
    year_now = L.model_pivot(_parser.DEFAULTPARSER.info)[0]      # from the process clock, not from the object (review3b F8)
    # ---- "of the current year": a freshly built parserinfo really uses this year (New-Year race tolerated) and the century
    #      that belongs to it; DEFAULTPARSER's may be older only by a process that lived through New Year
    y0 = datetime.datetime.now().year
    fresh = P.parserinfo()
    y1 = datetime.datetime.now().year
    ctx.case(("current-year",), nontrivial=True)
    if fresh._year not in (y0, y1) or fresh._century != fresh._year // 100 * 100:
        ctx.violation("parserinfo()._year / _century must be the current year and its century",
                      {"text": None, "_year": fresh._year, "_century": fresh._century, "now": y1}, {})
    if year_now not in (y0, y1, y0 - 1) or _parser.DEFAULTPARSER.info._century != year_now // 100 * 100:
        ctx.violation("DEFAULTPARSER.info._year / _century must be the current year and its century",
                      {"text": None, "_year": year_now, "_century": _parser.DEFAULTPARSER.info._century, "now": y1}, {})
    proved = proved_map(ctx)
    rng = ctx.subrng("oracle")
    prev = L.set_tz("UTC")
    known_counts = {}
    samples = []
    try:
        envs = (TZ_ALL if ctx.budget(0, 1) else TZ_QUICK)
        for tzenv in envs:
            L.set_tz(tzenv)
            named_utc = tzenv in TZ_NAMED
            cs = cases(rng, ctx.budget(4000 if named_utc else 12000, 60000 if named_utc else 200000), year_now)
            rows = []
            for t, d, off in cs:
                # EFFECTIVE flags: the template's own, or (half of the time) any combination its theorem says the result does not
                # depend on; then spread over the two levels the code has — parserinfo(dayfirst=, yearfirst=) and the keyword of
                # the call (None = take the parserinfo's; an explicit False must override a parserinfo built with True)
                edf, eyf = bool(t['flags'].get('dayfirst')), bool(t['flags'].get('yearfirst'))
                dflt = datetime.datetime(2001, 1, 1)
                if t['name'] in proved and rng.random() < 0.5 and not (t['ydec'] and d.year < 100):     # inside the theorem's domain
                    _, cdf, cyf = proved[t['name']]
                    edf = rng.choice([False, True]) if cdf == '*' else (cdf == '1')
                    eyf = rng.choice([False, True]) if cyf == '*' else (cyf == '1')
                    dflt = rng.choice(G.DEFAULTS)
                    ctx.count("flags_varied")
                idf, iyf = rng.choice([False, False, True]), rng.choice([False, False, True])
                df = rng.choice([None, edf]) if idf == edf else edf
                yf = rng.choice([None, eyf]) if iyf == eyf else eyf
                info = None if (not idf and not iyf and rng.random() < 0.7) else info_of(idf, iyf)
                ctx.count("levels_info%d%d_kw%s%s" % (idf, iyf, "N" if df is None else int(df), "N" if yf is None else int(yf)))
                rows.append((t, d, off, L.Call(G.render(t, d, off), default=dflt, dayfirst=df, yearfirst=yf, info=info, tag=t['name'])))
            # every template at the D-C02 witness and at fixed boundary datetimes
            for t in G.TEMPLATES:
                for d in (datetime.datetime(31, 5, 28, 23, 52, 59), datetime.datetime(99, 12, 31, 12, 0, 0, 999999),
                          datetime.datetime(100, 1, 1), datetime.datetime(9999, 12, 31, 23, 59, 59, 999999),
                          datetime.datetime(2000, 2, 29, 0, 0, 0, 1), datetime.datetime(1, 1, 1)):
                    if in_domain(t, d, year_now):
                        rows.append((t, d, None, call_of(t, d, None)))
            model = L.model_answers(ctx, [r[3] for r in rows])
            for (t, d, off, c), m in zip(rows, model):
                ans, _, got = L.run_impl(c, raw=True)
                exp = expect_of(d, t['prec'], c.default, t['name'])
                case = c.describe()
                case.update({"template": t['name'], "datetime": d.isoformat(), "offset": off, "year": d.year,
                             "year_via_decimal": t['ydec'], "family": t['fam']})
                ctx.case((t['name'], d, off, tzenv, c.dayfirst, c.yearfirst, c.default), nontrivial=ans.startswith("ok "))
                ctx.count("template_" + t['name'])
                ctx.count("offset_" + ("none" if off is None else off.strip()))
                if d.year < 100:
                    ctx.count("year_below_100")
                if len(samples) < 3 and rng.random() < 0.001:
                    samples.append({"text": c.text, "TZ": tzenv, "template": t['name'], "impl": ans, "model": m})
                ok = ans.startswith("ok ") and zone_clause(got, exp, off)
                if ok:
                    continue
                kid = classify_failure(t, d, off, exp, ans, m, got, year_now)
                case["known_class"] = kid
                if kid is not None:
                    known_counts[kid] = known_counts.get(kid, 0) + 1
                    ctx.count("known_class_%s_hits" % kid)
                    if known_counts[kid] > 25:
                        continue                 # keep the (capped) violation list for anything else
                what = ("rendering rejected (%s)" % ans) if not ans.startswith("ok ") else "parse(render(dt)) != the datetime rendered"
                ctx.violation(what, case, {"impl": ans, "model": m, "expected": exp.isoformat(), "offset": off})
        # two-digit years: the unique year within -50..+49 of info._year, over the whole window
        L.set_tz("UTC")
        for y in range(year_now - 50, year_now + 50):
            for t in [x for x in G.TEMPLATES if x['yy']]:
                d = datetime.datetime(y, 7, 9, 10, 20)
                c = call_of(t, d, None)
                ans, _, got = L.run_impl(c, raw=True)
                ctx.case(("yy", t['name'], y))
                ctx.count("two_digit_year_window")
                if not (ans.startswith("ok ") and got.year == y and year_now - 50 <= got.year <= year_now + 49):
                    case = c.describe(); case.update({"template": t['name'], "year": y, "year_via_decimal": False})
                    ctx.violation("two-digit year must resolve to the unique year within -50..+49 of %d" % year_now, case, {"impl": ans})
        oracle_decimal_context(ctx, ctx.subrng("decimal-context"))
        # the two-digit-year rule under OTHER clock years (parserinfo() built with time.localtime patched to 1950 … 2099): all 100
        # two-digit years against "the unique year within -50..+49 of the clock year"
        L.pivot_oracle(ctx)
        # the two witnesses, re-confirmed on every run
        ctx.sample({"text": "Wed May 28 23:52:59 0031", "finding": "D-C02-monthname-century",
                    "impl": L.run_impl(L.Call("Wed May 28 23:52:59 0031", default=datetime.datetime(2001, 1, 1)))[0]})
        L.set_tz("UTC+3")
        wans, _, wgot = L.run_impl(L.Call("2003-09-25T10:49:41+00:00"), raw=True)
        ctx.case(("witness", "D-C02-local-zone-named-utc"))
        ctx.sample({"text": "2003-09-25T10:49:41+00:00", "TZ": "UTC+3", "time.tzname": list(_time.tzname),
                    "repaired": "D-C02-local-zone-named-utc", "impl": wans})
        if not (wans.startswith("ok ") and wgot.utcoffset() == datetime.timedelta(0)):
            wc = L.Call("2003-09-25T10:49:41+00:00").describe()
            wc.update({"template": "iso_T", "datetime": "2003-09-25T10:49:41", "offset": "+00:00"})
            ctx.violation("parse(render(dt)) != the datetime rendered", wc, {"impl": wans, "expected": "2003-09-25T10:49:41+00:00"})
        L.set_tz("UTC")
        for x in samples:
            ctx.sample(x)
        ctx.hist["info_year"] = year_now
    finally:
        L.set_tz(prev)


def _known(kid):
    return lambda v: (kid in (v["case"].get("known_class") or "").split("+")
                      and v["detail"].get("impl") is not None and v["detail"].get("impl") == v["detail"].get("model"))


KNOWN = {"D-C02-hms-fraction-token-length": _known("D-C02-hms-fraction-token-length"),
         "D-C02-monthname-century": _known("D-C02-monthname-century"),
         "D-C02-tzlocal-calendar-edge": _known("D-C02-tzlocal-calendar-edge")}


def replay(ctx, payload):
    c = payload["violation"]["case"]
    if c.get("text") is None:
        print("not a parse case: %s" % c)
        return False
    if c.get("tag") == "pivot":
        call = L.call_from_case(c)
        a, _, got = L.run_impl(call, raw=True)
        print("clock year %s (patched: %s): parse(%s) = %s; expected year %s" % (c.get("clock_year"), c.get("patched_clock_year"),
                                                                              ascii(c["text"]), a, c.get("expected_year")))
        return a.startswith("ok ") and got.year == c.get("expected_year")
    prev = L.set_tz(c.get("TZ") or "UTC")
    try:
        call = L.call_from_case(c)
        if c.get("decimal_context_prec"):
            import decimal
            with decimal.localcontext() as dc:
                dc.prec = int(c["decimal_context_prec"])
                a, _, got = L.run_impl(call, raw=True)
        else:
            a, _, got = L.run_impl(call, raw=True)
        m = L.model_answers(ctx, [call])[0]
    finally:
        L.set_tz(prev)
    print("TZ=%s parse(%s) = %s; model = %s; rendered from %s with offset %r" % (c.get("TZ"), ascii(c["text"]), a, m, c.get("datetime"), c.get("offset")))
    d = datetime.datetime.fromisoformat(c["datetime"]) if c.get("datetime") else None
    if d is None or c.get("template") not in G.T:
        return False
    exp = expect_of(d, G.T[c["template"]]['prec'], call.default, c["template"])
    return a.startswith("ok ") and zone_clause(got, exp, c.get("offset"))
