"""C13 — rrulestr and str(rrule) are inverse; RFC text means the same as keywords."""
import datetime, itertools, warnings, signal
import basecorr
from vlib import hexs, exc_kind, ilist

PROP = "C13"
TRUSTED = [
    "Model/RRuleStr.lean is the model the theorems speak about; rrule.__str__, _rrulestr._parse_rfc, _parse_rfc_rrule, every _handle_* method, _parse_date_value and __call__ are re-translated from source on every run (Generated/RRuleStrKernels.lean) and proved equal to it (gen_*_eq_model): every method of _rrulestr is translated as a whole; the rrs.parse correspondence still records the implementation's constructor and parser.parse calls in-process and compares them with the model, and rrsgen.call answers every such request through the translation",
    "hand-modelled primitives the translation rests on: _common.weekday.__repr__ / __call__ (weekdayRepr, weekdayCall), str.split/upper/strip/int for ASCII, strftime's %m %d %H %M %S as two-digit fields, '%04d'; parser.parse is a parameter of the translated _parse_date_value and its result is kept as text + options in _handle_UNTIL and for RDATE values (C02); a _parse_date_value call inside the dispatch loop is represented by its parameter check and one record per value (gen_parse_date_value_naive); rruleset(cache=) with its rrule/rdate/exrule/exdate calls is the record Parsed.set; lazy imports are skipped (first-use behaviour: fresh-interpreter stream)",
    "date values go through parser.parse in the real code (C02); the model covers only the compact form YYYYMMDDTHHMMSS[Z] that __str__ emits — other spellings are compared on the implementation only",
    "rrule(**kwargs) itself is C01's constructor; 'same kwargs => same occurrences' is determinism of C01's model",
    "TZID resolution (the pre-scan, the name table, the parameter loop of _parse_date_value, the zone attach) and the unfold loop are re-translated from source on every run (harness/translate_str.py -> Generated/RRuleStrKernels.lean) and tied to the hand model by gen_prefix_eq_model / gen_unfold_loop_eq_model / gen_dateParms_eq_model; the translation is run (ops rrsgen.*) against the very statements it was made from, compiled from the same AST nodes",
    "Model/StrPy.lean's regular expressions are a deterministic matcher for three item shapes; the translator accepts a pattern only when Python's backtracking matcher cannot differ from it (optional character followed by a different literal; [^..]+ followed by a class it excludes), parsed with Python's own re parser; what ignoretz / tzinfos do inside parser.parse is C02",
    "str_roundtrip_rule* / str_roundtrip_occurrences take the two date values over unchanged (backArgs / backArgsNaive); that parser.parse reads the compact text back as that naive datetime is date_text_read_back (C02's parser model and its parse_compact); the parser model's tie to the real parser.parse is C02's correspondence; compact_roundtrip is about the driver's display helper",
    "RDATE/EXDATE/DTSTART line dispatch is hand-modelled (correspondence); multi_line_builds_set is for parameter-less lines joined by newlines without unfold; unfold_fold is about the unfold path",
]
ASSUMPTIONS = [
    "the theorems str_roundtrip* / str_roundtrip_rule are about calendar.firstweekday() == 0 (the interpreter's default); str_roundtrip_rule_ambient states the ambient value explicitly (every k, no hypothesis on the week start since the repair of D-C13-ambient-wkst) and str_roundtrip_rule_cross_ambient a different first weekday on the reading side; the oracle and the correspondence also run under setfirstweekday(0..6)",
    "texts in the correspondence are ASCII (str.upper/split/splitlines/int are modelled for ASCII)",
    "aware dtstart through str() is excluded by the property itself (upstream xfail)",
]
RULE = ("seeded rules over C01's argument space (7 freqs, interval, wkst, count/until, every BY-part with positive/negative members, nth weekdays, "
        "years 1..9999 incl. < 1000) -> str(rule) -> rrulestr; spelling variants (part order, letter case, BYDAY/BYWEEKDAY x '+1MO'/'1MO'/'MO(+1)', "
        "DTSTART inline / Z / TZID / dtstart=, folded lines + unfold), multi-line sets, forceset/compatible, malformed and unknown parts; "
        "distinct = distinct (text, options); non-trivial = the text parsed to a rule or set whose occurrences were compared")

WDN = ["MO", "TU", "WE", "TH", "FR", "SA", "SU"]

class Timeout(Exception):
    pass

def _alarm(*a):
    raise Timeout()

LIMIT_SCALE = [1]

class relaxed(object):
    """inside this block the per-call real-time limits are 50 times longer: used where a time-out would not mean
    "skip this case" but would change a verdict (the explanation of a known finding)"""
    def __enter__(self):
        self.old = LIMIT_SCALE[0]; LIMIT_SCALE[0] = 50
    def __exit__(self, *a):
        LIMIT_SCALE[0] = self.old

def limited(fn, secs=0.1):
    old = signal.signal(signal.SIGALRM, _alarm)
    signal.setitimer(signal.ITIMER_REAL, secs * LIMIT_SCALE[0])
    try:
        return fn()
    finally:
        signal.setitimer(signal.ITIMER_REAL, 0)
        signal.signal(signal.SIGALRM, old)

def head(it, n=10):
    return limited(lambda: list(itertools.islice(it, n)))

# ------------------------------------------------------------------ rule generator

def gen_kwargs(rng, small_years=True):
    from dateutil import rrule as R
    freq = rng.randint(0, 6)
    y = rng.choice([1, 99, 999, 1000, 1997, 2000, 2024, 9990] if small_years else [1997, 2000, 2024])
    ds = datetime.datetime(y, rng.randint(1, 12), rng.randint(1, 28), rng.randint(0, 23), rng.randint(0, 59), rng.randint(0, 59))
    # interval 0 and negative intervals are accepted by the constructor and printed by __str__ (INTERVAL is omitted only for 1)
    # (one-, two-, three- and many-digit values: str() / int() are proved for every Int, the generators must reach them)
    kw = dict(interval=rng.choice([1, 1, 1, 2, 2, 3, 3, 9, 10, 10, 11, 12, 99, 100, 1000, 12345678901234567890, 0, -2, -10]))
    if rng.random() < .5:
        kw["wkst"] = rng.choice([0, 1, 6, R.MO, R.SU, R.TU])
    some = lambda pool, k=3: rng.sample(pool, rng.randint(1, k))
    if rng.random() < 0.3: kw["bymonth"] = some(list(range(1, 13)))
    if rng.random() < 0.25: kw["bymonthday"] = some([1, 9, 10, 15, 28, 31, -1, -2, -9, -10, -31])
    if rng.random() < 0.15: kw["byyearday"] = some([1, 9, 10, 60, 99, 100, 366, -1, -9, -10, -99, -100, -366])
    if rng.random() < 0.15: kw["byweekno"] = some([1, 9, 10, 20, 53, -1, -9, -10, -53])
    if rng.random() < 0.35:
        # rrule.weekday accepts every n != 0; +-53 is the largest that can occur (YEARLY), larger ones never match
        # (ordinals that can never match make the iteration run dry: kept, but rare, and rarer for MONTHLY where |n| <= 5 matters)
        def nth():
            r = rng.random()
            if r < 0.08: return rng.choice([54, 100, -100, -366])
            if freq == 1 and r < 0.8: return rng.choice([1, 2, -1, -2, 5, -5])
            return rng.choice([1, 2, -1, -2, 5, -5, 9, -9, 10, -10, 11, -11, 12, 25, -25, 52, -52, 53, -53])
        kw["byweekday"] = [rng.choice([rng.randint(0, 6), R.weekdays[rng.randint(0, 6)],
                                       R.weekdays[rng.randint(0, 6)](nth()), R.weekdays[rng.randint(0, 6)](nth())]) for _ in range(rng.randint(1, 3))]
    if rng.random() < 0.1: kw["byeaster"] = some([0, 1, -2, 9, 10, 49, -49, 100, -100, 200])
    if rng.random() < 0.15: kw["bysetpos"] = some([1, 2, -1, 3, 9, 10, -10, 100, 366, -366])
    if rng.random() < 0.15: kw["byhour"] = some(list(range(24)))
    if rng.random() < 0.15: kw["byminute"] = some(list(range(60)))
    if rng.random() < 0.15: kw["bysecond"] = some(list(range(60)))
    if rng.random() < 0.08:
        # an EMPTY sequence for a BY argument (C01's space has them): recorded as () in _original_rule, printed as nothing
        kw[rng.choice(["bymonth", "bymonthday", "byyearday", "byweekno", "byweekday", "byeaster", "bysetpos", "byhour", "byminute", "bysecond"])] = rng.choice([(), []])
    r2 = rng.random()
    if r2 < 0.4:
        kw["count"] = rng.choice([0, 1, 2, 3, 4, 5, 6, 9, 10, 11, 100, 10 ** 25])
    elif r2 < 0.7:
        try:
            kw["until"] = ds + datetime.timedelta(days=rng.randint(0, 900), seconds=rng.randint(0, 86399))
        except OverflowError:
            pass
    return freq, ds, kw

def reset_lazy():
    """put dateutil.rrule's lazily imported module globals (`parser`, `easter`) back to their import-time value None, so
    that the next call runs as if it were the first use in the process (first-use / lazy-import paths)"""
    import dateutil.rrule as R
    for name in ("parser", "easter"):
        if getattr(R, name, None) is not None and type(getattr(R, name)).__name__ == "module":
            setattr(R, name, None)

def build(freq, ds, kw):
    from dateutil import rrule as R
    with warnings.catch_warnings():
        warnings.simplefilter("ignore")
        return limited(lambda: R.rrule(freq, dtstart=ds, **kw))

# ------------------------------------------------------------------ wire forms

def six(dt):
    return "-" if dt is None else "%d,%d,%d,%d,%d,%d" % (dt.year, dt.month, dt.day, dt.hour, dt.minute, dt.second)

def olist(v):
    return "-" if v is None else ilist(v)

def str_request(r, fwd=None):
    """the model's `__str__` inputs: the rule's attributes and `calendar.firstweekday()` as it is when str(r) is taken
    (call this next to the str(r) it is compared with, under the same ambient value)"""
    import calendar
    if fwd is None:
        fwd = calendar.firstweekday()
    o = r._original_rule
    wd = o.get("byweekday")
    wds = "-" if wd is None else "[" + ",".join("%d/%s" % (w.weekday, "-" if w.n is None else w.n) for w in wd) + "]"
    return "rrs.str %s %d %d %d %s %s %s %s %s %s %s %s %s %s %s %s %d" % (
        six(r._dtstart), r._freq, r._interval, r._wkst, "-" if r._count is None else r._count, six(r._until),
        olist(o.get("bysetpos")), olist(o.get("bymonth")), olist(o.get("bymonthday")), olist(o.get("byyearday")),
        olist(o.get("byeaster")), olist(o.get("byweekno")), wds, olist(o.get("byhour")), olist(o.get("byminute")), olist(o.get("bysecond")), fwd)

# every datetime that came out of a `parser.parse` call made by rrulestr, with the options that call was given
PO = {}            # id(result) -> (ignoretz, tzinfos-is-the-object-passed)
KW_DTSTART = datetime.datetime(1997, 9, 2, 9, 0)       # the object passed as dtstart= (recognised by identity)
TZINFOS = {"BRST": -10800}                             # the object passed as tzinfos=

def cdate(d):
    if d is None:
        return "-"
    if d is KW_DTSTART:
        return "kw"
    if not isinstance(d, datetime.datetime):
        return "o"
    po = PO.get(id(d))
    mark = "+tzid=" + hexs(d.tzinfo.looked_up) if isinstance(d.tzinfo, MarkTz) else ""
    return "c:%d,%d,%d,%d,%d,%d,%d%s%s" % (d.year, d.month, d.day, d.hour, d.minute, d.second, int(d.tzinfo is not None),
                                           "|?" if po is None else "|i%dt%d" % po, mark)

class MarkTz(datetime.tzinfo):
    """the zone the correspondence's `tzids` callable returns: it remembers the NAME it was looked up with"""
    def __init__(self, name):
        self.looked_up = name
    def utcoffset(self, dt): return datetime.timedelta(hours=1)
    def dst(self, dt): return datetime.timedelta(0)
    def tzname(self, dt): return "mark"

def mark_tz(name):
    return MarkTz(name)

def cargs(kw):
    def wl(v):
        if v is None: return "-"
        return "[" + ",".join("%d/%s" % (w.weekday, "-" if w.n is None else w.n) for w in v) + "]"
    g = kw.get
    return " ".join(["-" if g("freq") is None else str(g("freq")), "-" if g("interval") is None else str(g("interval")),
                     "-" if g("count") is None else str(g("count")), "-" if g("wkst") is None else str(g("wkst")),
                     cdate(g("until")), olist(g("bysetpos")), olist(g("bymonth")), olist(g("bymonthday")), olist(g("byyearday")),
                     olist(g("byeaster")), olist(g("byweekno")), wl(g("byweekday")), olist(g("byhour")), olist(g("byminute")), olist(g("bysecond"))])

def impl_parse(text, **opts):
    """run rrulestr with the rrule / rruleset constructor calls and every parser.parse call recorded (which options reached
    it); canonical dump in the model's format"""
    import dateutil.rrule as R
    import dateutil.parser as P
    calls = []
    po_reg, keep = {}, []
    # the classes refer to themselves by their global names (super(rrule, self)), so the names cannot be rebound:
    # wrap the methods instead
    saved = {}
    def wrap(cls, name, rec):
        orig = getattr(cls, name)
        saved[(cls, name)] = orig
        def f(self, *a, **kw):
            rec(a, kw)
            return orig(self, *a, **kw)
        setattr(cls, name, f)
    wrap(R.rrule, "__init__", lambda a, kw: calls.append(("rrule", dict(kw, **({"freq": a[0]} if a else {})))))
    wrap(R.rruleset, "__init__", lambda a, kw: calls.append(("set", dict(kw, **({"cache": a[0]} if a else {})))))
    wrap(R.rruleset, "rrule", lambda a, kw: calls.append(("add_rrule",)))
    wrap(R.rruleset, "exrule", lambda a, kw: calls.append(("add_exrule",)))
    wrap(R.rruleset, "rdate", lambda a, kw: calls.append(("rdate", a[0])))
    wrap(R.rruleset, "exdate", lambda a, kw: calls.append(("exdate", a[0])))
    # rrule.py calls `parser.parse(...)` through the module object (imported lazily on first use): patch the module
    # attribute and make this call a first use
    reset_lazy()
    orig_parse = P.parse
    def rec_parse(timestr, parserinfo=None, **kw):
        d = orig_parse(timestr, parserinfo, **kw)
        keep.append(d)
        po_reg[id(d)] = (int(bool(kw.get("ignoretz"))), int(kw.get("tzinfos") is not None and kw.get("tzinfos") is opts.get("tzinfos")))
        return d
    P.parse = rec_parse
    # _parse_date_value may replace the parsed value (TZID): the returned values inherit the options of their parse calls
    orig_pdv = R._rrulestr._parse_date_value
    def rec_pdv(self, *a, **kw):
        n0 = len(keep)
        out = orig_pdv(self, *a, **kw)
        for d, src in zip(out, keep[n0:n0 + len(out)]):
            if id(d) not in po_reg:
                keep.append(d); po_reg[id(d)] = po_reg[id(src)]
        return out
    R._rrulestr._parse_date_value = rec_pdv
    raised = None
    obj = None
    try:
        with warnings.catch_warnings():
            warnings.simplefilter("ignore")
            obj = limited(lambda: R.rrulestr(text, **opts), 2.0)
    except Timeout:
        raise
    except Exception as ex:
        k = exc_kind(ex)
        raised = "err " + ("ValueError" if k == "ParserError" else k)
    finally:
        P.parse = orig_parse
        R._rrulestr._parse_date_value = orig_pdv
        for (cls, name), orig in saved.items():
            setattr(cls, name, orig)
    if raised is not None:
        # the model stops at the keyword arguments: when the only recorded call is one rrule(...) that then rejected them,
        # the arguments it was handed are still compared
        if len(calls) == 1 and calls[0][0] == "rrule":
            return ("raised", raised, ("rule", calls[0][1], (po_reg, keep))), None
        return raised, None
    if calls and calls[0][0] == "set":
        rr, ex, rd, exd = [], [], [], []
        pending = None
        dtstart = None
        for c in calls[1:]:
            if c[0] == "rrule":
                pending = c[1]; dtstart = c[1].get("dtstart", dtstart)
            elif c[0] == "add_rrule": rr.append(pending)
            elif c[0] == "add_exrule": ex.append(pending)
            elif c[0] == "rdate": rd.append(c[1])
            elif c[0] == "exdate": exd.append(c[1])
        return ("set", rr, ex, rd, exd, calls[0][1], (po_reg, keep)), obj
    kw = calls[0][1]
    return ("rule", kw, (po_reg, keep)), obj

def cflag(kw):
    return "cache=%d" % int(bool(kw.get("cache")))

def canon_impl(res, model_line):
    """format the recorded implementation result like the model's dump, taking from the model line only what the
    implementation cannot show (which of the rdates is the `compatible` dtstart)"""
    if isinstance(res, str):
        return res
    if res[0] == "raised":
        return canon_impl(res[2], model_line)
    PO.clear(); PO.update(res[-1][0])       # the parser.parse calls recorded during this run (results kept alive in res[-1][1])
    if res[0] == "rule":
        kw = res[1]
        return "ok rule %s %s {%s}" % (cdate(kw.get("dtstart")), cflag(kw), cargs(kw))
    _, rr, ex, rd, exd, setkw, _reg = res
    dts = None
    for kw in rr + ex:
        if kw.get("dtstart") is not None:
            dts = kw["dtstart"]
    rdd = 0
    m = model_line.split(" ")
    if len(m) > 3 and m[1] == "set" and m[3] == "1" and rd:
        rdd = 1; dts = dts if dts is not None else rd[-1]; rd = rd[:-1]
    elif len(m) > 3 and m[1] == "set" and m[2] != "-" and not (rr + ex):
        dts = "model"        # a DTSTART with no rule to carry it: invisible on the implementation side
    # member rules are built without cache= (only the set itself gets it)
    member_cache = "" if not any(k.get("cache") for k in rr + ex) else " member-rules-cached"
    return "ok set %s %d %s rr=%s ex=%s rd=[%s] exd=[%s]%s" % (
        (m[2] if dts == "model" else cdate(dts)), rdd, cflag(setkw), "|".join("{%s}" % cargs(k) for k in rr), "|".join("{%s}" % cargs(k) for k in ex),
        ",".join(cdate(d) for d in rd), ",".join(cdate(d) for d in exd), member_cache)

# ------------------------------------------------------------------ spelling variants

SIGNED_LISTS = ("BYSETPOS", "BYMONTHDAY", "BYYEARDAY", "BYWEEKNO", "BYEASTER")
INT_PARTS = ("INTERVAL", "COUNT", "BYMONTH", "BYHOUR", "BYMINUTE", "BYSECOND") + SIGNED_LISTS

def numspell(rng, txt, plus_ok, level, underscore_ok=True):
    """another decimal spelling of the integer text `txt` that int() reads as the same number: an explicit '+' (where the
    RFC grammar has a sign, or anywhere at level 3), leading zeros; at level 3 (correspondence only) also the '_' digit
    separators that Python's int() accepts"""
    neg = txt.startswith("-")
    digits = txt.lstrip("+-")
    if not digits.isdigit():
        return txt
    r = rng.random()
    if r < 0.35:
        digits = "0" * rng.randint(1, 2) + digits
    elif level >= 3 and underscore_ok and r < 0.5 and len(digits) >= 2:
        k = rng.randint(1, len(digits) - 1)
        digits = digits[:k] + "_" + digits[k:]
    sign = "-" if neg else ("+" if (plus_ok or level >= 3) and rng.random() < 0.4 else "")
    return sign + digits

def spell(rng, text, level):
    """a different RFC spelling of the same rule text produced by str(rule)"""
    lines = text.split("\n")
    out = []
    for l in lines:
        if l.startswith("RRULE:"):
            parts = l[6:].split(";")
            rng.shuffle(parts)
            np_ = []
            for p in parts:
                k, v = p.split("=")
                if k == "BYDAY":
                    if rng.random() < 0.5: k = "BYWEEKDAY"
                    items = []
                    for it in v.split(","):
                        wd = it[-2:]; n = it[:-2]
                        form = rng.randint(0, 3)
                        if n and form == 1: it = "%s(%s)" % (wd, n)
                        elif n and form == 2: it = "%d%s" % (int(n), wd)        # drop the '+'
                        elif n and form == 3:                                   # other decimal spellings of n, both syntaxes
                            if rng.random() < 0.5: it = "%s(%s)" % (wd, numspell(rng, n, True, level))
                            else: it = numspell(rng, n, True, level, underscore_ok=False) + wd
                        items.append(it)
                    v = ",".join(items)
                elif k in INT_PARTS and rng.random() < 0.5:
                    v = ",".join(numspell(rng, x, k in SIGNED_LISTS, level) for x in v.split(","))
                if level > 1 and rng.random() < 0.5: k = k.lower()
                if level > 1 and rng.random() < 0.3: v = v.lower()
                np_.append(k + "=" + v)
            l = ("RRULE:" if rng.random() < 0.8 or len(lines) > 1 else "") + ";".join(np_)
            if level > 1 and rng.random() < 0.3: l = l.replace("RRULE:", "rrule:")
        out.append(l)
    return "\n".join(out)

def rcase(rng, w):
    return "".join(c.lower() if rng.random() < 0.5 else c.upper() for c in w)

def spell_date_lines(rng, text, tzid=None, level=2):
    """RFC spellings of the DTSTART / EXDATE / RDATE lines: letter case of the property and parameter names, an optional
    VALUE=DATE-TIME parameter before or after TZID, TZID names in mixed case (kept as written); with tzid=None only
    meaning-preserving changes are made"""
    out = []
    for l in text.split("\n"):
        head_, sep, val = l.partition(":")
        name = head_.split(";")[0].upper()
        if sep and name in ("DTSTART", "EXDATE", "RDATE") and ";" not in head_:
            parms = []
            if tzid and name != "RDATE":
                parms.append((rcase(rng, "TZID") if level > 1 else "TZID") + "=" + tzid)
            if rng.random() < 0.4:
                parms.insert(rng.randint(0, len(parms)), (rcase(rng, "VALUE") if level > 1 else "VALUE") + "=" + (rcase(rng, "DATE-TIME") if level > 1 else "DATE-TIME"))
            l = (rcase(rng, name) if level > 1 else name) + "".join(";" + p for p in parms) + ":" + (val.lower() if level > 1 and rng.random() < 0.3 else val)
        out.append(l)
    return "\n".join(out)

def fold(rng, text, exotic=False):
    """RFC 5545 line folding of a text whose logical lines are separated by \n: 0-4 folds per logical line (so several
    CONSECUTIVE continuation lines), folds right after ; , = : and inside values, continuation lines of a single
    character, \n / \r\n / mixed line breaks, blank and whitespace-only lines between logical lines and at the end.
    The result unfolds to the same logical lines (rstrip before the test; a continuation extends the last KEPT line).
    exotic=True (correspondence only: the meaning may change, the model must still agree) adds bare \r breaks, blank lines
    between a line and its continuation, trailing blanks on physical lines, a first line that begins with a space,
    tab-started lines and empty first pieces."""
    style = rng.choice(["\n", "\r\n", "mixed", "mixed"] + (["\r"] if exotic else []))
    def brk():
        return rng.choice(["\n", "\r\n"] + (["\r"] if exotic else [])) if style == "mixed" else style
    out = []
    logical = [l.rstrip("\r") for l in text.split("\n")]
    for li, l in enumerate(logical):
        nf = rng.choice([0, 1, 1, 2, 2, 3, 3, 4]) if len(l) > 1 else 0
        cuts = set()
        seps = [i + 1 for i, c in enumerate(l) if c in ";,=:" and i + 1 < len(l)]
        for _ in range(nf):
            r = rng.random()
            if seps and r < 0.4:
                cuts.add(rng.choice(seps))                  # right after a separator
            elif r < 0.55:
                cuts.add(len(l) - 1)                        # the last continuation line is one character
            elif r < 0.7 and len(l) > 2:
                k = rng.randint(1, len(l) - 2); cuts.update([k, k + 1])    # a one-character continuation in the middle
            else:
                cuts.add(rng.randint(1, len(l) - 1))        # anywhere, inside names and values
        if exotic and rng.random() < 0.05:
            cuts.add(0)                                     # empty first piece
        pieces, prev = [], 0
        for k in sorted(cuts):
            pieces.append(l[prev:k]); prev = k
        pieces.append(l[prev:])
        phys = pieces[0]
        for pc in pieces[1:]:
            if exotic and rng.random() < 0.1:
                phys += rng.choice([" ", "\t", "  "])      # trailing blanks stay inside the unfolded line
            phys += brk()
            if exotic and rng.random() < 0.1:
                phys += rng.choice(["", " ", "\t"]) + brk()  # blank line between a line and its continuation
            phys += " " + pc
        out.append(phys)
        if li + 1 < len(logical):
            out.append(brk())
            if rng.random() < 0.15:
                out.append(rng.choice(["", " ", "  ", "\t"]) + brk())     # blank / whitespace-only line between logical lines
    res = "".join(out) + rng.choice(["", "", brk(), brk() + brk(), brk() + " " + brk(), brk() + "\t" + brk() + brk()])
    if exotic:
        r = rng.random()
        if r < 0.06: res = " " + res                       # the first line begins with a space: not a continuation
        elif r < 0.10: res = brk() + " " + res.lstrip()    # … also after a leading blank line
        elif r < 0.14: res = res.replace(brk() + " ", brk() + "\t", 1)    # a tab does not continue a line
    return res

MALFORMED = ["FREQ=DAILY;FOO=1", "FREQ=DAILY;INTERVAL=x", "FREQ=NEVER", "FREQ=DAILY;BYDAY=XX", "FREQ=DAILY;BYDAY=", "FREQ=DAILY;BYDAY=1", "FREQ=DAILY;WKST=8",
             "FREQ=DAILY;BYMONTH=1,,2", "FREQ=DAILY;COUNT", "FREQ=DAILY;COUNT=1=2", "FREQ=DAILY;;COUNT=2", "X:FREQ=DAILY", "RRULE:FREQ=DAILY:COUNT=2",
             "FREQ=DAILY;UNTIL=notadate", "FREQ=DAILY;BYDAY=MO(1", "FREQ=DAILY;BYDAY=MO(x)", "FREQ=DAILY;BYSETPOS=1.5", "INTERVAL=2", "COUNT=3;BYDAY=MO",
             "", "   ", "DTSTART:19970902T090000", "FOO:BAR\nRRULE:FREQ=DAILY", "RRULE;X=1:FREQ=DAILY\nRRULE:FREQ=DAILY", "DTSTART;FOO=1:19970902T090000\nRRULE:FREQ=DAILY",
             "DTSTART:19970902T090000,19970903T090000\nRRULE:FREQ=DAILY", "RDATE;VALUE=DATE:19970902\nRRULE:FREQ=DAILY", "EXRULE;X=1:FREQ=DAILY\nRRULE:FREQ=DAILY",
             "FREQ=DAILY;INT=2", "FREQ=DAILY;INT_LIST=2", "FREQ=DAILY;FREQ", "FREQ=DAILY;BYEASTER=a", "FREQ=DAILY;BYHOUR=1;BYHOUR=x"]

def zify(text, which=("UNTIL", "DTSTART", "RDATE", "EXDATE")):
    """the same text with a Z (UTC) suffix on the compact date values"""
    import re
    out = []
    for l in text.split("\n"):
        if "UNTIL" in which:
            l = re.sub(r"(UNTIL=\d{8}T\d{6})(?!Z)", r"\1Z", l)
        for name in ("DTSTART", "RDATE", "EXDATE"):
            if name in which and l.startswith(name + ":"):
                l = name + ":" + ",".join(v if v.endswith("Z") else v + "Z" for v in l[len(name) + 1:].split(","))
        out.append(l)
    return "\n".join(out)

def path_variants(rng, s):
    """str(rule) re-expressed so that it goes through each code path of _parse_rfc (single-line fast path: bare value and
    RRULE: line with dtstart=; several lines, one rule; the set path by forceset / RDATE / EXDATE / EXRULE / a second RRULE),
    with Z spellings and a random choice of the pass-through options"""
    lines = s.split("\n")
    rline = [l for l in lines if l.startswith("RRULE:")][0]
    dline = [l for l in lines if l.startswith("DTSTART:")]
    def optset(extra):
        o = dict(extra)
        if rng.random() < 0.5: o["ignoretz"] = True
        if rng.random() < 0.3: o["tzinfos"] = TZINFOS
        if rng.random() < 0.4: o["cache"] = True
        return o
    z = (lambda t: zify(t)) if rng.random() < 0.7 else (lambda t: t)
    out = [(z(rline[6:]), optset({"dtstart": KW_DTSTART})),
           (z(rline), optset({"dtstart": KW_DTSTART})),
           (z(rline), optset({}))]
    if dline:
        both = dline[0] + "\n" + rline
        out += [(z(both), optset({})), (z(both), optset({"forceset": True})), (z(both), optset({"dtstart": KW_DTSTART})),
                (z(both + "\nRDATE:19970910T090000,19970911T090000"), optset({})),
                (z(both + "\nEXDATE:19970903T090000"), optset({})),
                (z(both + "\nEXRULE:FREQ=WEEKLY;COUNT=2;UNTIL=19971224T000000"), optset({})),
                (z(rline + "\nRRULE:FREQ=YEARLY;COUNT=2"), optset({"dtstart": KW_DTSTART})),
                (z(both), optset({"compatible": True})),
                (fold(rng, z(rline), rng.random() < 0.4), optset({"unfold": True, "dtstart": KW_DTSTART})),
                (fold(rng, z(both), rng.random() < 0.4), optset({"unfold": True})),
                (fold(rng, z(both), rng.random() < 0.4), optset({"compatible": True})),
                (fold(rng, z(both + "\nRDATE:19970910T090000,19970911T090000\nEXDATE:19970903T090000"), rng.random() < 0.4), optset({"unfold": True})),
                (fold(rng, z(rline[6:]), rng.random() < 0.4), optset({"unfold": True, "dtstart": KW_DTSTART}))]
    return out

# ------------------------------------------------------------------ correspondence

# ------------------------------------------------------------------ the source translation (Generated/RRuleStrKernels.lean)

def gen_correspondence(ctx, rules, rng):
    """the definitions translated from `_parse_rfc` (prefix: compatible switch, TZID pre-scan, upper, empty check, unfold loop /
    split) and `_parse_date_value` (parameter loop, zone attach) are run in the driver and compared with the VERY STATEMENTS
    they were translated from, executed by the interpreter (compiled from the same AST nodes of the working tree)"""
    import ast, os, re, sys
    import vlib, translate_str as TS
    import dateutil.tz as TZ
    loc = TS.locate(os.path.join(vlib.REPO, "src", "dateutil"))
    def frag(stmts):
        return compile(ast.fix_missing_locations(ast.Module(body=list(stmts), type_ignores=[])), "<rrule.py statements>", "exec")
    c_prefix, c_parms, c_attach = frag(loc["prefix"]), frag(loc["parms"]), frag(loc["attach"])
    def base_ns():
        return {"re": re, "parser": sys.modules.get("dateutil.parser") or __import__("dateutil.parser"), "__package__": "dateutil", "__name__": "dateutil.rrule",
                "self": None}
    # 1. prefix
    texts = []
    for r, s_, _ in rules[:ctx.budget(150, 1500)]:
        t = s_ + rng.choice(["", "", "\nEXDATE:19970903T090000", "\nRDATE:19970910T090000"])
        if rng.random() < 0.6:
            t = spell_date_lines(rng, t, tzid=rng.choice(["Foo/Bar", "America/New_York", "x", "a b", "Eastern Standard Time", "Z=1", "tzid=inner", "Foo/BAR"]))
        if rng.random() < 0.7:
            t = fold(rng, t, rng.random() < 0.5)
        if rng.random() < 0.3:
            k = rng.randint(0, len(t))
            t = t[:k] + rng.choice([" ", "\n ", "\r\n ", "\r ", "\t", "TZID=", "tzid=q;", ":", ";", "\n", "\x0b", "\x0c", "\x1c", "\x1d", "\x1e", "\x1f", " \n  "]) + t[k:]
        texts.append(t)
    alpha = " \t\r\n\n  ;:=TZIDtzidaB\x0b\x1c"
    for _ in range(ctx.budget(150, 1500)):
        texts.append("".join(rng.choice(alpha) for _ in range(rng.randint(0, 24))))
    texts += ["", " ", "\n", " \n x", "\n x", "a\n \n b", "a\n b\n  c \n d", "TZID=a:TZID=B;tzid=A:", "x;TZID=:y", "TZID=a", "TZID=a\n b:c", "TZID=a\r\n b:c", "TZID=a\r b:c"]
    reqs, exp = [], []
    for t in texts:
        for flags in rng.sample([(0, 0, 0), (1, 0, 0), (0, 1, 0), (0, 0, 1), (1, 1, 0)], 2):
            ns = base_ns(); ns.update(s=t, unfold=bool(flags[0]), forceset=bool(flags[1]), compatible=bool(flags[2]))
            try:
                exec(c_prefix, ns)
                e = ("ok", bool(ns["forceset"]), bool(ns["unfold"]), dict(ns["TZID_NAMES"]), ns["s"], list(ns["lines"]))
            except Exception as ex:
                e = "err " + exc_kind(ex)
            reqs.append("rrsgen.prefix %d%d%d %s" % (flags + (hexs(t),))); exp.append(e)
    def unhex(h):
        return "" if h == "." else bytes.fromhex(h).decode()
    def parse_prefix(g):
        if not g.startswith("ok "):
            return g
        f = g.split(" ")
        names = {}
        for pair in ([] if f[3] == "[]" else f[3][1:-1].split(",")):
            k, v = pair.split(":"); names[unhex(k)] = unhex(v)          # a later pair overwrites an earlier one, like dict()
        lines = [] if f[5] == "[]" else [unhex(x) for x in f[5][1:-1].split(",")]
        return ("ok", f[1] == "1", f[2] == "1", names, unhex(f[4]), lines)
    got = ctx.driver(reqs)
    for q, e, g in zip(reqs, exp, got):
        if parse_prefix(g) != e:
            ctx.mismatch("rrsgen.prefix (translated _parse_rfc prefix vs the statements themselves)", q, e, g)
    ctx.traces += len(reqs); ctx.count("gen_prefix_cases", len(reqs))
    # 2. the parameter loop
    class Mark(datetime.tzinfo):
        def __init__(self, how, name): self.how, self.name = how, name
        def utcoffset(self, dt): return datetime.timedelta(hours=1)
        def dst(self, dt): return datetime.timedelta(0)
        def tzname(self, dt): return "mark"
    class Mapping(object):
        def get(self, k, default=None): return Mark("m", k)
    pool = ["TZID=X", "TZID=Y", "TZID=NOPE", "VALUE=DATE-TIME", "VALUE=DATE", "FOO=1", "TZID=", "TZID=ATZID=X", "XTZID=Y", "TZID=X;", "tzid=X", "", "VALUE=DATE-TIME "]
    reqs, exp = [], []
    saved = TZ.gettz
    try:
        TZ.gettz = lambda name=None: Mark("g", name)
        for _ in range(ctx.budget(300, 3000)):
            parms = [rng.choice(pool) for _ in range(rng.randint(0, 4))]
            table = {k: rng.choice(["X", "x", "Foo/Bar", "a b"]) for k in rng.sample(["X", "Y", "", "ATZID=X", "X;"], rng.randint(0, 3))}
            kind = rng.choice(["none", "callable", "mapping", "other"])
            tzids = {"none": None, "callable": (lambda n: Mark("c", n)), "mapping": Mapping(), "other": object()}[kind]
            ns = base_ns(); ns.update(parms=parms, rule_tzids=table, tzids=tzids, date_value="", ignoretz=False, tzinfos=None)
            try:
                exec(c_parms, ns)
                z = ns["TZID"]
                e = "ok %s %d" % ("-" if z is None else "l" + z.how + hexs(z.name), int(bool(ns["value_found"])))
            except Exception as ex:
                e = "err " + exc_kind(ex)
            reqs.append("rrsgen.parms %s [%s] [%s]" % (kind, ",".join(hexs(k) + ":" + hexs(v) for k, v in table.items()), ",".join(hexs(x) for x in parms)))
            exp.append(e)
            # the WHOLE method on the same parameters and one to three compact date values (some with Z): the real _parse_date_value
            import dateutil.rrule as RR
            vals = [rng.choice(["19970902T090000", "19970903T090000Z", "00010101T000000", "20240229T235959"]) for _ in range(rng.randint(1, 3))]
            value = ",".join(vals)
            try:
                res = RR.rrulestr._parse_date_value(value, parms, table, False, tzids, None)
                def zmark(z):
                    if z is None: return "-"
                    if isinstance(z, Mark): return "l" + z.how + hexs(z.name)
                    return "t"
                e2 = "ok [" + ",".join(hexs(v_) + "/" + zmark(d.tzinfo) for v_, d in zip(vals, res)) + "]"
                if len(res) != len(vals) or any(d.replace(tzinfo=None) != datetime.datetime.strptime(v_.rstrip("Z"), "%Y%m%dT%H%M%S") for v_, d in zip(vals, res)):
                    e2 = "ok wrong datetimes " + repr(res)
            except Exception as ex:
                e2 = "err " + exc_kind(ex)
            reqs.append("rrsgen.datevalue %s [%s] [%s] %s" % (kind, ",".join(hexs(k) + ":" + hexs(v) for k, v in table.items()), ",".join(hexs(x) for x in parms), hexs(value)))
            exp.append(e2)
    finally:
        TZ.gettz = saved
    got = ctx.driver(reqs)
    for q, e, g in zip(reqs, exp, got):
        if e != g:
            ctx.mismatch("rrsgen.parms / rrsgen.datevalue (translated _parse_date_value vs the statements / the method itself)", q, e, g)
    ctx.traces += len(reqs); ctx.count("gen_parms_cases", len(reqs))
    # 2b. the line dispatch loop of _parse_rfc: the `for line in lines:` statement itself, with _parse_date_value stubbed to return one
    #     record per ,-separated value after the real parameter check
    if loc.get("dispatch") is not None:
        import dateutil.rrule as RR
        c_disp = frag([loc["dispatch"]])
        class Stub(object):
            def _parse_date_value(self, value, parms, names, ignoretz, tzids, tzinfos):
                RR.rrulestr._parse_date_value("19970902T090000", parms, {}, False, lambda n: None, None)       # the parameter check (ValueError)
                return [(v, tuple(parms)) for v in value.split(",")]
        extra = ["RDATE:19970910T090000,19970911T090000", "EXDATE:19970902T090000", "EXRULE:FREQ=WEEKLY;COUNT=2", "RRULE:FREQ=YEARLY", "RDATE;VALUE=DATE-TIME:1",
                 "RDATE;VALUE=DATE:1", "EXDATE;VALUE=DATE;TZID=X:1,2", "EXDATE;FOO=1:1", "DTSTART;VALUE=DATE-TIME;VALUE=DATE:1", "DTSTART:1,2", "DTSTART;TZID=A;TZID=B:1",
                 "FOO:1", "RRULE;X=1:FREQ=DAILY", "EXRULE;X:1", ";:", ":", "", "A", "RRULE", "DTSTART", "X;Y", "DTSTART:", ";RRULE:1", "RRULE:A:B", "EXDATE;:1"]
        reqs, exp = [], []
        for i in range(ctx.budget(200, 2000)):
            r_, s_, _ = rules[i % len(rules)] if rules else (None, "", None)
            lines = s_.upper().split("\n") + rng.sample(extra, rng.randint(0, 3))
            rng.shuffle(lines)
            if rng.random() < 0.3 and lines:
                k = rng.randrange(len(lines)); j = rng.randint(0, len(lines[k]))
                lines[k] = lines[k][:j] + rng.choice(list(";:,=") + ["TZID=Q;", "VALUE=DATE;"]) + lines[k][j:]
            if any(("," in l or "[" in l or "]" in l or not all(ord(c) < 128 for c in l)) and False for l in lines):
                continue
            ns = base_ns(); ns.update(lines=list(lines), rrulevals=[], rdatevals=[], exrulevals=[], exdatevals=[], dtstart=None, self=Stub(),
                                      TZID_NAMES={}, ignoretz=False, tzids=None, tzinfos=None)
            def hl(xs): return "[" + ",".join(hexs(x) for x in xs) + "]"
            def dv(d): return hexs(d[0]) + "|" + hexs(";".join(d[1]))
            try:
                exec(c_disp, ns)
                e = "ok %s %s %s [%s] %s" % (hl(ns["rrulevals"]), hl(ns["rdatevals"]), hl(ns["exrulevals"]), ",".join(dv(d) for d in ns["exdatevals"]),
                                             "-" if ns["dtstart"] is None else hexs(",".join(v for v, _ in [ns["dtstart"]])) + "|" + hexs(";".join(ns["dtstart"][1])))
            except Exception as ex:
                e = "err " + exc_kind(ex)
            reqs.append("rrsgen.dispatch %s" % hl(lines)); exp.append(e)
        for q, e, g in zip(reqs, exp, ctx.driver(reqs)):
            if e != g:
                ctx.mismatch("rrsgen.dispatch (translated line dispatch loop of _parse_rfc vs the statement itself)", q, e, g)
        ctx.traces += len(reqs); ctx.count("gen_dispatch_cases", len(reqs))
    # 3. attaching the zone: all nine combinations
    zones = {"-": None, "t": datetime.timezone.utc, "lc" + hexs("X"): datetime.timezone(datetime.timedelta(hours=1), "X")}
    back = {id(v): k for k, v in zones.items()}
    reqs, exp = [], []
    for a, za in zones.items():
        for b, zb in zones.items():
            ns = base_ns(); ns.update(TZID=za, date=datetime.datetime(1997, 9, 2, 9, 0, tzinfo=zb))
            try:
                exec(c_attach, ns)
                e = "ok " + back[id(ns["date"].tzinfo)]
            except Exception as ex:
                e = "err " + exc_kind(ex)
            reqs.append("rrsgen.attach %s %s" % (a, b)); exp.append(e)
    got = ctx.driver(reqs)
    for q, e, g in zip(reqs, exp, got):
        if e != g:
            ctx.mismatch("rrsgen.attach (translated zone attach statement vs the statement itself)", q, e, g)
    ctx.traces += len(reqs)

def correspondence(ctx):
    import time as _time
    t0 = _time.time()
    try:
        _correspondence(ctx)
    finally:
        ctx.count("seconds_correspondence", int(round(_time.time() - t0)))

def _correspondence(ctx):
    basecorr.run(ctx)
    rng = ctx.subrng("corr")
    n = ctx.budget(500, 10000)
    rules, texts = [], []
    reqs, exp = [], []
    for _ in range(n):
        freq, ds, kw = gen_kwargs(rng)
        try:
            r = build(freq, ds, kw)
        except (ValueError, Timeout):
            ctx.count("ctor_rejected"); continue
        s = str(r)
        rules.append((r, s, (freq, ds, kw)))
        reqs.append(str_request(r)); exp.append("ok " + hexs(s))
    got = ctx.driver(reqs)
    # the same requests answered by the SOURCE TRANSLATION of rrule.__str__ (Gen.rruleStr), against str(rule) itself
    for q, e, g in zip(reqs, exp, ctx.driver([q.replace("rrs.str ", "rrsgen.str ", 1) for q in reqs])):
        if e != g:
            ctx.mismatch("rrsgen.str (translated rrule.__str__ vs str(rule))", q, e, g)
    ctx.traces += len(reqs)
    ctx.c13_str_mismatch_rules = []
    for q, e, g, rl in zip(reqs, exp, got, rules):
        if e != g:
            ctx.c13_str_mismatch_rules.append({"rule": rl[2]})
            ctx.mismatch("rrs.str", q, bytes.fromhex(e[3:]).decode() if e[3:] != "." else "", bytes.fromhex(g[3:]).decode() if g.startswith("ok ") and g[3:] != "." else g)
    ctx.traces += len(reqs)
    gen_correspondence(ctx, rules, ctx.subrng("corr-gen"))
    # the same two ops under an ambient first weekday (the model's str/parse do not depend on it; _wkst does)
    import calendar
    saved_fwd = calendar.firstweekday()
    try:
        areqs, aexp, aparse = [], [], []
        for i in range(ctx.budget(40, 600)):
            k = 1 + i % 6
            calendar.setfirstweekday(k)
            freq, ds, kw = week_sensitive_kwargs(rng)
            try:
                r = build(freq, ds, kw)
            except (ValueError, Timeout):
                continue
            s_ = str(r)
            areqs.append(str_request(r)); aexp.append("ok " + hexs(s_))
            try:
                res, _ = impl_parse(s_)
            except Timeout:
                continue
            aparse.append(("rrs.parse 0000000 %s" % hexs(s_), res, k))
        got = ctx.driver(areqs)
        for q, e, g in zip(areqs, aexp, got):
            if e != g:
                ctx.mismatch("rrs.str (ambient first weekday)", q, e, g)
        for q, e, g in zip(areqs, aexp, ctx.driver([q.replace("rrs.str ", "rrsgen.str ", 1) for q in areqs])):
            if e != g:
                ctx.mismatch("rrsgen.str (translated rrule.__str__, ambient first weekday)", q, e, g)
        got = ctx.driver([q for q, _, _ in aparse])
        for (q, res, k), g in zip(aparse, got):
            if canon_impl(res, g) != g:
                ctx.mismatch("rrs.parse (ambient first weekday %d)" % k, q, canon_impl(res, g), g)
        ctx.traces += len(areqs) + len(aparse); ctx.count("ambient_correspondence", len(areqs))
    finally:
        calendar.setfirstweekday(saved_fwd)
    # parse side: str() outputs, spellings, folded, sets, malformed, mutated
    cases = []
    for r, s, _ in rules:
        cases.append((s, {}))
        v = spell(rng, s, 3)
        cases.append((v, {}))
        if rng.random() < 0.5:
            cases.append((fold(rng, v, rng.random() < 0.5), {"unfold": True}))
        if rng.random() < 0.15:
            cases.append((fold(rng, s, rng.random() < 0.5), {"compatible": True}))
        if rng.random() < 0.2:
            cases.append((s, {"forceset": True}))
        if rng.random() < 0.2:
            cases.append((s, {"compatible": True}))
        if rng.random() < 0.25:
            extra = rng.choice(["RDATE:19970910T090000,19970911T090000", "EXDATE:19970902T090000", "EXRULE:FREQ=WEEKLY;COUNT=2", "RRULE:FREQ=YEARLY;COUNT=2",
                                "RDATE;VALUE=DATE-TIME:19970910T090000", "EXDATE;VALUE=DATE-TIME:19970902T090000Z"])
            cases.append((s + "\n" + extra, rng.choice([{}, {"unfold": True}, {"compatible": True}])))
        if rng.random() < 0.3:
            # single edits
            k = rng.randint(0, len(s))
            cases.append((s[:k] + rng.choice(list(";=,:+-0123456789 \nMOXZ(") + ["BYDAY=", "FREQ="]) + s[k + rng.randint(0, 1):], {}))
    # single RRULE lines (the fast path hands them to _parse_rfc_rrule unchanged): as printed, without the RRULE: prefix, respelled, edited
    for r, s, _ in rules:
        ln = s.split("\n")[-1]
        cases.append((rng.choice([ln, ln[6:]]), {}))
        v = spell(rng, ln, 3)
        if len(v.split()) == 1:
            cases.append((v, {}))
        if rng.random() < 0.3:
            k = rng.randint(0, len(ln))
            cases.append((ln[:k] + rng.choice(list(";=,:+-0(MO") + ["BYDAY=", "=", ";;"]) + ln[k + rng.randint(0, 1):], {}))
    # BYDAY / BYWEEKDAY items at the edges of the splitter (both syntaxes, signs, zero, missing pieces)
    for item in ["MO(", "(1)", "1", "+", "+-1MO", "MO(+1", "1MO(2)", "", "MO()", "12", "-0TU", "TU(0)", "TU(+0)", "+0TU", "mo(1)", "1mo", "MO(1)(2)",
                 "MO(1))", "5", "-", "+1", "SU(-53)", "53SU", "1_0MO", "MO( 1 )", " 1MO", "1 MO", "XX(1)", "(", "()", "1(MO)", "MOTU", "+1+1MO"]:
        cases.append(("FREQ=DAILY;%s=%s" % (rng.choice(["BYDAY", "BYWEEKDAY", "byday"]), item), {}))
        cases.append(("FREQ=DAILY;BYDAY=TU,%s,WE" % item, {}))
    # DTSTART / EXDATE lines with TZID parameters in every spelling (the name table, case, parameter order, folding)
    for r, s, _ in rules:
        if rng.random() < 0.5:
            name = rng.choice(["Foo/Bar", "America/New_York", "x", "UTC", "a b", "Z=1", "tzid=inner"])
            t = s + rng.choice(["", "\nEXDATE:19970903T090000", "\nEXDATE:19970903T090000,19970904T090000\nRDATE:19970910T090000"])
            t = spell_date_lines(rng, t, tzid=name)
            o = rng.choice([{}, {"forceset": True}, {"unfold": True}, {"compatible": True}])
            if "unfold" in o or "compatible" in o:
                t = fold(rng, t, rng.random() < 0.3)
            if " " in name and not ("unfold" in o or "compatible" in o):
                continue
            cases.append((t, o))
            if rng.random() < 0.3:
                # a second, different TZID in the same text / an empty name / a parameter after TZID
                cases.append((t.replace(":", ";X=1:", 1) if rng.random() < 0.5 else t + "\nEXDATE;TZID=Other/Zone:19970905T090000", o))
    # the same rule through every code path of _parse_rfc, with the pass-through options and Z spellings
    for r, s, _ in rules:
        if rng.random() < 0.7:
            cases += rng.sample(path_variants(rng, s), 2)
    cases += [(m, {}) for m in MALFORMED] + [(m, {"forceset": True}) for m in MALFORMED[:12]] + [(m, {"unfold": True}) for m in MALFORMED[:12]]
    reqs, impl, gen_line = [], [], []
    for text, opts in cases:
        if not all(ord(c) < 128 for c in text):
            continue
        opts = dict(opts, tzids=mark_tz)              # every name that reaches the tzids lookup comes back as a marked zone
        flags = "%d%d%d%d%d%d%d" % (int(opts.get("unfold", False)), int(opts.get("forceset", False)), int(opts.get("compatible", False)),
                                    int("dtstart" in opts), int(bool(opts.get("ignoretz"))), int(opts.get("tzinfos") is not None), int(bool(opts.get("cache"))))
        try:
            res, _ = impl_parse(text, **opts)
        except Timeout:
            ctx.count("impl_timeout"); continue
        reqs.append("rrs.parse %s %s" % (flags, hexs(text))); impl.append(res)
        if flags == "0000000" and len(text.split()) == 1 and text.strip() == text and (":" not in text or text.upper().startswith("RRULE:")):
            gen_line.append(("rrsgen.line %s" % hexs(text.upper()), res))      # the single-line fast path IS _parse_rfc_rrule(lines[0])
    # the source translation of _parse_rfc_rrule / the _handle_* dispatch against the recorded constructor call
    for (q, res), g in zip(gen_line, ctx.driver([q for q, _ in gen_line])):
        if isinstance(res, tuple):
            continue
        if isinstance(res, str) and res.startswith("err"):
            if g.startswith("ok") and res == "err ValueError":
                continue                      # rejected downstream of the translated function (rrule(**kwargs), parser.parse)
            if g != res.replace("err ParserError", "err ValueError"):
                ctx.mismatch("rrsgen.line (translated _parse_rfc_rrule)", q, res, g)
            continue
        if " o" in g or "[o" in g or ",o" in g or "o+" in g:
            continue
        if canon_impl(res, g) != g:
            ctx.mismatch("rrsgen.line (translated _parse_rfc_rrule)", q, canon_impl(res, g), g)
    ctx.traces += len(gen_line); ctx.count("gen_rule_line_cases", len(gen_line))
    got = ctx.driver(reqs)
    # the translated __call__ (a pure delegation) must answer every request exactly like the model of _parse_rfc it delegates to
    for q, g, g2 in zip(reqs, got, ctx.driver([q.replace("rrs.parse ", "rrsgen.call ", 1) for q in reqs])):
        if g != g2:
            ctx.mismatch("rrsgen.call (translated _rrulestr.__call__)", q, g, g2)
    for q, res, g in zip(reqs, impl, got):
        e = canon_impl(res, g)
        g2 = g
        if isinstance(res, tuple) and res[0] == "raised":
            # rrule(**kwargs) rejected the arguments (C01's domain), but which arguments and options reached it is still compared
            if res[1] != "err ValueError":
                ctx.mismatch("rrs.parse", q, res[1] + " raised by rrule(**kwargs): only ValueError may leave rrulestr", g)
            elif g.startswith("ok") and not (" o" in g or "[o" in g or ",o" in g or "o+" in g) and e != g:
                ctx.mismatch("rrs.parse", q, e + "   (then rrule() raised: " + res[1] + ")", g)
            else:
                ctx.count("rejected_downstream_of_the_model")
            continue
        if isinstance(res, str) and res.startswith("err") and g.startswith("ok"):
            # the model stops at the kwargs: rrule(**kwargs) / parser.parse(date) may still reject them (C01 / C02 domain) -
            # but only with a ValueError (ParserError is one); any other kind is a disagreement with errors_are_ValueError
            if res != "err ValueError":
                ctx.mismatch("rrs.parse", q, res + " (the model accepts; downstream rejections must be ValueError)", g); continue
            ctx.count("rejected_downstream_of_the_model"); continue
        if g.startswith("err IndexError") and e.startswith("err"):
            pass
        # UNTIL / date values in non-compact spellings are 'o' in the model and unknown on the implementation side: compare shapes only
        if " o" in g or "[o" in g or ",o" in g or "o+" in g:
            ctx.count("non_compact_date_value"); continue
        if e.replace("err ParserError", "err ValueError") != g2:
            ctx.mismatch("rrs.parse", q, e, g)
    ctx.traces += len(reqs)
    ctx.count("parse_cases", len(reqs))

# ------------------------------------------------------------------ oracle

def same_occurrences(a, b, n=12):
    return head(iter(a), n) == head(iter(b), n)

def oracle_sets(ctx):
    from dateutil import rrule as R
    rng = ctx.subrng("oracle-sets")
    # (4) multi-line inputs build the corresponding set; forceset; compatible
    for i in range(ctx.budget(120, 3000)):
        if ctx.escalated and ctx.unknown_violations() >= 5:
            break
        ds = datetime.datetime(rng.choice([1997, 2000, 2024]), rng.randint(1, 12), rng.randint(1, 28), 9, 0, 0)
        stamp = ds.strftime("%Y%m%dT%H%M%S")
        r1 = "FREQ=DAILY;COUNT=%d" % rng.randint(1, 6)
        if rng.random() < 0.5:
            r1 += ";BYHOUR=10"      # the start (09:00) is then not an occurrence of the rule: `compatible` must add it
        r2 = "FREQ=WEEKLY;COUNT=%d;BYDAY=%s" % (rng.randint(1, 4), rng.choice(WDN))
        rd = [ds + datetime.timedelta(days=rng.randint(0, 20), hours=rng.choice([0, 0, 3])) for _ in range(rng.randint(0, 3))]
        exd = [ds + datetime.timedelta(days=rng.randint(0, 6)) for _ in range(rng.randint(0, 2))]
        use_ex = rng.random() < 0.5
        use_r2 = rng.random() < 0.5
        lines = ["DTSTART:" + stamp, "RRULE:" + r1]
        if use_r2: lines.append("RRULE:" + r2)
        if rd: lines.append("RDATE:" + ",".join(d.strftime("%Y%m%dT%H%M%S") for d in rd))
        if use_ex: lines.append("EXRULE:FREQ=DAILY;INTERVAL=2;COUNT=2")
        if exd: lines.append("EXDATE:" + ",".join(d.strftime("%Y%m%dT%H%M%S") for d in exd))
        body = lines[1:]; rng.shuffle(body)
        txt = "\n".join([lines[0]] + body)
        opts = rng.choice([{}, {"forceset": True}, {"compatible": True}, {"unfold": True}])
        if "unfold" in opts or ("compatible" in opts and rng.random() < 0.7): txt = fold(rng, txt)
        ref = R.rruleset()
        ref.rrule(R.rrulestr(r1, dtstart=ds))
        if use_r2: ref.rrule(R.rrulestr(r2, dtstart=ds))
        for d in rd: ref.rdate(d)
        if use_ex: ref.exrule(R.rrulestr("FREQ=DAILY;INTERVAL=2;COUNT=2", dtstart=ds))
        for d in exd: ref.exdate(d)
        if opts.get("compatible"): ref.rdate(ds)
        ctx.case((txt, tuple(sorted(opts)))); ctx.count("set_cases")
        try:
            reset_lazy()
            got = R.rrulestr(txt, **opts)
            is_set = isinstance(got, R.rruleset)
            want_set = bool(use_r2 or rd or use_ex or exd or opts.get("forceset") or opts.get("compatible"))
            if is_set != want_set or list(got) != list(ref):
                ctx.violation("multi-line text does not build the corresponding set", {"kind": "set", "text": txt, "opts": sorted(opts)},
                              {"got": [d.isoformat() for d in list(got)[:6]], "want": [d.isoformat() for d in list(ref)[:6]], "is_set": is_set})
        except Exception as ex:
            ctx.violation("multi-line text rejected: %s" % exc_kind(ex), {"kind": "set", "text": txt, "opts": sorted(opts)}, repr(ex))

# ---- option plumbing: the same effect on EVERY code path of _parse_rfc

def stamp(d):
    return "%04d%02d%02dT%02d%02d%02d" % (d.year, d.month, d.day, d.hour, d.minute, d.second)

def view(dts):
    """what is compared: wall time, UTC offset (None = naive)"""
    return [(d.replace(tzinfo=None).isoformat(), None if d.tzinfo is None else d.utcoffset().total_seconds()) for d in dts]

def option_scenarios(freq, ds, kw):
    """(scenario, suffix for date values, options, expected start, expected until-tz, dtstart-line parameter)"""
    from dateutil import tz
    brst = tz.tzoffset("BRST", -10800)
    foo = tz.tzoffset("Foo/Bar", 3600)
    return {
        "ignoretz":   dict(suffix="Z", opts={"ignoretz": True}, zone=None),
        "aware-z":    dict(suffix="Z", opts={}, zone=tz.UTC),
        "tzinfos":    dict(suffix="BRST", opts={"tzinfos": {"BRST": -10800}}, zone=brst),
        "tzinfos+ignoretz": dict(suffix="BRST", opts={"tzinfos": {"BRST": -10800}, "ignoretz": True}, zone=None),
        "tzids-map":  dict(suffix="", opts={"tzids": {"Foo/Bar": foo}}, zone=foo, tzid="Foo/Bar"),
        "tzids-call": dict(suffix="", opts={"tzids": (lambda name: foo if name == "Foo/Bar" else None)}, zone=foo, tzid="Foo/Bar"),
        "cache":      dict(suffix="", opts={"cache": True}, zone=None),
        "no-cache":   dict(suffix="", opts={}, zone=None),
    }

FOLD = "\x00fold\x00"

def run_option_case(ctx, R, freq, ds, kw, scen_name, scen, rng):
    """one rule, one option scenario, every applicable path; returns False when the scenario does not apply"""
    from dateutil import tz
    zone, sfx, opts = scen["zone"], scen["suffix"], scen["opts"]
    tzid = scen.get("tzid")
    eds = ds.replace(tzinfo=zone)
    ekw = dict(kw)
    if "until" in kw:
        # with a TZID start the UNTIL of the text is given in UTC
        ekw["until"] = kw["until"].replace(tzinfo=(tz.UTC if tzid else zone))
    try:
        want_rule = build(freq, eds, ekw)
        want = view(head(iter(want_rule), 8))
    except (ValueError, Timeout, ZeroDivisionError, OverflowError, IndexError):
        return False
    value = str(build(freq, ds, kw)).split("\n")[1][6:]
    if "until" in kw:
        value = value.replace("UNTIL=" + stamp(kw["until"]), "UNTIL=" + stamp(kw["until"]) + ("Z" if tzid else sfx))
    # with a TZID scenario the DTSTART and EXDATE lines get their TZID parameter (in a random spelling) further down
    dline = ("DTSTART:" + stamp(ds)) if tzid else ("DTSTART:" + stamp(ds) + sfx)
    rd = [ds + datetime.timedelta(days=40, hours=1), ds + datetime.timedelta(days=41)]
    exd = [ds + datetime.timedelta(days=1)]
    dsfx = "Z" if tzid else sfx            # RDATE takes no TZID parameter: UTC values there
    dzone = tz.UTC if tzid else zone
    xsfx = "" if tzid else sfx             # EXDATE values: the TZID parameter gives the zone
    xzone = zone
    if tzid and "ignoretz" in opts:
        return False
    second = "FREQ=YEARLY;COUNT=2"
    def rule2(start):
        return R.rrule(R.YEARLY, count=2, dtstart=start)
    def set_of(members):
        st = R.rruleset()
        for kind, v in members:
            getattr(st, kind)(v)
        return st
    paths = []
    # (name, text, extra options, expected iterable, expected type)
    if not tzid:
        paths += [("bare-value+dtstart=", value, {"dtstart": eds}, want_rule, R.rrule),
                  ("RRULE-line+dtstart=", "RRULE:" + value, {"dtstart": eds}, want_rule, R.rrule),
                  ("folded-RRULE-line+unfold+dtstart=", FOLD + "RRULE:" + value, {"dtstart": eds, "unfold": True}, want_rule, R.rrule),
                  ("two-RRULE-lines+dtstart=", "RRULE:" + value + "\nRRULE:" + second, {"dtstart": eds},
                   set_of([("rrule", want_rule), ("rrule", rule2(eds))]), R.rruleset),
                  ("RRULE-line+forceset+dtstart=", "RRULE:" + value, {"dtstart": eds, "forceset": True}, set_of([("rrule", want_rule)]), R.rruleset)]
    other = datetime.datetime(1990, 1, 1, tzinfo=zone)
    paths += [("DTSTART+RRULE", dline + "\n" + "RRULE:" + value, {}, want_rule, R.rrule),
              ("DTSTART+RRULE, dtstart= overridden by the line", dline + "\nRRULE:" + value, {"dtstart": other}, want_rule, R.rrule),
              ("DTSTART+bare-value", dline + "\n" + value, {}, want_rule, R.rrule),
              ("DTSTART+RRULE+forceset", dline + "\nRRULE:" + value, {"forceset": True}, set_of([("rrule", want_rule)]), R.rruleset),
              ("DTSTART+RRULE+unfold", FOLD + dline + "\nRRULE:" + value, {"unfold": True}, want_rule, R.rrule),
              ("DTSTART+RRULE+RDATE", dline + "\nRRULE:" + value + "\nRDATE:" + ",".join(stamp(d) + dsfx for d in rd), {},
               set_of([("rrule", want_rule)] + [("rdate", d.replace(tzinfo=dzone)) for d in rd]), R.rruleset),
              ("DTSTART+RRULE+EXDATE", dline + "\nRRULE:" + value + "\nEXDATE:" + ",".join(stamp(d) + xsfx for d in exd), {},
               set_of([("rrule", want_rule)] + [("exdate", d.replace(tzinfo=xzone)) for d in exd]), R.rruleset),
              ("DTSTART+2xRRULE", dline + "\nRRULE:" + value + "\nRRULE:" + second, {},
               set_of([("rrule", want_rule), ("rrule", rule2(eds))]), R.rruleset),
              ("DTSTART+RRULE+EXRULE", dline + "\nRRULE:" + value + "\nEXRULE:" + second, {},
               set_of([("rrule", want_rule), ("exrule", rule2(eds))]), R.rruleset),
              ("DTSTART+RRULE+RDATE+unfold", FOLD + dline + "\nRRULE:" + value + "\nRDATE:" + ",".join(stamp(d) + dsfx for d in rd), {"unfold": True},
               set_of([("rrule", want_rule)] + [("rdate", d.replace(tzinfo=dzone)) for d in rd]), R.rruleset),
              ("DTSTART+RRULE+compatible", FOLD + dline + "\nRRULE:" + value, {"compatible": True},
               set_of([("rrule", want_rule), ("rdate", eds)]), R.rruleset)]
    for name, txt, extra, expect, typ in paths:
        o = dict(opts); o.update(extra)
        dofold = txt.startswith(FOLD)
        txt = txt[len(FOLD):] if dofold else txt
        # every RFC spelling of the date lines: property / parameter names in any letter case, VALUE=DATE-TIME before or
        # after TZID, the TZID name as written; then (unfold / compatible) folded anywhere, also inside the parameters
        txt = spell_date_lines(rng, txt, tzid=tzid, level=rng.choice([1, 2]))
        if dofold:
            txt = fold(rng, txt)
        shown = {k: (v.isoformat() if isinstance(v, datetime.datetime) else ("<callable>" if callable(v) else (sorted(v) if isinstance(v, dict) else v))) for k, v in o.items()}
        case = {"kind": "options", "scenario": scen_name, "path": name, "text": txt, "opts": shown,
                "expect": {"freq": freq, "dtstart": ds.isoformat(), "kwargs": repr(kw)}}
        ctx.case((txt, scen_name, name)); ctx.count("options_" + scen_name); ctx.count("path_" + name.split(",")[0])
        try:
            with warnings.catch_warnings():
                warnings.simplefilter("ignore")
                reset_lazy()
                got_obj = limited(lambda: R.rrulestr(txt, **o), 2.0)
                got = view(head(iter(got_obj), 8))
                wantv = want if expect is want_rule else view(head(iter(expect), 8))
        except Timeout:
            continue
        except Exception as ex:
            ctx.violation("rrulestr with %s through the path '%s' raised %s where the keyword construction works" % (scen_name, name, exc_kind(ex)), case, repr(ex))
            continue
        if not isinstance(got_obj, typ):
            ctx.violation("path '%s' returned a %s" % (name, type(got_obj).__name__), case, None); continue
        if got != wantv:
            ctx.violation("rrulestr with %s through the path '%s' differs from the keyword construction (occurrences / tzinfo)" % (scen_name, name),
                          case, {"text": got[:4], "keywords": wantv[:4]})
            continue
        if "cache" in o or scen_name == "no-cache":
            cached = getattr(got_obj, "_cache", None) is not None
            if cached != bool(o.get("cache")):
                ctx.violation("cache=%s through the path '%s': result %s caching" % (o.get("cache", False), name, "is" if cached else "is not"), case, None)
    return True

def oracle_options(ctx):
    from dateutil import rrule as R
    rng = ctx.subrng("oracle-options")
    done = 0
    # thorough budget 900 (was 1500): measured 0.35 s per case; with 1500 this stream alone took 9 of the 21.5 minutes of a thorough run
    for i in range(ctx.budget(45, 900)):
        if ctx.escalated and ctx.unknown_violations() >= 5:
            break
        freq, ds, kw = gen_kwargs(rng, small_years=False)
        if kw.get("interval", 1) < 1:
            kw["interval"] = 1
        # empty BY sequences cannot be spelled in text at all (D-C13-empty-by-list is met by the round-trip section)
        kw = {k: v for k, v in kw.items() if not (isinstance(v, (tuple, list)) and len(v) == 0)}
        if rng.random() < 0.5 and "until" not in kw:
            kw.pop("count", None)
            kw["until"] = ds + datetime.timedelta(days=rng.randint(1, 900), seconds=rng.randint(0, 86399))
        scens = option_scenarios(freq, ds, kw)
        for name in rng.sample(sorted(scens), 3):
            if run_option_case(ctx, R, freq, ds, kw, name, scens[name], rng):
                done += 1
    ctx.count("option_scenarios_run", done)

# ---- state of the process: every text as the FIRST rrulestr call of a fresh interpreter

CHILD = r"""
import sys, json, datetime, itertools, warnings, signal, os
warnings.simplefilter("ignore")
def _late(*a):
    print("timeout"); sys.stdout.flush(); os._exit(0)
signal.signal(signal.SIGALRM, _late); signal.setitimer(signal.ITIMER_REAL, 1.5)     # rules that run dry are skipped
text = bytes.fromhex(sys.argv[1]).decode() if sys.argv[1] != "." else ""
spec = json.loads(sys.argv[2])
from dateutil import tz
from dateutil.rrule import rrulestr
opts = {}
for k, v in spec.items():
    if k == "dtstart": opts[k] = datetime.datetime.fromisoformat(v)
    elif k == "tzinfos": opts[k] = v
    elif k == "tzids": opts[k] = {n: tz.tzoffset(n, off) for n, off in v.items()}
    else: opts[k] = v
try:
    r = rrulestr(text, **opts)
    occ = list(itertools.islice(iter(r), 6))
    print("ok %s %s" % (type(r).__name__, ",".join("%s/%s" % (d.replace(tzinfo=None).isoformat(), None if d.tzinfo is None else d.utcoffset().total_seconds()) for d in occ)))
except Exception as ex:
    print("err " + ("ValueError" if isinstance(ex, ValueError) else type(ex).__name__))
"""

def fresh_cases(rng):
    """texts chosen so that each exercises ONE lazy-import / first-use path of rrule.py as the first call of a process"""
    D = "2024-02-26T10:15:00"
    base = [
        ("only RDATE",        "RRULE:FREQ=WEEKLY;COUNT=3\nRDATE:20240229T101500", {"dtstart": D}),
        ("only RDATE x2",     "RRULE:FREQ=WEEKLY;COUNT=3\nRDATE:20240229T101500,20240301T101500", {"dtstart": D}),
        ("RDATE + EXRULE",    "RRULE:FREQ=DAILY;COUNT=6\nEXRULE:FREQ=DAILY;INTERVAL=2;COUNT=2\nRDATE:20240310T101500", {"dtstart": D}),
        ("only EXDATE",       "RRULE:FREQ=DAILY;COUNT=4\nEXDATE:20240227T101500", {"dtstart": D}),
        ("only UNTIL",        "RRULE:FREQ=DAILY;UNTIL=20240301T101500", {"dtstart": D}),
        ("only UNTIL, bare",  "FREQ=DAILY;UNTIL=20240301T101500", {"dtstart": D}),
        ("only DTSTART",      "DTSTART:20240226T101500\nRRULE:FREQ=WEEKLY;COUNT=3", {}),
        ("DTSTART + RDATE",   "DTSTART:20240226T101500\nRRULE:FREQ=WEEKLY;COUNT=3\nRDATE:20240229T101500", {}),
        ("TZID first",        "DTSTART;TZID=Foo/Bar:20240226T101500\nRRULE:FREQ=WEEKLY;COUNT=3", {"tzids": {"Foo/Bar": 3600}}),
        ("EXDATE;TZID first", "RRULE:FREQ=DAILY;COUNT=4\nEXDATE;TZID=Foo/Bar:20240227T101500", {"dtstart": "2024-02-26T10:15:00+01:00", "tzids": {"Foo/Bar": 3600}}),
        ("bare value",        "FREQ=WEEKLY;COUNT=3;BYDAY=MO,WE", {"dtstart": D}),
        ("bare value, no start", "FREQ=YEARLY;COUNT=2;BYEASTER=0", {"dtstart": D}),
        ("forceset",          "RRULE:FREQ=WEEKLY;COUNT=3", {"dtstart": D, "forceset": True}),
        ("forceset + RDATE",  "RDATE:20240229T101500", {"forceset": True}),
        ("compatible",        "DTSTART:20240226T101500\nRRULE:FREQ=WEEKLY;COUNT=3;BYDAY=WE", {"compatible": True}),
        ("compatible + RDATE", "DTSTART:20240226T101500\nRRULE:FREQ=WEEKLY;COUNT=3\nRDATE:20240229T101500", {"compatible": True}),
        ("two RRULE",         "RRULE:FREQ=WEEKLY;COUNT=3\nRRULE:FREQ=DAILY;COUNT=2", {"dtstart": D}),
        ("unfold + RDATE",    "RRULE:FREQ=WEEKLY;\n COUNT=3\nRDATE:2024\n 0229T101500", {"dtstart": D, "unfold": True}),
        ("ignoretz + RDATE Z", "RRULE:FREQ=WEEKLY;COUNT=3\nRDATE:20240229T101500Z", {"dtstart": D, "ignoretz": True}),
        ("tzinfos + RDATE",   "DTSTART:20240226T101500BRST\nRRULE:FREQ=WEEKLY;COUNT=3\nRDATE:20240229T101500BRST", {"tzinfos": {"BRST": -10800}}),
        ("cache + RDATE",     "RRULE:FREQ=WEEKLY;COUNT=3\nRDATE:20240229T101500", {"dtstart": D, "cache": True}),
        ("malformed RDATE",   "RRULE:FREQ=WEEKLY;COUNT=3\nRDATE:NOTADATE", {"dtstart": D}),
        ("oversized RDATE",   "RRULE:FREQ=WEEKLY;COUNT=3\nRDATE:99999999999999999999", {"dtstart": D}),
        ("oversized UNTIL",   "FREQ=DAILY;UNTIL=99999999999999999999", {"dtstart": D}),
        ("BYEASTER first",    "DTSTART:20240226T101500\nRRULE:FREQ=YEARLY;COUNT=2;BYEASTER=1,-2", {}),
        ("nth weekday two digits", "DTSTART:20151229T074500\nRRULE:FREQ=YEARLY;COUNT=4;BYDAY=+10WE", {}),
    ]
    # and a few generated rules, each with one date-bearing line added
    extra = []
    for _ in range(8):
        freq, ds, kw = gen_kwargs(rng, small_years=False)
        kw = {k: v for k, v in kw.items() if not (isinstance(v, (tuple, list)) and len(v) == 0)}
        try:
            txt = str(build(freq, ds, kw))
        except Exception:
            continue
        rline = txt.split("\n")[1]
        add = rng.choice(["RDATE:" + stamp(ds + datetime.timedelta(days=3, hours=1)), "EXDATE:" + stamp(ds + datetime.timedelta(days=1)), None])
        if add and rng.random() < 0.5:
            extra.append(("generated, dtstart= + " + add.split(":")[0], rline + "\n" + add, {"dtstart": ds.isoformat()}))
        else:
            extra.append(("generated", txt + ("\n" + add if add else ""), {}))
    return base + extra

def outcome_in_process(text, spec):
    from dateutil import rrule as R, tz
    opts = {}
    for k, v in spec.items():
        if k == "dtstart": opts[k] = datetime.datetime.fromisoformat(v)
        elif k == "tzids": opts[k] = {n: tz.tzoffset(n, off) for n, off in v.items()}
        else: opts[k] = v
    try:
        with warnings.catch_warnings():
            warnings.simplefilter("ignore")
            r = limited(lambda: R.rrulestr(text, **opts), 2.0)
            occ = head(iter(r), 6)
        return ("ok %s %s" % (type(r).__name__, ",".join("%s/%s" % (d.replace(tzinfo=None).isoformat(), None if d.tzinfo is None else d.utcoffset().total_seconds()) for d in occ))).strip()
    except Timeout:
        return None
    except Exception as ex:
        return "err " + ("ValueError" if isinstance(ex, ValueError) else type(ex).__name__)

def oracle_fresh(ctx):
    """each text evaluated (a) as the first rrulestr call of a fresh interpreter, (b) in this process right after the
    lazily filled module globals were reset, (c) in this warm process: the three outcomes must agree, and a failure must be a
    ValueError"""
    import subprocess, json, sys
    from vlib import REPO
    import os
    rng = ctx.subrng("oracle-fresh")
    cases = fresh_cases(rng)
    if ctx.tier == "thorough" or ctx.escalated:
        for _ in range(4):
            cases += fresh_cases(rng)[-8:]
    env = dict(os.environ, PYTHONPATH=os.path.join(REPO, "src"), TZ="UTC")
    env.pop("PYTHONSTARTUP", None)
    results = [None] * len(cases)
    batch = 8
    for b in range(0, len(cases), batch):
        procs = []
        for i in range(b, min(b + batch, len(cases))):
            name, text, spec = cases[i]
            procs.append((i, subprocess.Popen([sys.executable, "-c", CHILD, hexs(text), json.dumps(spec)], env=env,
                                              stdout=subprocess.PIPE, stderr=subprocess.PIPE, text=True)))
        for i, pr in procs:
            try:
                out, err = pr.communicate(timeout=15)
                results[i] = out.strip().splitlines()[-1] if out.strip() else "child-failed: " + err.strip().splitlines()[-1][:200] if err.strip() else "child-failed"
            except subprocess.TimeoutExpired:
                pr.kill(); results[i] = None
    for (name, text, spec), fresh in zip(cases, results):
        if fresh is None or fresh == "timeout":
            ctx.count("fresh_child_timeout"); continue
        warm = outcome_in_process(text, spec)
        reset_lazy()
        first_use = outcome_in_process(text, spec)
        if warm is None or first_use is None:
            continue
        case = {"kind": "fresh", "path": name, "text": text, "opts": spec}
        ctx.case((text, json.dumps(spec, sort_keys=True), "fresh")); ctx.count("fresh_interpreter_cases")
        for label, got in (("as the first rrulestr call of a fresh interpreter", fresh), ("right after the lazily imported module globals were reset", first_use)):
            if got != warm:
                ctx.violation("rrulestr depends on the state of the process (%s): %s %s, in a warm process %s" % (name, label, got[:80], warm[:80]),
                              dict(case, outcome_first=got, outcome_warm=warm), None)
                break
            if got.startswith("err ") and got != "err ValueError":
                ctx.violation("rrulestr %s raised %s instead of ValueError" % (label, got[4:]), dict(case, outcome_first=got, outcome_warm=warm), None)
                break

# ---- the ambient first weekday (calendar.setfirstweekday): process-wide state that rrule() reads when wkst is not given

def week_sensitive_kwargs(rng):
    """rules whose occurrences depend on the week start: WEEKLY with interval >= 2 and several BYDAY, BYWEEKNO;
    wkst absent, MO (as 0 and as the weekday object), or another day"""
    from dateutil import rrule as R
    ds = datetime.datetime(rng.choice([1997, 2000, 2015, 2024]), rng.randint(1, 12), rng.randint(1, 28), 9, 0, 0)
    kw = {"count": rng.randint(3, 8)}
    w = rng.choice(["absent", "absent", 0, R.MO, rng.randint(1, 6), R.weekdays[rng.randint(1, 6)]])
    if w != "absent":
        kw["wkst"] = w
    if rng.random() < 0.6:
        freq = R.WEEKLY
        kw["interval"] = rng.choice([2, 2, 3, 4])
        kw["byweekday"] = rng.sample(range(7), rng.randint(2, 4))
    else:
        freq = R.YEARLY
        kw["byweekno"] = rng.sample([1, 2, 20, 52, 53, -1], rng.randint(1, 2))
        if rng.random() < 0.6:
            kw["byweekday"] = rng.sample(range(7), rng.randint(1, 3))
    return freq, ds, kw

def oracle_ambient(ctx):
    import calendar
    from dateutil import rrule as R
    rng = ctx.subrng("oracle-ambient")
    saved = calendar.firstweekday()
    try:
        for i in range(ctx.budget(70, 2000)):
            if ctx.escalated and ctx.unknown_violations() >= 5:
                break
            k = i % 7
            calendar.setfirstweekday(k)
            freq, ds, kw = week_sensitive_kwargs(rng) if rng.random() < 0.8 else gen_kwargs(rng, small_years=False)
            kw = {a: v for a, v in kw.items() if not (isinstance(v, (tuple, list)) and len(v) == 0)}
            try:
                r = build(freq, ds, kw)
                base = head(iter(r))
                s = str(r)
            except (ValueError, Timeout, ZeroDivisionError, OverflowError, IndexError):
                continue
            case = {"kind": "ambient", "ambient_firstweekday": k, "rule_wkst": r._wkst, "text": s, "kwargs": repr(kw), "freq": freq, "dtstart": ds.isoformat()}
            ctx.case((s, k, "ambient")); ctx.count("ambient_%d" % k)
            try:
                with warnings.catch_warnings():
                    warnings.simplefilter("ignore")
                    got = head(iter(R.rrulestr(s)))
            except Timeout:
                continue
            except Exception as ex:
                ctx.violation("under calendar.setfirstweekday(%d) rrulestr(str(rule)) raised %s" % (k, exc_kind(ex)), case, repr(ex)); continue
            if got != base:
                # regression stream of the repaired D-C13-ambient-wkst (pending_fixes/D-C13-ambient-wkst.diff): __str__ prints WKST
                # whenever _wkst or calendar.firstweekday() is non-zero, so no ambient value excuses a difference any more
                ctx.violation("under calendar.setfirstweekday(%d) rrulestr(str(rule)) generates different occurrences" % k, case,
                              {"rule": [d.isoformat() for d in base[:4]], "reparsed": [d.isoformat() for d in got[:4]]})
                continue
            if (k != 0 or r._wkst != 0) != ("WKST=" in s):
                ctx.violation("under calendar.setfirstweekday(%d) str(rule) %s WKST for _wkst=%d" % (k, "prints" if "WKST=" in s else "omits", r._wkst),
                              dict(case, kind="ambient-wkst-part"), None)
                continue
            if "WKST=" in s and k != 0:
                # a text that carries WKST means the same rule under every reader's first weekday (str_roundtrip_rule_cross_ambient)
                k2 = rng.choice([x for x in range(7) if x != k])
                calendar.setfirstweekday(k2)
                try:
                    with warnings.catch_warnings():
                        warnings.simplefilter("ignore")
                        got2 = head(iter(R.rrulestr(s)))
                except Timeout:
                    got2 = base
                except Exception as ex:
                    got2 = repr(ex)
                finally:
                    calendar.setfirstweekday(k)
                ctx.case((s, k, k2, "ambient-cross"))
                if got2 != base:
                    ctx.violation("text written under setfirstweekday(%d) and read under setfirstweekday(%d) generates different occurrences" % (k, k2),
                                  dict(case, kind="ambient-cross", reader_firstweekday=k2), None)
                    continue
            # text -> rule under the ambient value: an explicit WKST in the text wins, no WKST means the ambient value
            import re as _re
            s_full, s = s, _re.sub(r";WKST=[A-Z][A-Z]", "", s)       # the text without its WKST part (printed under k != 0 since the repair)
            for wk_txt, wk in (("", k), (";WKST=MO", 0), (";WKST=SU", 6)):
                try:
                    want = head(iter(build(freq, ds, dict(kw, wkst=wk))))
                    with warnings.catch_warnings():
                        warnings.simplefilter("ignore")
                        gotw = head(iter(R.rrulestr(s + wk_txt)))
                except (ValueError, Timeout, ZeroDivisionError, OverflowError, IndexError):
                    continue
                ctx.case((s + wk_txt, k, "ambient-text"))
                if gotw != want:
                    ctx.violation("under calendar.setfirstweekday(%d) the text %r does not mean wkst=%d" % (k, s + wk_txt, wk),
                                  dict(case, kind="ambient-text", text=s + wk_txt), None)
    finally:
        calendar.setfirstweekday(saved)

def oracle_malformed(ctx):
    from dateutil import rrule as R
    # (5) unknown or malformed parts raise ValueError
    for m in MALFORMED:
        for opts in ({}, {"forceset": True}):
            ctx.case((m, tuple(sorted(opts)), "malformed"), nontrivial=False); ctx.count("malformed")
            try:
                with warnings.catch_warnings():
                    warnings.simplefilter("ignore")
                    r = R.rrulestr(m, **opts)
                out = "accepted"
            except ValueError:
                out = "ValueError"
            except Exception as ex:
                out = exc_kind(ex)
            # a bare DTSTART with forceset is a (possibly empty) set, not malformed; an empty rule list is rejected
            if m.startswith("DTSTART:") and "," not in m and out == "accepted" and opts:
                continue
            if out != "ValueError":
                ctx.violation("rrulestr(%r, %s): %s instead of ValueError" % (m, opts, out), {"kind": "malformed", "text": m, "opts": sorted(opts), "outcome": out}, None)
    # malformed / oversized date values in UNTIL, DTSTART, RDATE, EXDATE on all three paths: ValueError or (the parser is
    # lenient) accepted, never another exception kind; the certainly-bad ones must be rejected
    rng = ctx.subrng("oracle-baddates")
    def bad_date():
        k = rng.randint(0, 9)
        if k == 0: return "9" * rng.randint(9, 40), False
        if k == 1: return "%d" % rng.randint(10**15, 10**30) + rng.choice(["", "T000000", "Z"]), False
        if k == 2: return "1997%02d%02dT%02d%02d%02d" % (rng.choice([0, 13, 99]), rng.randint(1, 28), 9, 0, 0), True
        if k == 3: return "199709%02dT090000" % rng.choice([0, 32, 99]), True
        if k == 4: return "19970902T%02d%02d%02d" % (rng.choice([24, 25, 99]), rng.choice([0, 60]), rng.choice([0, 61])), False
        if k == 5:
            v = rng.choice(["", "NOTADATE", "T", "Z", "-", "19970902T", "00000000T000000", "1E999999", "1E-999999"])
            return v, v in ("", "NOTADATE", "00000000T000000")
        if k == 6: return "19970902T090000" + rng.choice(["+9999", "-99:99", "+1E9", "." + "9" * 30, "Z" * 3]), False
        if k == 7: return "%d-%d-%d" % (rng.randint(10000, 10**12), rng.randint(1, 12), rng.randint(1, 28)), False
        if k == 8: return "0" * rng.randint(1, 30), False
        return "".join(rng.choice("0123456789TZ:-+.,E") for _ in range(rng.randint(1, 25))), False
    for i in range(ctx.budget(150, 4000)):
        bad, certain = bad_date()
        if "," in bad or ";" in bad or ":" in bad:
            certain = False
        where = rng.randint(0, 7)
        good = "19970902T090000"
        txt, opts = [("FREQ=DAILY;COUNT=2;UNTIL=" + bad, {}),                                   # fast path, bare value
                     ("RRULE:FREQ=DAILY;UNTIL=" + bad, {}),                                      # fast path, RRULE line
                     ("DTSTART:" + good + "\nRRULE:FREQ=DAILY;UNTIL=" + bad, {}),               # several lines, one rule
                     ("DTSTART:" + bad + "\nRRULE:FREQ=DAILY;COUNT=2", {}),
                     ("DTSTART:" + good + "\nRRULE:FREQ=DAILY;UNTIL=" + bad, {"forceset": True}),  # set path
                     ("DTSTART:" + good + "\nRRULE:FREQ=DAILY;COUNT=2\nRDATE:" + good + "," + bad, {}),
                     ("DTSTART:" + good + "\nRRULE:FREQ=DAILY;COUNT=2\nEXDATE:" + bad, {}),
                     ("DTSTART:" + good + "\nRRULE:FREQ=DAILY;COUNT=2\nEXRULE:FREQ=DAILY;UNTIL=" + bad, {"compatible": True})][where]
        if any(c.isspace() for c in bad):
            continue
        ctx.case((txt, tuple(sorted(opts)), "baddate"), nontrivial=False); ctx.count("malformed_date_values")
        try:
            with warnings.catch_warnings():
                warnings.simplefilter("ignore")
                limited(lambda: R.rrulestr(txt, **opts), 2.0)
            out = "accepted"
        except Timeout:
            continue
        except ValueError:
            out = "ValueError"
        except Exception as ex:
            out = exc_kind(ex)
        ctx.count("baddate_" + out)
        if out not in ("ValueError", "accepted") or (certain and out == "accepted"):
            ctx.violation("rrulestr(%r, %s) with a malformed date value: %s instead of ValueError" % (txt, opts, out),
                          {"kind": "malformed", "text": txt, "opts": sorted(opts), "outcome": out}, None)


def explain_empty_by(ctx, case, r, s, freq, ds, kw, observed):
    """fill in the fields the D-C13-empty-by-list matcher needs: claimed only when (1) the model agrees with the
    implementation on this very rule, for str() and for the parse of that text, and (2) what the reparsed rule does
    (its occurrences, or the exception it raises while iterating) is exactly what the same keyword arguments WITHOUT the
    empty parts do (i.e. the difference is the re-derived default and nothing else)"""
    empty_by = sorted(k for k, v in kw.items() if k.startswith("by") and isinstance(v, (tuple, list)) and len(v) == 0)
    if not empty_by:
        return
    case["empty_by"] = empty_by
    try:
        with relaxed():
            res, _ = impl_parse(s)
            m = ctx.driver([str_request(r), "rrs.parse 0000000 %s" % hexs(s)])
            case["model_agrees_with_implementation"] = bool(m[0] == "ok " + hexs(s) and canon_impl(res, m[1]) == m[1])
            try:
                without = build(freq, ds, {k: v for k, v in kw.items() if k not in empty_by})
                seen = ("occurrences", head(iter(without)))
            except Timeout:
                raise
            except Exception as ex2:
                seen = ("raised", exc_kind(ex2))
            case["explained_by_default_of_dropped_part"] = bool(seen == observed)
    except Timeout:
        case["explanation_timed_out"] = True      # the caller drops the case: no verdict, not a violation
    except Exception as ex:
        case["model_agrees_with_implementation"] = False; case["matcher_error"] = repr(ex)

def oracle_fold_space(ctx):
    """folds of a DTSTART;TZID=<name with spaces> line at every kind of position, in particular right after a space: in the
    first physical line (must work: unfold_fold) and in a continuation line (known finding D-C13-fold-after-space)"""
    from dateutil import rrule as R
    rng = ctx.subrng("oracle-foldspace")
    explained = 0
    for _ in range(ctx.budget(60, 600)):
        if ctx.escalated and ctx.unknown_violations() >= 5:
            break
        freq, ds, kw = gen_kwargs(rng, small_years=False)
        kw = {a: v for a, v in kw.items() if not (isinstance(v, (tuple, list)) and len(v) == 0)}
        name = rng.choice(["Eastern Standard Time", "a b", "A  B c", "W. Europe Standard Time", "x y z"])
        try:
            r = build(freq, ds, kw)
            s = str(r)
            want = head(iter(build(freq, ds.replace(tzinfo=MarkTz(name)), kw)))
        except (ValueError, Timeout, ZeroDivisionError, OverflowError, IndexError, TypeError):
            continue
        first, rest = s.split("\n", 1)
        logical = "DTSTART;TZID=%s:%s" % (name, first.split(":", 1)[1])
        after_space = [i + 1 for i, c in enumerate(logical) if c == " " and i + 1 < len(logical)]
        cuts = set(rng.sample(range(1, len(logical)), rng.randint(0, 3)))
        if rng.random() < 0.8:
            cuts.update(rng.sample(after_space, rng.randint(1, min(2, len(after_space)))))
        pieces, prev = [], 0
        for k in sorted(cuts):
            pieces.append(logical[prev:k]); prev = k
        pieces.append(logical[prev:])
        if not pieces[0].strip() or any(not p.strip() for p in pieces[1:]):
            continue                                   # whitespace-only pieces: a different question (blank lines are dropped)
        brk = rng.choice(["\n", "\r\n"])
        text = pieces[0] + "".join(brk + " " + p for p in pieces[1:]) + brk + rest
        lost = any(p.endswith(" ") for p in pieces[1:])
        if lost and explained >= 40:
            ctx.count("fold_space_lost_not_resampled"); continue      # the listed class has been sampled enough (each case costs a driver call)
        explained += int(lost)
        case = {"kind": "fold-space", "text": text, "tzid": name, "continuation_piece_ends_in_space": lost,
                "kwargs": repr(kw), "freq": freq, "dtstart": ds.isoformat()}
        ctx.case((text, "fold-space")); ctx.count("fold_space_lost" if lost else "fold_space_kept")
        def run(t):
            try:
                with warnings.catch_warnings():
                    warnings.simplefilter("ignore")
                    got = head(iter(R.rrulestr(t, unfold=True, tzids=mark_tz)))
                return [(d.replace(tzinfo=None), getattr(d.tzinfo, "looked_up", d.tzinfo)) for d in got]
            except Timeout:
                raise
            except Exception as ex:
                return "raised " + exc_kind(ex)
        try:
            got = run(text)
            if got != [(d.replace(tzinfo=None), name) for d in want]:
                if lost:
                    # the symptom the finding describes: the TZID parameter is no longer found in the name table, the zone is
                    # silently dropped (naive start, same wall-clock occurrences) — and the Lean model says the same of this text
                    case["explained_by_dropped_zone"] = bool(got == [(d.replace(tzinfo=None), None) for d in want])
                    try:
                        with relaxed():
                            res, _ = impl_parse(text, unfold=True, tzids=mark_tz)
                            m = ctx.driver(["rrs.parse 1000000 %s" % hexs(text)])
                            case["model_agrees_with_implementation"] = bool(canon_impl(res, m[0]) == m[0])
                    except Timeout:
                        ctx.count("skipped_explanation_timed_out"); continue
                    except Exception as ex:
                        case["model_agrees_with_implementation"] = False; case["matcher_error"] = repr(ex)
                ctx.violation("a folded DTSTART;TZID line does not give the start and zone of the keyword construction", case,
                              {"got": repr(got)[:300]})
        except Timeout:
            ctx.count("skipped_ctor_or_slow")

def oracle(ctx):
    from dateutil import rrule as R, tz
    # the cheap sections first, so that the failing-input search after a correspondence mismatch reaches them early
    import time as _time
    for part in (oracle_fresh, oracle_ambient, oracle_fold_space, oracle_options, oracle_sets, oracle_malformed):
        t0 = _time.time()
        part(ctx)
        ctx.count("seconds_" + part.__name__, int(round(_time.time() - t0)))      # where the wall time goes (evidence)
    t0 = _time.time()
    try:
        oracle_roundtrips(ctx, R, tz)
    finally:
        ctx.count("seconds_oracle_roundtrips", int(round(_time.time() - t0)))

def oracle_roundtrips(ctx, R, tz):
    rng = ctx.subrng("oracle")
    n = ctx.budget(330, 7500)      # thorough 7500 (was 10000): 45 ms per rule; keeps the thorough tier near its 15 minute budget
    shown = 0
    # rules on which the model and str() disagreed come first (failing-input search after a correspondence mismatch)
    seeded = [m["rule"] for m in getattr(ctx, "c13_str_mismatch_rules", [])][:200]
    for i in range(n):
        if ctx.escalated and ctx.unknown_violations() >= 5:
            ctx.count("search_stopped_after_failing_inputs_found"); break
        if i == 0:
            # the committed witness of D-C13-empty-by-list is evaluated on every run
            import datetime as _dt
            freq, ds, kw = R.YEARLY, _dt.datetime(2020, 1, 1, 9), {"count": 4, "bymonthday": ()}
        else:
            freq, ds, kw = seeded.pop() if seeded else gen_kwargs(rng)
        try:
            r = build(freq, ds, kw)
            base = head(iter(r))
        except (ValueError, Timeout, ZeroDivisionError, OverflowError, IndexError):
            # interval <= 0 is accepted by the constructor but may fail or loop when iterated (C01's domain): nothing to compare
            ctx.count("skipped_ctor_or_slow"); continue
        s = str(r)
        key = (s,)
        # (1) str / rrulestr are inverse
        try:
            with warnings.catch_warnings():
                warnings.simplefilter("ignore")
                r2 = R.rrulestr(s)
                got = head(iter(r2))
        except Timeout:
            ctx.count("skipped_ctor_or_slow"); continue
        except Exception as ex:
            ctx.case(key)
            case = {"kind": "roundtrip", "text": s, "kwargs": repr(kw), "freq": freq, "dtstart": ds.isoformat()}
            explain_empty_by(ctx, case, r, s, freq, ds, kw, ("raised", exc_kind(ex)))
            if case.get("explanation_timed_out"):
                ctx.count("skipped_explanation_timed_out"); continue
            ctx.violation("rrulestr(str(rule)) raised %s" % exc_kind(ex), case, repr(ex))
            continue
        ctx.case(key); ctx.count("roundtrip")
        if shown < 3:
            ctx.sample({"str(rule)": s, "first": [d.isoformat() for d in base[:3]]}); shown += 1
        if got != base:
            case = {"kind": "roundtrip", "text": s, "kwargs": repr(kw), "freq": freq, "dtstart": ds.isoformat()}
            explain_empty_by(ctx, case, r, s, freq, ds, kw, ("occurrences", got))
            if case.get("explanation_timed_out"):
                ctx.count("skipped_explanation_timed_out"); continue
            ctx.violation("rrulestr(str(rule)) generates different occurrences", case,
                          {"rule": [d.isoformat() for d in base[:4]], "reparsed": [d.isoformat() for d in got[:4]]})
            continue
        # (2) spellings mean the same as the keyword construction
        for lvl in (1, 2):
            v = spell(rng, s, lvl)
            mode = rng.randint(0, 3)
            opts = {}
            if mode == 1:
                v = fold(rng, v); opts["unfold"] = True
            elif mode == 2:
                # start passed as dtstart= instead of inline
                v = "\n".join(l for l in v.split("\n") if not l.upper().startswith("DTSTART")); opts["dtstart"] = ds
            elif mode == 3 and "\n" in v:
                # lines separated by arbitrary whitespace (s.split()), blank lines, surrounding blanks
                v = rng.choice(["", " ", "\n"]) + v.replace("\n", rng.choice([" ", "\n\n", " \n", "\t", "\r\n"])) + rng.choice(["", " ", "\n"])
            ctx.case((v, tuple(sorted(opts))), nontrivial=True); ctx.count("spelling_mode_%d" % mode)
            try:
                with warnings.catch_warnings():
                    warnings.simplefilter("ignore")
                    rv = R.rrulestr(v, **opts)
                    gv = head(iter(rv))
            except Timeout:
                continue
            except Exception as ex:
                ctx.violation("spelling variant rejected: %s" % exc_kind(ex), {"kind": "spelling", "text": v, "orig": s}, repr(ex)); break
            if gv != base:
                ctx.violation("spelling variant generates different occurrences", {"kind": "spelling", "text": v, "orig": s},
                              {"rule": [d.isoformat() for d in base[:4]], "variant": [d.isoformat() for d in gv[:4]]}); break
        # (3) time zone spellings of the start: Z and TZID give the keyword construction's tzinfo
        if i % 5 == 0 and "until" not in kw:
            try:
                for zone_txt, zone in (("Z", tz.UTC), ("TZID", tz.gettz("America/New_York"))):
                    aware = build(freq, ds.replace(tzinfo=zone), kw)
                    abase = head(iter(aware))
                    body = "\n".join(l for l in s.split("\n") if not l.startswith("DTSTART"))
                    stamp = s.split("\n")[0].split(":")[1]
                    txt = ("DTSTART:%sZ\n" % stamp if zone_txt == "Z" else "DTSTART;TZID=America/New_York:%s\n" % stamp) + body
                    ctx.case((txt,)); ctx.count("tz_" + zone_txt)
                    with warnings.catch_warnings():
                        warnings.simplefilter("ignore")
                        ra = R.rrulestr(txt)
                        ga = head(iter(ra))
                    if ga != abase or any(a.tzinfo is None or a.utcoffset() != b.utcoffset() for a, b in zip(ga, abase)):
                        ctx.violation("DTSTART with %s does not give the keyword construction" % zone_txt, {"kind": "tz", "text": txt},
                                      {"kw": [d.isoformat() for d in abase[:3]], "text": [d.isoformat() for d in ga[:3]]})
                    if zone_txt != "Z":
                        continue      # not required: ignoretz only governs the date text; a TZID parameter is still applied
                    ig = head(iter(R.rrulestr(txt, ignoretz=True)))
                    if ig != base:
                        ctx.violation("ignoretz=True does not give the naive rule", {"kind": "tz-ignore", "text": txt}, None)
            except (ValueError, Timeout):
                ctx.count("skipped_ctor_or_slow")

def empty_by_list(case):
    """D-C13-empty-by-list, tight: an empty BY sequence among the arguments, the model reproduces the implementation's str()
    and parse on this rule, and the reparsed occurrences are those of the arguments without the empty parts"""
    return (case.get("kind") == "roundtrip" and bool(case.get("empty_by"))
            and case.get("model_agrees_with_implementation") is True
            and case.get("explained_by_default_of_dropped_part") is True)

def fold_after_space(case):
    """D-C13-fold-after-space, tight: a continuation piece of the folded DTSTART;TZID line ends in a space the outcome is
    exactly the keyword construction with the zone dropped (naive start), AND the Lean model says the same of this very text"""
    return (case.get("kind") == "fold-space" and case.get("continuation_piece_ends_in_space") is True
            and case.get("explained_by_dropped_zone") is True and case.get("model_agrees_with_implementation") is True)

KNOWN = {"D-C13-empty-by-list": lambda v: empty_by_list(v["case"]),
         "D-C13-fold-after-space": lambda v: fold_after_space(v["case"])}

def replay_ambient(case):
    """an ambient-first-weekday case re-evaluated on the current tree"""
    import calendar
    from dateutil import rrule as R
    ns = dict(vars(R)); ns["datetime"] = datetime
    kw = eval(case["kwargs"], ns)
    ds = datetime.datetime.fromisoformat(case["dtstart"])
    saved = calendar.firstweekday()
    try:
        k = case["ambient_firstweekday"]
        calendar.setfirstweekday(k)
        r = R.rrule(case["freq"], dtstart=ds, **kw)
        base = list(itertools.islice(r, 10)); s = str(r)
        calendar.setfirstweekday(case.get("reader_firstweekday", k))
        got = list(itertools.islice(R.rrulestr(s), 10))
        ok = got == base and ((k != 0 or r._wkst != 0) == ("WKST=" in s))
        if not ok:
            print("still failing under setfirstweekday(%d):" % k, repr(s), [d.isoformat() for d in base[:4]], "->", [d.isoformat() for d in got[:4]])
        return ok
    finally:
        calendar.setfirstweekday(saved)

def replay(ctx, payload):
    """re-evaluate the recorded failing case on the current tree (option cases are rebuilt from the recorded rule,
    scenario and path; the others are printed)"""
    import json, random
    v = payload["violation"]; case = v["case"]
    print(v["what"]); print(json.dumps(case, default=str)[:1500])
    if case.get("kind") in ("ambient", "ambient-cross", "ambient-wkst-part"):
        return replay_ambient(case)
    if case.get("kind") != "options":
        return False
    from dateutil import rrule as R
    ns = dict(vars(R)); ns["datetime"] = datetime
    kw = eval(case["expect"]["kwargs"], ns)
    ds = datetime.datetime.fromisoformat(case["expect"]["dtstart"])
    freq = case["expect"]["freq"]
    class Stub(object):
        escalated = False
        def __init__(self): self.violations = []
        def case(self, *a, **k): pass
        def count(self, *a, **k): pass
        def violation(self, what, c, detail): self.violations.append({"what": what, "case": c, "detail": detail})
    stub = Stub()
    scen = option_scenarios(freq, ds, kw)[case["scenario"]]
    for attempt in range(30):         # folding positions are random; the other paths are deterministic
        run_option_case(stub, R, freq, ds, kw, case["scenario"], scen, random.Random(attempt))
    failing = [x for x in stub.violations if x["case"]["path"] == case["path"]]
    for x in failing[:1]:
        print("still failing:", x["what"], "| text:", repr(x["case"]["text"]), "| options:", x["case"]["opts"])
    return not failing
