"""C12 — recurrence queries agree with the listed sequence."""
import datetime, sys
import basecorr, rrlib
from rrlib import q_wire, impl_query, py_query, ints, ilist

PROP = "C12"
TRUSTED = [
    "Model/Queries.lean mirrors rrulebase.__getitem__/__contains__/count/before/after/xafter/between (rrule.py 151-306) "
    "loop by loop; tied by the query.gen / query.fast / query.run correspondence ops on real rrule and rruleset objects",
    "itertools.islice is standard library: modelled from its documentation (Queries.islice), validated by the same ops",
    "Python list indexing/slicing is modelled by Py.getIdx / Py.slice (Base/Py.lean), validated against CPython lists by the query.spec op",
    "the underlying recurrence is abstracted to an arbitrary strictly increasing finite list (rrule itself is C01's model)",
]
ASSUMPTIONS = [
    "the recurrence yields a finite strictly increasing sequence (C01 for rrule, C10 for rruleset); infinite rules are outside C12's statement",
    "replace(): the method itself is TRANSLATED from the source on every run (harness/translate_replace.py -> Gen.replaceProgram; replace_eq_construct_partial; "
    "validated by query.replace_gen); the `_original_rule` bookkeeping of rrule.__init__ is the hand model RRule.origArgs (C01). "
    "Proved on C01's constructor model (replace = construct(origArgs (+) kw), replace() = r); tied to the code by query.replace from the "
    "ORIGINAL constructor arguments; the literal bysetpos=() is excluded from replace_nothing_id (stored as (), not recorded, rebuilt as None)",
    "datetimes are mapped to integers (seconds since 2020-01-01) order-isomorphically; comparison of datetimes is CPython's",
]
RULE = ("rules: SECONDLY/MINUTELY/HOURLY/DAILY/WEEKLY with interval, byweekday, bounded by COUNT 0..14, by UNTIL (at an occurrence, +-1 s, between "
        "occurrences, at/before dtstart) or by COUNT+UNTIL, and rrulesets of them; every pool contains UNTIL, UNTIL+-1 s, dtstart, dtstart-1 s, both ends "
        "of the sequence with their neighbours, index -1 and slices ending at the end; "
        "queries: every slice triple (a,b,c) in (-7..7 u None)^3 on lengths 0,1,5,10,12; every index in -n-2..n+2; "
        "instants = elements, +-1 s neighbours, far before/after; inc both ways; xafter counts None,-1..n+1; "
        "each on cache off / cache on fresh / cache on complete, and random query histories on one cached object. "
        "distinct = distinct (L, query, mode); non-trivial = the query returned a value (not an exception)")

MODES = ("off", "fresh", "complete")


PARAMS = {}        # family label -> constructor keywords (JSON form) of single-rule families, for replay
SPECIAL = {}       # family label -> instants that every query pool of that family must contain (UNTIL, UNTIL +- 1 s, dtstart, ...)


def rule_family(ctx, rng, nrand):
    """[(label, factory(cache)->rule)]; count-bounded, UNTIL-bounded and COUNT+UNTIL rules, and sets of them"""
    from dateutil import rrule as R
    fams = []

    def add_rule(p, special=()):
        label = "rrule %r" % sorted((k, str(v)) for k, v in p.items())
        fams.append((label, (lambda p: lambda cache: rrlib.make_rule(p, cache))(p)))
        SPECIAL[label] = list(special)
        PARAMS[label] = rrlib.params_record(p)
    for n in (0, 1, 2, 5, 9, 10, 11, 12):
        fams.append(("stepped n=%d" % n, (lambda n: lambda cache: rrlib.stepped(n, cache, step=3, start=0))(n)))
    # UNTIL exactly at the last occurrence (inclusive), one second either side, at / before dtstart; and COUNT+UNTIL
    for n in (1, 2, 5, 10, 11):
        last = 3 * (n - 1)
        for u in (last, last + 1, last - 1):
            add_rule(dict(freq=R.SECONDLY, dtstart=rrlib.to_dt(0), interval=3, until=rrlib.to_dt(u)), [u, u - 1, u + 1, 0, -1, last])
        add_rule(dict(freq=R.SECONDLY, dtstart=rrlib.to_dt(0), interval=3, until=rrlib.to_dt(last), count=n + 2), [last, last + 1, 0, -1])
        add_rule(dict(freq=R.SECONDLY, dtstart=rrlib.to_dt(0), interval=3, until=rrlib.to_dt(last + 30), count=n), [last, last + 30, 0, -1])
    add_rule(dict(freq=R.DAILY, dtstart=rrlib.to_dt(86400), until=rrlib.to_dt(86399)), [86400, 86399])          # UNTIL before DTSTART: empty
    add_rule(dict(freq=R.DAILY, dtstart=rrlib.to_dt(86400), until=rrlib.to_dt(86400)), [86400, 86399, 86401])   # UNTIL = DTSTART: one
    tu_th = dict(freq=R.WEEKLY, byweekday=(R.TU, R.TH), dtstart=rrlib.to_dt(36 * 86400 + 9 * 3600), until=rrlib.to_dt(59 * 86400 + 9 * 3600))
    add_rule(tu_th, [59 * 86400 + 9 * 3600, 59 * 86400 + 9 * 3600 - 1, 59 * 86400 + 9 * 3600 + 1, 36 * 86400 + 9 * 3600, 36 * 86400 + 9 * 3600 - 1])
    for _ in range(nrand):
        p = rrlib.random_rule_params(rng)
        add_rule(p)
        for q, special in rrlib.until_variants(rng, p, 2):
            add_rule(q, special)
    # COUNT cut short by datetime.MAXYEAR (count() on a fresh object must be len(list(rule)), not COUNT), and calendar rules with
    # several occurrences per period that cross a year boundary (masks rebuilt mid-sequence)
    for _ in range(max(2, nrand // 4)):
        add_rule(rrlib.maxyear_rule_params(rng))
        add_rule(rrlib.calendar_rule_params(rng))
    for _ in range(max(2, nrand // 3)):
        ps = [rrlib.random_rule_params(rng, 8) for _ in range(rng.randint(0, 2))]
        if rng.random() < 0.25:
            ps.append(rng.choice([rrlib.maxyear_rule_params, rrlib.calendar_rule_params])(rng))
        special = []
        if ps and rng.random() < 0.6:
            q, special = rrlib.until_variants(rng, ps[0], 1)[0]
            ps[0] = q
        ds = [rng.choice([0, 5, 3600, 86400, 90000, 7777]) for _ in range(rng.randint(0, 3))]
        xs = [rng.choice([0, 3600, 86400, 172800]) for _ in range(rng.randint(0, 2))]

        def mk(cache, ps=ps, ds=ds, xs=xs):
            s = R.rruleset(cache=cache)
            for p in ps:
                s.rrule(rrlib.make_rule(p, False))
            for d in ds:
                s.rdate(rrlib.to_dt(d))
            for x in xs:
                s.exdate(rrlib.to_dt(x))
            return s
        label = "rruleset %r rules %r dates %r exdates" % ([sorted((k, str(v)) for k, v in p.items()) for p in ps], ds, xs)
        fams.append((label, mk))
        SPECIAL[label] = list(special)
    return fams


def query_pool(rng, L, full_slices, special=()):
    n = len(L)
    qs = [("all",), ("cnt",)]
    qs += [("idx", i) for i in range(-n - 2, n + 3)]
    qs += [("take", k) for k in range(0, n + 2)]
    if full_slices:
        qs += rrlib.all_slice_triples()
    else:
        qs += [rrlib.random_query(rng, L) for _ in range(40)]
        qs += [("sl", a, b, c) for a in (None, 0, 2, -1) for b in (None, 0, 3, -2) for c in (None, 1, 2, -1, 0)]
        qs += [("sl", a, None, c) for a in (-3, -1, n - 1, n) for c in (None, 1, 2)] + [("sl", a, n, None) for a in (0, -2, n - 1)]   # slices ending at the end
    # bounds around sys.maxsize: itertools.islice rejects anything above it; __getitem__ clamps (fix a0cc6d1) — kept so that a revert is caught
    B = 2 ** 63
    qs += [("sl", 0, B, None), ("sl", B, None, None), ("sl", None, None, B), ("sl", 1, B - 1, None), ("sl", -1, B, None),
           ("sl", 0, 2 * B, 2), ("sl", None, B, -1), ("idx", B), ("idx", -B)]
    pts = sorted(set(sum([[x - 1, x, x + 1] for x in L], [])) | {-10 ** 7, 10 ** 9})
    # always present: both ends of the sequence with their neighbours, and the family's special instants (UNTIL, dtstart, ...)
    must = set(special)
    if L:
        must |= {L[0], L[0] - 1, L[-1], L[-1] - 1, L[-1] + 1}
    if len(pts) > 12:
        pts = rng.sample(pts, 12)
    pts = sorted(set(pts) | must)
    for t in pts:
        for inc in (False, True):
            qs += [("in", t), ("bef", t, inc), ("aft", t, inc)]
            for c in (None, 0, 1, 2, n, -1):
                qs.append(("xaf", t, c, inc))
    for _ in range(30):
        a, b = rng.choice(pts), rng.choice(pts)
        qs.append(("btw", a, b, rng.random() < 0.5))
    for b in sorted(must):
        for inc in (False, True):
            qs.append(("btw", -10 ** 7, b, inc))
            if L:
                qs.append(("btw", L[0], b, inc))
    return qs


def run_mode(factory, mode, q):
    """fresh object per evaluation for the cached modes so that every evaluation starts from the named state"""
    if mode == "off":
        r = factory(False)
    elif mode == "fresh":
        r = factory(True)
    else:
        r = factory(True)
        try:
            list(r)
        except Exception:
            pass                      # shows up in the query's own answer
    return impl_query(r, q), r


def correspondence(ctx):
    basecorr.run(ctx)
    rng = ctx.subrng("corr")
    fams = rule_family(ctx, rng, ctx.budget(6, 16))
    reqs, exp, meta = [], [], []
    for idx, (label, fac) in enumerate(fams):
        L = ints(list(fac(False)))
        full = label.startswith("stepped") and len(L) in ((1, 5, 10, 12) if ctx.tier == "thorough" or ctx.escalated else (1, 5, 12))
        for q in query_pool(rng, L, full, SPECIAL.get(label, ())):
            ref = py_query(L, q)
            for mode in MODES:
                out, _ = run_mode(fac, mode, q)
                op = "query.fast" if mode == "complete" else "query.gen"
                reqs.append("%s %s %s" % (op, ilist(L), q_wire(q))); exp.append(out); meta.append((label, mode))
                if out != ref:        # Python-side reference: judged by the oracle whatever the model says
                    ctx._c12_bad = getattr(ctx, "_c12_bad", [])
                    ctx._c12_bad.append((label, L, q, mode, out, ref))
            # the list model itself against CPython lists
            reqs.append("query.spec %s %s" % (ilist(L), q_wire(q))); exp.append(ref); meta.append((label, "pylist"))
    got = ctx.driver(reqs)
    for r, e, g, m in zip(reqs, exp, got, meta):
        if e != g:
            ctx.mismatch(r.split()[0], {"request": r, "rule": m[0], "mode": m[1]}, e, g)
    ctx.traces += len(reqs)
    ctx.count("corr_query_evaluations", len(reqs))
    # histories on one cached object through the cached-iterator machine (query.run)
    try:
        import props.c11 as c11
    except Exception:
        c11 = None
    if c11 is not None and hasattr(c11, "history_correspondence"):
        c11.history_correspondence(ctx, rng, ctx.budget(300, 1500))
    corr_replace(ctx, rng)


def oracle(ctx):
    """every query on the implementation against Python list semantics of list(uncached rule)"""
    rng = ctx.subrng("oracle")
    # first: what the correspondence ran, against the Python-side reference (impl != model = spec is a failing input)
    for label, L, q, mode, out, ref in getattr(ctx, "_c12_bad", []):
        ctx.case((tuple(L), q, mode, "corr"), nontrivial=out.startswith("ok"))
        ctx.violation("%s on %s (cache %s): implementation %s, list semantics %s" % (q_wire(q), label, mode, out, ref),
                      {"kind": "query", "L": L, "q": list(q), "mode": mode, "label": label, "origin": "correspondence", "params": PARAMS.get(label)}, {"impl": out, "list": ref})
    try:
        import props.c11 as c11
        c11.judge_query_histories(ctx)
    except Exception as ex:
        ctx.note("query histories of the correspondence not re-judged: %r" % (ex,))
    fams = rule_family(ctx, rng, ctx.budget(10, 30))
    seeds = [m["input"] for m in ctx.mismatches if isinstance(m.get("input"), dict)]
    if seeds:
        ctx.note("oracle seeded with %d correspondence mismatches (same generators, thorough budget)" % len(seeds))
    for label, fac in fams:
        L = ints(list(fac(False)))
        full = label.startswith("stepped") and len(L) in ((0, 1, 5, 10, 12) if ctx.tier == "thorough" or ctx.escalated else (0, 5, 10))
        for q in query_pool(rng, L, full, SPECIAL.get(label, ())):
            want = py_query(L, q)
            for mode in MODES:
                got, _ = run_mode(fac, mode, q)
                ctx.case((tuple(L), q, mode), nontrivial=got.startswith("ok"))
                ctx.count("q_" + q[0]); ctx.count("mode_" + mode)
                if not got.startswith("ok"):
                    ctx.count("raised_" + got.split()[1])
                if got != want:
                    ctx.violation("%s on %s (cache %s): implementation %s, list semantics %s" % (q_wire(q), label, mode, got, want),
                                  {"kind": "query", "L": L, "q": list(q), "mode": mode, "label": label, "params": PARAMS.get(label)}, {"impl": got, "list": want})
        # histories: random query order on ONE object, cached or not; every other one starts with a partial query
        # (index, early exit, abandoned iteration) followed by count() / len-dependent queries
        for hno in range(ctx.budget(4, 10)):
            hcache = rng.random() < 0.5
            r = fac(hcache)
            hist = []
            import props.c11 as c11
            script = c11.partial_then_len(rng, L) if hno % 2 == 0 else []
            for _ in range(rng.randint(2, 8)):
                q = script.pop(0) if script else rrlib.random_query(rng, L)
                got, want = impl_query(r, q), py_query(L, q)
                hist.append(list(q))
                ctx.case((tuple(L), tuple(map(tuple, hist))), nontrivial=got.startswith("ok"))
                ctx.count("history_queries")
                if got != want:
                    ctx.violation("history %s on %s (cache=%s): %s gave %s, list semantics %s" % (hist, label, hcache, q_wire(q), got, want),
                                  {"kind": "history", "L": L, "history": hist, "label": label, "cache": hcache, "params": PARAMS.get(label)}, {"impl": got, "list": want})
                    break
    live_iterator_histories(ctx, rng)
    oracle_replace(ctx, rng)
    ctx.sample({"L": [0, 3, 6, 9, 12], "q": "sl:-3:-:2", "impl": run_mode(lambda c: rrlib.stepped(5, c, 3), "off", ("sl", -3, None, 2))[0]})
    ctx.sample({"L": [0, 3, 6, 9, 12], "q": "sl:-:-:0", "impl": run_mode(lambda c: rrlib.stepped(5, c, 3), "fresh", ("sl", None, None, 0))[0]})
    ctx.sample({"L": [0, 3, 6, 9, 12], "q": "btw:3:9:1", "impl": run_mode(lambda c: rrlib.stepped(5, c, 3), "complete", ("btw", 3, 9, True))[0]})


def live_iterator_histories(ctx, rng):
    """answers do not depend on which queries ran before NOR on iterators that are still alive: live iterators over a rule (cached or
    not) interleaved with queries on the same object, and two sets sharing one rule object walked alternately.  Every iterator must
    list exactly L and every query must be the list-semantics answer, whatever the interleaving."""
    from dateutil import rrule as R
    import itertools
    for i in range(ctx.budget(120, 1200)):
        p = rrlib.calendar_rule_params(rng) if i % 3 else rng.choice([rrlib.random_rule_params, rrlib.maxyear_rule_params])(rng)
        cache = rng.random() < 0.3
        shape = rng.choice(["rule", "rule", "two-sets", "set-twice"])
        objs, exp = live_objects(p, cache, shape, [rng.random() < 0.3, rng.random() < 0.3])
        its = []            # [object index, iterator, received]
        script = []
        ok = True
        for step in range(rng.randint(3, 10)):
            r = rng.random()
            if r < 0.3 or not its:
                o = rng.randrange(len(objs))
                its.append([o, iter(objs[o]), []])
                script.append("open%d" % o)
                act = ("next", len(its) - 1, rng.randint(0, 3))
            elif r < 0.65:
                act = ("next", rng.randrange(len(its)), rng.choice([1, 1, 2, 3, 100]))
            else:
                o = rng.randrange(len(objs))
                q = rng.choice([("cnt",), ("all",), ("idx", -1), rrlib.random_query(rng, exp[o]), rrlib.random_query(rng, exp[o])])
                act = ("q", o, q)
            if act[0] == "next":
                ent = its[act[1]]
                try:
                    got = ints(list(itertools.islice(ent[1], act[2])))
                except Exception as ex:
                    got = "err " + type(ex).__name__
                script.append("it%d+%d" % (act[1], act[2]))
                want = exp[ent[0]][len(ent[2]):len(ent[2]) + act[2]]
                if got != want:
                    ok = False
                    what = "iterator %d (over object %d) continued with %s, the listed sequence continues with %s" % (act[1], ent[0], got, want)
                    break
                ent[2] += got
            else:
                got, want = impl_query(objs[act[1]], act[2]), py_query(exp[act[1]], act[2])
                script.append("q%d:%s" % (act[1], q_wire(act[2])))
                if got != want:
                    ok = False
                    what = "%s on object %d gave %s, list semantics %s" % (q_wire(act[2]), act[1], got, want)
                    break
        ctx.case(("live", shape, repr(sorted((k, str(v)) for k, v in p.items())), cache, tuple(script)), nontrivial=True)
        ctx.count("live_iterator_histories"); ctx.count("live_shape_" + shape)
        if not ok:
            ctx.violation("live iterators and queries over %s (%s, rule cache=%s), steps %s: %s" % (shape, p, cache, ",".join(script), what),
                          {"kind": "live", "shape": shape, "params": rrlib.params_record(p), "cache": cache, "script": script,
                           "set_caches": [o._cache is not None for o in objs]}, None)


def live_objects(p, cache, shape, set_caches):
    from dateutil import rrule as R
    L = ints(list(rrlib.make_rule(p, False)))
    rule = rrlib.make_rule(p, cache)
    if shape == "rule":
        return [rule], [L]
    if shape == "two-sets":
        a, b = R.rruleset(cache=set_caches[0]), R.rruleset(cache=set_caches[1])
        a.rrule(rule); b.rrule(rule)
        extra = (L[0] if L else 0) - 86400 * 400
        b.rdate(rrlib.to_dt(extra))
        return [a, b, rule], [L, sorted(set(L + [extra])), L]
    a = R.rruleset(cache=set_caches[0])
    a.rrule(rule); a.rrule(rule)
    x = L[len(L) // 2] if L else 0
    a.exdate(rrlib.to_dt(x))
    return [a], [[v for v in L if v != x]]


def replay_live(c):
    import itertools
    objs, exp = live_objects(rrlib.params_rebuild(c["params"]), c["cache"], c["shape"], c.get("set_caches") or [False, False, False])
    its = []
    ok = True
    for tok in c["script"]:
        if tok.startswith("open"):
            o = int(tok[4:])
            its.append([o, iter(objs[o]), []])
        elif tok.startswith("it"):
            j, k = tok[2:].split("+")
            ent = its[int(j)]
            try:
                got = ints(list(itertools.islice(ent[1], int(k))))
            except Exception as ex:
                got = "err " + type(ex).__name__
            want = exp[ent[0]][len(ent[2]):len(ent[2]) + int(k)]
            print("replay %s: got %s, the listed sequence continues with %s" % (tok, got, want))
            if got != want:
                return False
            ent[2] += got
        else:
            o, qt = tok[1:].split(":", 1)
            q = rrlib.q_parse(qt)
            got, want = impl_query(objs[int(o)], q), py_query(exp[int(o)], q)
            print("replay %s: impl=%s list=%s" % (tok, got, want))
            if got != want:
                return False
    return ok


def oracle_replace(ctx, rng):
    """replace(): a rule differing only in the named parameters (compared through what it yields and its recorded arguments)"""
    from dateutil import rrule as R
    # targeted: a plain rule's weekday / month day / month follow a replaced dtstart
    for freq in (R.YEARLY, R.MONTHLY, R.WEEKLY, R.DAILY, R.HOURLY):
        for cache in (False, True):
            for delta in list(range(1, 9)) + [40]:
                d0 = datetime.datetime(2021, 3, 3, 4, 5, 6)
                d1 = d0 + datetime.timedelta(days=delta)
                r = R.rrule(freq, dtstart=d0, count=4, cache=cache)
                if cache:
                    list(r)
                got = [str(x) for x in r.replace(dtstart=d1)]
                want = [str(x) for x in R.rrule(freq, dtstart=d1, count=4)]
                ctx.case(("replace-dtstart", freq, cache, delta))
                ctx.count("replace_targeted")
                if got != want:
                    ctx.violation("rrule(%s, dtstart=%s, count=4).replace(dtstart=%s) yields %s, the rule built with the new dtstart yields %s"
                                  % (R.FREQNAMES[freq], d0, d1, got, want),
                                  {"kind": "replace", "params": {"freq": freq, "dtstart": str(d0), "count": 4}, "kw": {"dtstart": str(d1)}},
                                  {"impl": got, "merged": want})
    # every scalar attribute that is not named survives replace() — checked on the attributes themselves (a lost UNTIL would make
    # the listing infinite), on UNTIL-bounded, COUNT-bounded and COUNT+UNTIL rules, cache on and off
    for i in range(ctx.budget(40, 300)):
        p0 = rrlib.random_rule_params(rng)
        variants = [(p0, [])] + rrlib.until_variants(rng, p0, 2)
        for p, _sp in variants:
            cache = rng.random() < 0.5
            r = rrlib.make_rule(p, cache)
            name = rng.choice(["interval", "wkst", "byhour", "freq", "dtstart", "count", "until"])
            kw = {"interval": {"interval": p["interval"]}, "wkst": {"wkst": rng.randint(0, 6)}, "byhour": {"byhour": (p["dtstart"].hour,)},
                  "freq": {"freq": p["freq"]}, "dtstart": {"dtstart": p["dtstart"]}, "count": {"count": p.get("count")},
                  "until": {"until": p.get("until")}}[name]
            import warnings
            with warnings.catch_warnings():
                warnings.simplefilter("ignore")
                try:
                    r2 = r.replace(**kw)
                    got = {"interval": r2._interval, "count": r2._count, "dtstart": r2._dtstart, "freq": r2._freq, "until": r2._until,
                           "wkst": r2._wkst if "wkst" not in kw else None, "cache": r2._cache is not None}
                except Exception as ex:
                    got = "err " + type(ex).__name__
            want = {"interval": r._interval, "count": r._count, "dtstart": r._dtstart, "freq": r._freq, "until": r._until,
                    "wkst": r._wkst if "wkst" not in kw else None, "cache": cache}
            ctx.case(("replace-attrs", repr(sorted((k, str(v)) for k, v in p.items())), name, cache))
            ctx.count("replace_scalar_attributes")
            if got != want:
                ctx.violation("rrule(%r, cache=%s).replace(%r): scalar attributes of the new rule %s, of the original %s" % (p, cache, kw, got, want),
                              {"kind": "replace-attrs", "params": rrlib.params_record(p), "kw": rrlib.params_record(kw), "cache": cache}, None)
    # count() asked FIRST on a fresh / replace()d rule whose COUNT is cut short by year 9999
    for i in range(ctx.budget(12, 60)):
        p = rrlib.maxyear_rule_params(rng)
        kw = rng.choice([{"interval": p.get("interval", 1)}, {"count": p["count"] + rng.randint(0, 5)}, {"wkst": rng.randint(0, 6)}])
        for cache in (False, True):
            q = dict(p); q.update(kw)
            try:
                n = len(list(rrlib.make_rule(q, False)))
            except ValueError:
                # list(rule) itself raises (WEEKLY near year 9999 with a week start after the start's weekday: "year 10000 is out of
                # range" — a C01 matter, reported to the C01 builder): not a finite rule, outside C12's statement
                ctx.count("count_first_rule_not_listable")
                continue
            fresh = rrlib.make_rule(q, cache).count()
            rep = rrlib.make_rule(p, cache).replace(**kw).count()
            ctx.case(("count-first", repr(sorted((k, str(v)) for k, v in q.items())), cache))
            ctx.count("count_first_maxyear")
            if fresh != n or rep != n:
                ctx.violation("count() asked first on rrule(%r) (cache=%s): fresh object %r, replace(%r) of rrule(%r) %r, len(list(rule)) = %d"
                              % (q, cache, fresh, kw, p, rep, n),
                              {"kind": "count-first", "params": rrlib.params_record(p), "kw": rrlib.params_record(kw), "cache": cache},
                              {"fresh": fresh, "replaced": rep, "len": n})
    for _ in range(ctx.budget(150, 1500)):
        p = rrlib.random_rule_params(rng)
        kw = {}
        for k in rng.sample(["count", "interval", "dtstart", "freq", "byweekday", "wkst"], rng.randint(1, 3)):
            kw[k] = {"count": rng.randint(0, 9), "interval": rng.randint(1, 4), "dtstart": rrlib.to_dt(rng.choice([0, 86400, 7200])),
                     "freq": rng.choice([R.DAILY, R.HOURLY, R.WEEKLY]), "byweekday": (rng.randint(0, 6),), "wkst": rng.randint(0, 6)}[k]
        if "byweekday" in kw and kw.get("freq", p["freq"]) not in (R.DAILY, R.HOURLY, R.WEEKLY):
            del kw["byweekday"]                     # keep the generated rules cheap to iterate
        if "freq" in kw and "byweekday" in p and kw["freq"] not in (R.DAILY, R.HOURLY, R.WEEKLY):
            del kw["freq"]
        if not kw:
            kw["count"] = rng.randint(0, 9)
        if ("byweekday" in kw or "byweekday" in p) and kw.get("interval", p["interval"]) % 7 == 0:
            kw["interval"] = 2
        cache = rng.random() < 0.5
        r = rrlib.make_rule(p, cache)
        if rng.random() < 0.5:
            try:
                list(r)
            except Exception:
                pass
        try:
            r2 = r.replace(**kw)
            n_first = r2.count() if rng.random() < 0.5 else None           # count() before anything else on the new rule
            got = ints(list(r2))
            if n_first is not None and n_first != len(got):
                got = "count() first = %r, len(list) = %d" % (n_first, len(got))
        except Exception as ex:
            got = "err " + type(ex).__name__
        q = dict(p); q.update(kw)
        try:
            want = ints(list(rrlib.make_rule(q, False)))
        except Exception as ex:
            want = "err " + type(ex).__name__
        ctx.case(("replace", repr(sorted((k, str(v)) for k, v in p.items())), repr(sorted((k, str(v)) for k, v in kw.items())), cache))
        ctx.count("replace")
        if got != want:
            ctx.violation("replace(%r) of rrule(%r) differs from the rule built with the merged arguments" % (kw, p),
                          {"kind": "replace", "params": {k: str(v) for k, v in p.items()}, "kw": {k: str(v) for k, v in kw.items()}},
                          {"impl": got, "merged": want})


# ---------------------------------------------------------------- replace(): argument-level correspondence

BYK = ["bysetpos", "bymonth", "bymonthday", "byyearday", "byeaster", "byweekno", "byweekday", "byhour", "byminute", "bysecond"]


def recorded_wire(r, kind):
    """the recorded arguments of a real rule (scalar attributes + _original_rule) as the 17 tokens of rrule.* ops"""
    import vlib
    o = r._original_rule

    def ol(k):
        v = o.get(k)
        if v is None:
            return "-"
        if k == "byweekday":
            return vlib.ilist([x for w in v for x in (w.weekday, w.n or 0)])
        return vlib.ilist(list(v))
    d = r._dtstart
    u = r._until
    return [str(r._freq), str(r._interval), str(r._wkst), vlib.oint(r._count),
            "-" if u is None else vlib.ilist([u.year, u.month, u.day, u.hour, u.minute, u.second, u.microsecond]),
            vlib.ilist([d.year, d.month, d.day, d.hour, d.minute, d.second, d.microsecond]), "0"] + [ol(k) for k in BYK]


def corr_replace(ctx, rng):
    """r.replace(**kw) on real rules vs the model, from the ORIGINAL constructor arguments (query.replace:
    construct(origArgs(a, construct a) (+) kw)) and, for naive rules, also from the recorded arguments read off
    the object (query.replace_rec)"""
    import warnings
    import props.c01 as c01
    reqs, exp = [], []
    tries = 0
    pos = {"freq": 0, "interval": 1, "wkst": 2, "count": 3, "dtstart": 5}
    pos.update({k: 7 + i for i, k in enumerate(BYK)})
    # targeted: plain rules (no BY part: weekday / month day / month are DERIVED from dtstart and must not be
    # recorded) with dtstart replaced by each of the next 8 days and by a day in another month
    targeted = []
    for freq in range(7):
        for delta in list(range(1, 9)) + [40]:
            targeted.append((freq, delta))
    tq = list(targeted)
    while (tq or len(reqs) < ctx.budget(500, 5000)) and tries < 40000:
        tries += 1
        c = c01.gen_case(rng)
        c2 = c01.gen_case(rng)
        forced = None
        if tq:
            freq, delta = tq.pop()
            for cc in (c, c2):
                cc.update({k: None for k in BYK})
                cc.update({"kind": "naive", "until": None, "freq": freq, "interval": 1, "count": 3, "wkst": None})
            d0 = datetime.datetime(2021, 3, 3, 4, 5, 6)
            d1 = d0 + datetime.timedelta(days=delta)
            c["dtstart"] = [d0.year, d0.month, d0.day, d0.hour, d0.minute, d0.second, 0]
            c2["dtstart"] = [d1.year, d1.month, d1.day, d1.hour, d1.minute, d1.second, 0]
            forced = ["dtstart"]
        try:
            with warnings.catch_warnings():
                warnings.simplefilter("ignore")
                r = c01.build(c)
        except Exception:
            continue
        pool = ["freq", "interval", "wkst", "count"] + BYK
        if c["kind"] == "naive" and c2["kind"] == "naive":
            pool += ["dtstart", "dtstart"]
        keys = forced or rng.sample(pool, rng.randint(0, 3))
        kw2 = c01.kwargs_of(c2)
        kw_py, kwt = {}, ["_"] * 17
        w2 = c01.wire(c2).split()
        for k in keys:
            if k == "freq":
                kw_py["freq"] = c2["freq"]
            elif k in kw2:
                kw_py[k] = kw2[k]
            else:
                kw_py[k] = None
            kwt[pos[k]] = w2[pos[k]]
            if k == "dtstart":
                kwt[6] = w2[6]
        if "count" in kw_py and kw_py["count"] is not None and r._until is not None:
            continue                                    # count+until: deprecation warning path, not part of the claim
        if c.get("bysetpos") is not None and len(c["bysetpos"]) == 0:
            ctx.count("replace_bysetpos_empty_literal")
        try:
            with warnings.catch_warnings():
                warnings.simplefilter("ignore")
                out = "ok " + c01.impl_rule_dump(r.replace(**kw_py))
        except Exception as ex:
            out = "err " + type(ex).__name__
        reqs.append("query.replace %s %s" % (c01.wire(c), " ".join(kwt)))
        exp.append(out)
        if c["kind"] == "naive" and not c.get("until_isdate"):
            reqs.append("query.replace_rec %s %s" % (" ".join(recorded_wire(r, c["kind"])), " ".join(kwt)))
            exp.append(out)
            # … and through the program translated from the source of rrule.replace (Gen.replaceProgram)
            reqs.append("query.replace_gen %s %s" % (" ".join(recorded_wire(r, c["kind"])), " ".join(kwt)))
            exp.append(out)
        ctx.count("replace_keys_%d" % len(keys))
        for k in keys:
            ctx.count("replace_kw_" + k)
    got = ctx.driver(reqs)
    for q, e, g in zip(reqs, exp, got):
        if e != g:
            ctx.mismatch(q.split()[0], {"request": q}, e, g)
    ctx.traces += len(reqs)
    ctx.count("corr_replace_cases", len(reqs))


KNOWN = {}


def replay(ctx, payload):
    c = payload["violation"]["case"]
    if c.get("kind") == "query":
        q = tuple(c["q"]); L = c["L"]
        # rebuild the sequence as explicit rdates of a set (same list), evaluate in the recorded mode
        from dateutil import rrule as R

        def fac(cache):
            if c.get("params"):
                return rrlib.make_rule(rrlib.params_rebuild(c["params"]), cache)      # the very rule of the failing case
            s = R.rruleset(cache=cache)
            for x in L:
                s.rdate(rrlib.to_dt(x))
            return s
        got, _ = run_mode(fac, c["mode"], q)
        want = py_query(L, q)
        print("replay %s on L=%s mode=%s: impl=%s list=%s" % (q_wire(q), L, c["mode"], got, want))
        return got == want
    if c.get("kind") == "history":
        from dateutil import rrule as R
        L = c["L"]
        if c.get("params"):
            s = rrlib.make_rule(rrlib.params_rebuild(c["params"]), c.get("cache", True))
        else:
            s = R.rruleset(cache=c.get("cache", True))
            for x in L:
                s.rdate(rrlib.to_dt(x))
        ok = True
        for q in c["history"]:
            q = tuple(q)
            got, want = impl_query(s, q), py_query(L, q)
            print("replay %s: impl=%s list=%s" % (q_wire(q), got, want))
            ok = ok and got == want
        return ok
    if c.get("kind") == "qhist":
        import props.c11 as c11
        return c11.replay(ctx, payload)
    if c.get("kind") == "count-first":
        p, kw = rrlib.params_rebuild(c["params"]), rrlib.params_rebuild(c["kw"])
        q = dict(p); q.update(kw)
        n = len(list(rrlib.make_rule(q, False)))
        fresh = rrlib.make_rule(q, c["cache"]).count()
        rep = rrlib.make_rule(p, c["cache"]).replace(**kw).count()
        print("replay count() first: fresh %r, replace()d %r, len(list(rule)) %d" % (fresh, rep, n))
        return fresh == n and rep == n
    if c.get("kind") == "live":
        return replay_live(c)
    if c.get("kind") == "replace-attrs":
        import warnings
        p, kw = rrlib.params_rebuild(c["params"]), rrlib.params_rebuild(c["kw"])
        with warnings.catch_warnings():
            warnings.simplefilter("ignore")
            r = rrlib.make_rule(p, c["cache"])
            r2 = r.replace(**kw)
        a = (r._interval, r._count, r._dtstart, r._freq, r._until, r._cache is not None)
        b = (r2._interval, r2._count, r2._dtstart, r2._freq, r2._until, r2._cache is not None)
        print("replay replace(%r): original (interval, count, dtstart, freq, until, cache) %s, new %s" % (kw, a, b))
        return a == b or any(k in kw for k in ("interval", "count", "dtstart", "freq", "until"))
    print("replay: unsupported case kind", c.get("kind"))
    return False
