"""C16 — relativedelta is a well-behaved value: normalised, comparable, hashable."""
import builtins, datetime, fractions, math
import basecorr
from props import rdlib as L

PROP = "C16"
TRUSTED = [
    "harness/translate_rd.py (RDPy translator; runtime primitives Model/RDPy.lean) RE-TRANSLATES from /repo's relativedelta.py "
    "into Generated/RDOps.lean on every run: __add__ (three Lean functions: date/datetime, relativedelta and timedelta "
    "operand - isinstance on the declared operand type is decided statically), __radd__, __rsub__, __neg__, __abs__, __sub__, "
    "__mul__ (integer scalar; float() / int() are the identity on the integer domain; and a second translation for a DYADIC float "
    "factor m/2^k: int(field * f) = the quotient field*m / 2^k truncated toward zero), __div__ (divisor +-2^k: 1/float(other) is exact), "
    "normalized() (integer fields: round / int are the identity, every remainder is 0), __bool__, __eq__, __hash__ (the tuple), "
    "and both branches of __init__ (keyword constructor incl. the unrolled ydayidx scan and the weekday coercion; "
    "relativedelta(dt1, dt2) incl. the while loop as a fuel-bounded recursion); _fix / _set_months as before "
    "(translate.py). Anything outside the fragment aborts with a named construct (broken tie). Proofs/RDGenEq.lean proves "
    "Gen.f = model f for: addDt = applyTo, raddDt, rsubDt, neg, abs, addRd, subRd, addTd, mulInt, mulDy = mulDyadic, divPow2, "
    "normalized = normalizedInt (Proofs/RDScale.lean), bool, eq, hashKey, "
    "initDiff = diffN (out of fuel = NotImplemented), initKw = mk for EVERY keyword set (initKw_eq: yearday / nlyearday "
    "scan, integer / object weekday, the ValueError and IndexError branches); the `_gen` theorems of the Audit file restate the property theorems over the generated definitions",
    "STILL HAND-MODELLED, tied by sampling only: (a) the named primitives of Model/RDPy.lean = CPython behaviour "
    "(calendar.monthrange / isleap, date/datetime.replace incl. its C-int and range errors, datetime.timedelta(...), "
    "x + timedelta, x.weekday(), isinstance(x, datetime), datetime.fromordinal(d.toordinal()), <, > and - between "
    "date/datetime objects incl. the same-object / UTC rule, timedelta.days/.seconds/.microseconds, weekdays[i], "
    "attributes of a weekday object, `a or b`, truthiness of Optional values), exercised by rdgen.* on every run; "
    "(b) __repr__, the `weeks` property and its setter (hand model RDH.weeksOf / setWeeks, ops rd.weeks / rd.setweeks / rd.hist), "
    "__div__ by anything but +-2^k, `*` by non-dyadic floats, float-valued FIELDS and normalized() of them (not translated; "
    "the dyadic primitives RDPy.Dy / intMulDy / truncDy / recipPow2 are the exact reading of IEEE double arithmetic, valid while "
    "|field*m| < 2**53: the correspondence stays inside that range). The hashed tuple is "
    "translated element by element in source order (hashList) and captured in the same order from the implementation",
    "the translator itself is validated on every run: every correspondence request to a hand-model op (rd.add, rd.rsub, "
    "rd.mk, rd.expr, rd.bool, rd.hash, rd.eq, rd.diff, rd.diffn, rd.diffo, rd.muldy, rd.divp2, rd.normalized) is repeated against the generated definition "
    "(rdgen.*) and compared with the implementation",
    "Generated/RDKernels.lean (Gen.fix, Gen.setMonths) is re-translated from relativedelta._fix/_set_months on every run; "
    "the normalisation theorems are stated about that translation; the translator is validated on every run by rd.fix / "
    "rd.setmonths on raw object states (attributes set directly, then _fix() called)",
    "Model/RelativeDelta.lean (mk, add, sub, neg, abs, addTimedelta, mulInt, bool, eq, hashKey) is hand-written and tied by "
    "the correspondence ops rd.mk / rd.expr (random expression trees) / rd.bool / rd.eq / rd.hash, and rd.add (applyTo, on the values and their weekday n re-spellings: what eq_applyTo rests on); the tuple passed to "
    "hash() is captured in-process (module-level name `hash` shadowed for the duration of the call) and compared with hashKey",
    "the ydayidx literal of __init__ is read from the working tree's AST and compared with the model's table (rd.ydayidx)",
    "PROVED since the dyadic extension (theorems gen_scale_eq_model, mulDyadic_spec, mulDyadic_exact, mulDyadic_int, "
    "normalized_spec): on INTEGER-valued records `*` by any m/2^k (all integers, 0.5, 1.5, 0.25 ...), `/` by +-2^k and "
    "normalized(). EXECUTABLE-ONLY, NOT PROVED: float-valued day/hour/... FIELDS, `*` and `/` by other floats (0.1, 1/3, / 3) "
    "and normalized() of fractional fields are checked only "
    "by the oracle directly on the implementation (algebraic laws: integer-valued normal form, bounds, total preserved "
    "within 2 microseconds, exact agreement with int(field*f) recomputed in Python); no Lean theorem covers them",
    "why no Lean theorem for float scalars: in Lean 4.33 Float + - * / and Float.ofInt reduce in the kernel on literals, but the "
    "truncation int(x) (Float.toInt64 / floor / round) is opaque, so `int(field * f)` cannot even be evaluated, let alone "
    "quantified; instead the oracle's scalar stream covers 0.5, 1.5, -2.5, 0.1, 1e-3, 1e-9, 1e6, 1e15, 1/3, integer-valued "
    "floats (checked against the exact integer product and through the model op `mul` in the correspondence), bool, +-0.0 "
    "(`*` clears the relative part, `/` ZeroDivisionError), +-inf (`*` OverflowError/ValueError, `/` clears) and nan (ValueError)",
    "mulInt is the exact integer product; the implementation computes int(field * float(k)), equal to it when |field*k| < 2**53 "
    "(the correspondence and the theorem C16.mulInt_total are restricted to that range)",
]
ASSUMPTIONS = [
    "integer field magnitudes below 2**1023: _sign() goes through math.copysign, so relativedelta(seconds=10**400) raises "
    "OverflowError before any value exists (observed; outside the model, reported as a remark)",
    "\"however constructed or combined\" includes the object's own history: a relativedelta is mutable (public `weeks` setter, "
    "attribute assignment).  Attribute assignment bypasses _fix, so the record may leave the normal form and _has_time may go "
    "stale - that is the code as it is and NOT required to be a value; what IS required (history streams) is that after any "
    "use/mutate sequence every observation equals the model on the CURRENT record and a fresh object with the same record, "
    "and relativedelta(**fields) whenever the record is constructor-reachable (theorems use_after_set_eq_fresh, "
    "same_mutations_same_answer, reachable_state_is_constructed, setWeeks_normalised)",
    "Python's hash of equal tuples of ints/None is equal (CPython guarantee); the theorem is about the tuple that is hashed",
    "asserts enabled (python without -O)",
]
RULE = ("seeded random: keyword-constructor arguments (boundary-biased signed ints up to 10**30, absolute fields incl. "
        "out-of-range, int/weekday/weekday(n) weekdays, yearday/nlyearday incl. invalid) and expression trees over "
        "+ - neg abs *int +timedelta; laws evaluated on the implementation for each value / pair / triple; plus float-valued "
        "fields and float scalars; distinct = distinct canonical (law, operands); non-trivial = the law's operands were "
        "constructed without error")

UNITS = {"days": 86400 * 10 ** 6, "hours": 3600 * 10 ** 6, "minutes": 60 * 10 ** 6, "seconds": 10 ** 6, "microseconds": 1}


def total_us(d):
    return sum(fractions.Fraction(getattr(d, k)) * u for k, u in UNITS.items())


def total_months(d):
    return d.years * 12 + d.months


def bounds_ok(d):
    # strict form (identical to <= 999999, 59, 59, 23, 11 on integers; the right reading for float fields)
    return (abs(d.microseconds) < 1000000 and abs(d.seconds) < 60 and abs(d.minutes) < 60 and
            abs(d.hours) < 24 and abs(d.months) < 12)


def has_time_ok(d):
    exp = 1 if (d.hours or d.minutes or d.seconds or d.microseconds or d.hour is not None or d.minute is not None
                or d.second is not None or d.microsecond is not None) else 0
    return d._has_time == exp


def fields_kw(d):
    kw = {k: getattr(d, k) for k in L.REL}
    kw.update({k: getattr(d, k) for k in L.ABS})
    kw["weekday"] = d.weekday
    return kw


# ---------------------------------------------------------------- expression trees
def g_tree(rng, depth, profile):
    """returns a nested tuple; leaves ('K', kw)"""
    if depth <= 0 or rng.random() < 0.3:
        return ("K", L.g_kw(rng, profile))
    r = rng.random()
    if r < 0.3:
        return ("add", g_tree(rng, depth - 1, profile), g_tree(rng, depth - 1, profile))
    if r < 0.5:
        return ("sub", g_tree(rng, depth - 1, profile), g_tree(rng, depth - 1, profile))
    if r < 0.65:
        return ("neg", g_tree(rng, depth - 1, profile))
    if r < 0.75:
        return ("abs", g_tree(rng, depth - 1, profile))
    if r < 0.83:
        return ("mul", g_tree(rng, depth - 1, profile), rng.choice([0, 1, -1, 2, -2, 3, 7, 12, 60, -60, rng.randint(-1000, 1000)]))
    if r < 0.88:
        # a float scalar that is an exactly representable integer: same model op (exact product while < 2**53)
        return ("mulf", g_tree(rng, depth - 1, profile), float(rng.choice([0, 1, -1, 2, -3, 10, 60, 1000, 10 ** 6, rng.randint(-1000, 1000)])))
    td = datetime.timedelta(days=rng.randint(-500, 500), seconds=rng.randint(-90000, 90000),
                            microseconds=rng.randint(-2 * 10 ** 6, 2 * 10 ** 6))
    return ("td", g_tree(rng, depth - 1, profile), td)


def max_field(d):
    return max(abs(getattr(d, k)) for k in L.REL)


class Inexact(BaseException):
    pass


def eval_tree(t, toks):
    """evaluate on the implementation in post-order, appending the RPN tokens for the model"""
    op = t[0]
    if op == "K":
        toks.append("K " + L.kw_wire(t[1]))
        return L.mkrd(t[1])
    if op in ("add", "sub"):
        a = eval_tree(t[1], toks)
        b = eval_tree(t[2], toks)
        toks.append(op)
        return a + b if op == "add" else a - b
    a = eval_tree(t[1], toks)
    if op == "neg":
        toks.append("neg")
        return -a
    if op == "abs":
        toks.append("abs")
        return abs(a)
    if op in ("mul", "mulf"):
        if max_field(a) * abs(t[2]) >= 2 ** 53 or max_field(a) >= 2 ** 53:
            raise Inexact()
        toks.append("mul %d" % int(t[2]))
        return a * t[2] if op == "mul" or int(t[2]) % 2 else t[2] * a      # __mul__ and __rmul__
    if op == "td":
        td = t[2]
        toks.append("td %d %d %d" % (td.days, td.seconds, td.microseconds))
        return a + td
    raise ValueError(op)


capture_hash_tuple = L.capture_hash_tuple


def correspondence(ctx):
    basecorr.run(ctx)
    from dateutil.relativedelta import relativedelta
    rng = ctx.subrng("corr")
    reqs, exp = [], []
    # (0) the table literal
    reqs.append("rd.ydayidx"); exp.append("ok " + L.vlib.ilist(L.source_ydayidx() or []))
    # (1) translator validation: _fix / _set_months on raw states
    n_fix = ctx.budget(12000, 60000)
    for _ in range(n_fix):
        d = relativedelta()
        for k in L.REL:
            setattr(d, k, L.g_big(rng) if rng.random() < 0.3 else L.g_rel(rng, 5000))
        for k in L.ABS:
            setattr(d, k, rng.choice([None, None, None, 0, 5]))
        d._has_time = rng.choice([0, 1])
        reqs.append("rd.fix " + L.rd_wire(d))
        d._fix()
        exp.append("ok " + L.rd_wire(d))
        m = L.g_big(rng) if rng.random() < 0.3 else L.g_rel(rng, 100)
        d2 = relativedelta(); d2.years = 77; d2._set_months(m)
        reqs.append("rd.setmonths %d" % m); exp.append("ok %d %d" % (d2.years, d2.months))
    ctx.count("corr_fix_states", n_fix)
    # (2) constructor, wild inputs
    n_mk = ctx.budget(20000, 100000)
    values = []
    for _ in range(n_mk):
        kw = L.g_kw(rng, "wild" if rng.random() < 0.6 else "c03")
        reqs.append("rd.mk " + L.kw_wire(kw))
        r = L.run(lambda: L.mkrd(kw), L.rd_wire)
        exp.append(r)
        ctx.count("corr_mk_" + r.split()[0] + ("_" + r.split()[1] if r.startswith("err") else ""))
        if r.startswith("ok") and len(values) < 4000:
            values.append(L.mkrd(kw))
    # (3) expression trees
    n_tree = ctx.budget(10000, 50000)
    done = 0
    while done < n_tree:
        t = g_tree(rng, rng.randint(1, 4), "wild" if rng.random() < 0.5 else "c03")
        toks = []
        try:
            r = L.run(lambda: eval_tree(t, toks), L.rd_wire)
        except Inexact:
            ctx.count("corr_tree_skipped_inexact_float_product")
            continue
        done += 1
        reqs.append("rd.expr " + " ".join(toks)); exp.append(r)
        ctx.count("corr_tree_" + r.split()[0])
        if r.startswith("ok") and len(values) < 8000 and rng.random() < 0.5:
            toks2 = []
            values.append(eval_tree(t, toks2))
    # (4) bool, hash tuple, eq / hash-equality on related pairs
    for d in values[:ctx.budget(1500, 8000)]:
        w = L.rd_wire(d)
        reqs.append("rd.bool " + w); exp.append("ok %d" % (1 if d else 0))
        ht, _ = capture_hash_tuple(d)
        reqs.append("rd.hash " + w); exp.append("ok " + ht)
    n_pairs = ctx.budget(3000, 40000)
    npair_eq = 0
    for _ in range(n_pairs):
        a = rng.choice(values)
        b = variant(rng, a) if rng.random() < 0.7 else rng.choice(values)
        e = a == b
        npair_eq += e
        reqs.append("rd.eq %s %s" % (L.rd_wire(a), L.rd_wire(b)))
        exp.append("ok %d %d" % (e, hash(a) == hash(b)))   # hash part checked one-directionally below
    ctx.count("corr_eq_pairs_equal", npair_eq)
    # (5) applyTo on the values and their weekday re-spellings (the tie eq_applyTo rests on, inside C16's own run)
    n_add = ctx.budget(3000, 40000)
    for _ in range(n_add):
        a = rng.choice(values)
        if a.weekday is not None and rng.random() < 0.7:
            a = variant(rng, a)
        if not L.is_int_valued(a):
            continue
        x = L.g_temporal(rng)
        reqs.append("rd.add %s %s" % (L.rd_wire(a), L.t_wire(x))); exp.append(L.run(lambda: x + a, L.t_show))
        ctx.count("corr_add")
    # (7) exact scaling and normalized() on integer records (values AND raw, non-normalised records as attribute assignment
    #     leaves them): d * (m / 2**k), (m / 2**k) * d, d / (+-2**k) as int and as float divisor, d.normalized()
    n_sc = ctx.budget(3000, 30000)
    for _ in range(n_sc):
        d = rng.choice(values)
        if not L.is_int_valued(d):
            continue
        if rng.random() < 0.35:
            d = L.clone_record(d)
            for k in rng.sample(L.REL, rng.randint(1, 3)):
                setattr(d, k, L.g_rel(rng, 5000))
        w = L.rd_wire(d)
        big = max(abs(getattr(d, k)) for k in L.REL)
        kk = rng.choice([0, 0, 1, 1, 2, 3, 5, 10])
        m = rng.choice([1, -1, 3, -3, 5, 7, 10, 25, -100, rng.randint(-2000, 2000)])
        if big * abs(m) < 2 ** 53:
            f = m / float(2 ** kk) if kk or rng.random() < 0.5 else m
            reqs.append("rd.muldy %s %d %d" % (w, m, kk))
            exp.append(L.run(lambda: d * f if rng.random() < 0.7 else f * d, L.rd_wire))
            ctx.count("corr_muldy" + ("_int" if kk == 0 else "_fractional"))
        if big < 2 ** 53:
            neg = rng.random() < 0.4
            div = (-1 if neg else 1) * 2 ** kk
            reqs.append("rd.divp2 %s %d %d" % (w, 1 if neg else 0, kk))
            exp.append(L.run(lambda: d / (div if rng.random() < 0.5 else float(div)), L.rd_wire))
            ctx.count("corr_divp2")
            reqs.append("rd.normalized " + w); exp.append(L.run(lambda: d.normalized(), L.rd_wire))
            ctx.count("corr_normalized")
    # (6) the history of one object: use -> mutate (weeks setter / attribute assignment) -> use; after EVERY step the model
    #     on the current record, rd.setweeks, rd.hist; and the source audit the model's "a use leaves the record alone" rests on
    history_audit(ctx)
    hq, he = L.history_corr(ctx, ctx.subrng("corr-history"), values[:ctx.budget(250, 2500)], 8, "corr_history")
    reqs += hq; exp += he
    reqs, exp = L.with_generated(reqs, exp)
    ctx.count("corr_generated_requests", sum(1 for q in reqs if q.startswith("rdgen.")))
    got = ctx.driver(reqs)
    for q, e, g in zip(reqs, exp, got):
        if q.startswith("rd.eq ") or q.startswith("rdgen.eq "):
            # model key-equality must imply equal hashes on the implementation (the converse can fail by collision)
            ga, ea = g.split(), e.split()
            if len(ga) != 3 or ga[1] != ea[1] or (ga[2] == "1" and ea[2] != "1"):
                ctx.mismatch("rd.eq", q, e, g)
            continue
        if e != g:
            ctx.mismatch(q.split()[0], q, e, g)
    ctx.traces += len(reqs)
    ctx.count("corr_requests", len(reqs))


def history_audit(ctx):
    sites = L.write_audit()
    ctx.count("write_audit_sites", len(sites))
    for site in sites:
        ctx.mismatch("rd.write_audit", site, "a method of relativedelta writes state outside " + "/".join(L.WRITERS_ALLOWED),
                     "model: a use leaves the record alone (RDH.step)")


def variant(rng, a):
    """a value related to `a`: same fields, weekday n re-spelt, or one field nudged"""
    from dateutil._common import weekday
    kw = fields_kw(a)
    r = rng.random()
    if a.weekday is not None and r < 0.6:
        kw["weekday"] = weekday(a.weekday.weekday, rng.choice([None, 0, 1, a.weekday.n, 2, -1]))
    elif r < 0.8:
        k = rng.choice(L.REL)
        kw[k] = kw[k] + rng.choice([0, 1, -1])
    elif r < 0.9:
        k = rng.choice(L.ABS)
        kw[k] = rng.choice([None, 0, 1, kw[k]])
    return L.mkrd(kw)


# ---------------------------------------------------------------- oracle
def desc(d):
    return repr(d)


def float_twin(d):
    """the same value with every integral field spelt in the other numeric type (int <-> float)"""
    from dateutil.relativedelta import relativedelta
    kw = {}
    for k in L.REL:
        v = getattr(d, k)
        if k in ("years", "months"):
            kw[k] = float(v)
        elif isinstance(v, int):
            kw[k] = float(v) if abs(v) < 2 ** 53 else v
        else:
            kw[k] = int(v) if v == int(v) else v
    for k in L.ABS:
        kw[k] = getattr(d, k)
    kw["weekday"] = d.weekday
    return relativedelta(**kw)


def check_value(ctx, d, origin, case):
    """laws of one value"""
    from dateutil.relativedelta import relativedelta
    if not L.weekday_ok(d.weekday):
        ctx.violation("after %s the weekday attribute is %r, not a weekday object" % (origin, d.weekday), case)
        return
    if not bounds_ok(d):
        ctx.violation("relative fields not normalised after %s: %r" % (origin, d), case)
    if not has_time_ok(d):
        ctx.violation("_has_time inconsistent after %s: %r" % (origin, d), case)
    d2 = relativedelta(**fields_kw(d))
    if not (d2 == d and d == d2):
        ctx.violation("reconstructing from own fields gives an unequal object: %r vs %r" % (d, d2), case)
    elif hash(d2) != hash(d):
        ctx.violation("equal objects hash differently: %r vs %r" % (d, d2), case)
    nn = -(-d)
    if not (nn == d):
        ctx.violation("-(-d) != d: %r vs %r" % (d, nn), case)
    z = d + (-d)
    if any(getattr(z, k) for k in L.REL if k != "leapdays"):
        ctx.violation("d + (-d) has a relative part: %r" % (z,), case)
    empty = (not any(getattr(d, k) for k in L.REL)) and all(getattr(d, k) is None for k in L.ABS) and d.weekday is None
    if bool(d) != (not empty):
        ctx.violation("bool(d) = %s but no-field-set = %s: %r" % (bool(d), empty, d), case)
    if not (d == d):
        ctx.violation("d != d: %r" % (d,), case)
    # normalized(): a value again, nothing but days..microseconds re-expressed; the identity on an integer-valued value
    try:
        nz = d.normalized()
    except Exception as ex:
        if max_field(d) < 2 ** 53:
            ctx.violation("normalized() raised %s on %r" % (type(ex).__name__, d), case)
        return
    if any(getattr(nz, k) != getattr(d, k) for k in L.ABS + ["years", "months", "leapdays"]) or not (nz.weekday == d.weekday):
        ctx.violation("normalized() changed years / months / leapdays / an absolute field / the weekday: %r -> %r" % (d, nz), case)
    elif L.is_int_valued(d) and max_field(d) < 2 ** 53 and not (nz == d and hash(nz) == hash(d)
                                                                and all(getattr(nz, k) == getattr(d, k) for k in L.REL)):
        ctx.violation("normalized() of an integer-valued value is not the value itself: %r -> %r" % (d, nz), case)


def oracle(ctx):
    from dateutil.relativedelta import relativedelta
    from dateutil._common import weekday
    rng = ctx.subrng("oracle")
    seeds = []
    for m in ctx.mismatches:                      # failing-input search starts from the differing inputs
        seeds.append(m)
    n = ctx.budget(15000, 120000)
    values = []
    # --- constructor: totals preserved, bounds, reconstruct, neg/neg, add-neg, bool
    for i in range(n):
        kw = L.g_kw(rng, "wild" if rng.random() < 0.4 else "c03")
        key = ("mk", L.kw_wire(kw))
        try:
            d = L.mkrd(kw)
        except (ValueError, IndexError):
            ctx.case(key, nontrivial=False); ctx.count("mk_error")
            continue
        except Exception as ex:
            ctx.case(key, nontrivial=False)
            ctx.violation("constructor raised %s" % type(ex).__name__, {"law": "mk", "kw": L.kw_json(kw)})
            continue
        ctx.case(key); ctx.count("mk_ok")
        case = {"law": "value", "kw": L.kw_json(kw)}
        tin = sum(fractions.Fraction(kw.get(k, 0)) * u for k, u in UNITS.items()) + kw.get("weeks", 0) * 7 * UNITS["days"]
        if total_us(d) != tin:
            ctx.violation("carry changed the total duration: %r from %r" % (d, kw), case)
        if total_months(d) != kw.get("years", 0) * 12 + kw.get("months", 0):
            ctx.violation("carry changed the month total: %r from %r" % (d, kw), case)
        # sign preservation of the lowest field and of the month field
        for fld, src in (("microseconds", kw.get("microseconds", 0)), ("months", kw.get("months", 0))):
            v = getattr(d, fld)
            if v and (v > 0) != (src > 0):
                ctx.violation("carry flipped the sign of %s: %r from %r" % (fld, d, kw), case)
        check_value(ctx, d, "constructor", case)
        values.append((d, case))
        if i < 3:
            ctx.sample({"kw": L.kw_json(kw), "value": repr(d), "hash_tuple": capture_hash_tuple(d)[0]})
    # --- binary / unary operators on pairs
    npairs = ctx.budget(12000, 100000)
    for _ in range(npairs):
        (a, ca), (b, cb) = rng.choice(values), rng.choice(values)
        op = rng.choice(["add", "sub", "abs", "mulint", "td"])
        case = {"law": op, "a": ca["kw"], "b": cb["kw"]}
        ctx.case((op, repr(a), repr(b))); ctx.count("op_" + op)
        if op == "add":
            r = a + b
            tu, tm = total_us(a) + total_us(b), total_months(a) + total_months(b)
        elif op == "sub":
            r = a - b
            tu, tm = total_us(a) - total_us(b), total_months(a) - total_months(b)
        elif op == "abs":
            r = abs(a)
            tu = sum(abs(getattr(a, k)) * u for k, u in UNITS.items()); tm = abs(a.years) * 12 + abs(a.months)
        elif op == "mulint":
            k = rng.choice([0, 1, -1, 2, -3, 12, 60, rng.randint(-500, 500)])
            case["k"] = k
            if max_field(a) * max(1, abs(k)) >= 2 ** 53:
                continue
            r = a * k
            tu, tm = total_us(a) * k, total_months(a) * k
            if not ((k * a) == r):
                ctx.violation("k * d != d * k", case)
        else:
            td = datetime.timedelta(days=rng.randint(-400, 400), seconds=rng.randint(0, 86399), microseconds=rng.randint(0, 999999))
            case["td"] = [td.days, td.seconds, td.microseconds]
            r = a + td
            tu, tm = total_us(a) + (td.days * 86400 + td.seconds) * 10 ** 6 + td.microseconds, total_months(a)
        if total_us(r) != tu or total_months(r) != tm:
            ctx.violation("%s changed the totals: %r" % (op, r), case)
        check_value(ctx, r, op, case)
    # --- equality is an equivalence consistent with hash, and equal deltas act equally
    ntrip = ctx.budget(12000, 100000)
    pool = [v for v, _ in values]
    for _ in range(ntrip):
        a = rng.choice(pool)
        b = variant(rng, a)
        c = variant(rng, b) if rng.random() < 0.7 else variant(rng, a)
        case = {"law": "eq", "a": L.kw_json(fields_kw(a)), "b": L.kw_json(fields_kw(b)), "c": L.kw_json(fields_kw(c))}
        ctx.case(("eq", repr(a), repr(b), repr(c)), nontrivial=(a == b))
        if (a == b) != (b == a):
            ctx.violation("== not symmetric: %r %r" % (a, b), case)
        if (a != b) == (a == b):
            ctx.violation("!= is not the negation of ==", case)
        if a == b and b == c and not (a == c):
            ctx.violation("== not transitive: %r %r %r" % (a, b, c), case)
        if a == b:
            ctx.count("eq_pairs_equal")
            if hash(a) != hash(b):
                ctx.violation("equal deltas hash differently: %r %r" % (a, b), case)
            x = L.g_temporal(rng)
            ra = L.run(lambda: x + a, L.t_wire)
            rb = L.run(lambda: x + b, L.t_wire)
            if ra != rb:
                case["x"] = L.t_wire(x)
                ctx.violation("equal deltas give different results on %s: %s vs %s" % (x, ra, rb), case)
        else:
            ctx.count("eq_pairs_unequal")
    # every (weekday, n) spelling: n in {None, 0, 1} equivalent, others distinct
    for w in range(7):
        objs = [relativedelta(weekday=w), relativedelta(weekday=weekday(w)), relativedelta(weekday=weekday(w, 0)),
                relativedelta(weekday=weekday(w, 1)), relativedelta(weekday=weekday(w)(1))]
        for a in objs:
            for b in objs:
                ctx.case(("wdspell", w, repr(a.weekday), repr(b.weekday)))
                if not (a == b) or hash(a) != hash(b):
                    ctx.violation("weekday spellings %r / %r: equal=%s hash-equal=%s" % (a, b, a == b, hash(a) == hash(b)),
                                  {"law": "wdspell", "w": w, "na": a.weekday.n, "nb": b.weekday.n})
        for nn in (-1, 2, -2):
            o = relativedelta(weekday=weekday(w, nn))
            if o == objs[0]:
                ctx.violation("weekday(%d,%d) equals weekday(%d)" % (w, nn, w), {"law": "wdspell", "w": w, "na": nn, "nb": None})
    # --- non-integer years / months
    for _ in range(ctx.budget(300, 3000)):
        f = rng.choice([0.5, 1.5, -2.25, 1e-9, 3.0000001, rng.uniform(-50, 50)])
        which = rng.choice(["years", "months"])
        import decimal
        if rng.random() < 0.2:
            f = rng.choice([fractions.Fraction(1, 2), fractions.Fraction(-7, 3), decimal.Decimal("1.5"), decimal.Decimal("-0.25")])
        case = {"law": "nonint", "field": which, "value": repr(f)}
        ctx.case(("nonint", which, repr(f)), nontrivial=False)
        if f != int(f):
            others = {k: v for k, v in L.g_kw(rng, "c03").items() if k not in ("years", "months")} if rng.random() < 0.6 else {}
            case["others"] = L.kw_json(others)
            try:
                relativedelta(**dict(others, **{which: f}))
                ctx.violation("relativedelta(%s=%r) accepted" % (which, f), case)
            except ValueError:
                ctx.count("nonint_ValueError")
            except Exception as ex:
                ctx.violation("relativedelta(%s=%r) raised %s" % (which, f, type(ex).__name__), case)
    for which in ("years", "months"):           # integral floats are accepted and stored as ints
        d = relativedelta(**{which: 3.0})
        ctx.case(("intfloat", which))
        if not isinstance(getattr(d, which), int) or getattr(d, which) != 3:
            ctx.violation("relativedelta(%s=3.0) stored %r" % (which, getattr(d, which)), {"law": "intfloat", "field": which})
    # --- EXECUTABLE-ONLY part: float fields, float scalars, normalized()
    nf = ctx.budget(8000, 60000)
    for _ in range(nf):
        kw = {}
        for k, s in (("days", 400), ("hours", 60), ("minutes", 200), ("seconds", 5000), ("microseconds", 10 ** 6), ("weeks", 60)):
            r = rng.random()
            if k == "weeks" and r > 0.25:
                continue
            if r < 0.35:
                kw[k] = rng.choice([0.5, 1.5, -1.5, 0.25, -0.75, 1e-3, round(rng.uniform(-s, s), rng.randint(0, 6)),
                                    # a half / quarter at EVERY unit on top of a signed integer part that carries
                                    rng.randint(-s, s) + rng.choice([0.5, -0.5, 0.25, 0.75, 0.125]),
                                    # large magnitudes with a fractional part (exactly representable)
                                    rng.choice([1, -1]) * (rng.choice([10 ** 5, 10 ** 7, 10 ** 9]) + rng.randint(0, 999) + rng.choice([0.5, 0.25]))])
                if k == "microseconds" and rng.random() < 0.5:
                    # fractional MICROSECONDS (below the resolution of timedelta): halves, quarters, just under a carry
                    kw[k] = rng.choice([0.5, -0.5, 1.5, 0.25, 999999.5, -999999.5, 999999.75, 1000000.5, 123456.75,
                                        rng.randint(-3 * 10 ** 6, 3 * 10 ** 6) + rng.choice([0.5, 0.25, -0.75])])
            elif r < 0.6:
                kw[k] = rng.randint(-s, s)
        if rng.random() < 0.3:
            kw["years"] = rng.randint(-5, 5); kw["months"] = rng.randint(-30, 30)
        case = {"law": "float", "kw": kw}
        ctx.case(("float", repr(sorted(kw.items())))); ctx.count("float_values")
        try:
            d = relativedelta(**kw)
            nd = d.normalized()
        except Exception as ex:
            ctx.violation("float-valued construction / normalized() raised %s" % type(ex).__name__, case)
            continue
        if not all(isinstance(getattr(nd, k), int) for k in L.REL):
            ctx.violation("normalized() left a non-integer relative field: %r" % (nd,), case)
            continue
        if not bounds_ok(nd) or not bounds_ok(d):
            ctx.violation("float-valued value not within the normal-form bounds: %r / %r" % (d, nd), case)
        if abs(total_us(nd) - total_us(d)) > 2 or total_months(nd) != total_months(d):
            ctx.violation("normalized() changed the total by more than 2 us: %r -> %r" % (d, nd), case)
        if all(isinstance(v, int) for v in kw.values()) and not (nd == d):
            ctx.violation("normalized() of an integer-valued delta differs: %r -> %r" % (d, nd), case)
        # the value laws on the FLOAT-valued delta itself (not only on its normalized() form)
        tin = sum(fractions.Fraction(v) * UNITS[k] for k, v in kw.items() if k in UNITS) \
            + fractions.Fraction(kw.get("weeks", 0)) * 7 * UNITS["days"]
        for k in kw:
            if isinstance(kw[k], float) and kw[k] != int(kw[k]):
                ctx.count("float_fractional_" + k)
            if isinstance(kw[k], float) and abs(kw[k]) >= 10 ** 5:
                ctx.count("float_large_" + k)
        if abs(total_us(d) - tin) > fractions.Fraction(1, 100) + abs(tin) / 10 ** 12:
            ctx.violation("float carry changed the total duration by more than 0.01 us: %r from %r" % (d, kw), case)
        check_value(ctx, d, "float constructor", case)
        ctx.count("float_value_laws")
        tw = float_twin(d)
        if not (tw == d and d == tw) or hash(tw) != hash(d):
            ctx.violation("int/float twin differs: %r vs %r (equal=%s, hash-equal=%s)" % (d, tw, tw == d, hash(tw) == hash(d)), case)
        else:
            x = L.g_temporal(rng)
            if L.run(lambda: x + d, L.t_wire) != L.run(lambda: x + tw, L.t_wire):
                ctx.violation("int/float twins act differently on %s" % (x,), dict(case, x=L.t_wire(x)))
        if len(ctx.samples) < 6:
            ctx.sample({"law": "float", "kw": kw, "value": repr(d), "normalized": repr(nd), "twin": repr(tw)})
        # scalar * and /
        f = rng.choice(SCALARS + [rng.uniform(-10, 10), float(rng.randint(-50, 50))])
        check_scalar(ctx, nd, f, case)
    for nd_kw in ({"days": 3, "hours": 5, "years": 1, "months": 2}, {}, {"seconds": -59, "microseconds": 999999, "day": 31},
                  {"days": 10 ** 9, "hours": -23, "weekday": 2}):
        for f in SCALARS:
            check_scalar(ctx, relativedelta(**nd_kw), f, {"law": "float", "kw": nd_kw})
    for k in (49, 98, 103, 107, 161, 187, 196, 197, 7, 10):
        check_scalar(ctx, relativedelta(days=k, years=2 * k), k, {"law": "float", "kw": {"days": k, "years": 2 * k}})
    check_nonfinite_fields(ctx)
    # the history of one object (however constructed: keywords, an expression, a difference of two dates)
    hr = ctx.subrng("oracle-history")
    L.history_oracle(ctx, hr, L.g_start_kw, ctx.budget(500, 6000), 10, "history_kw")
    L.history_oracle(ctx, hr, g_start_expr, ctx.budget(200, 2500), 8, "history_expr")
    L.history_oracle(ctx, hr, g_start_diff, ctx.budget(200, 2500), 8, "history_diff")
    # int / float / signed-zero / weekday(n as float) twins, explicitly
    for a, b in [(relativedelta(days=1), relativedelta(days=1.0)), (relativedelta(days=0), relativedelta(days=-0.0)),
                 (relativedelta(hours=0.0, seconds=5), relativedelta(seconds=5)),
                 (relativedelta(weekday=weekday(0, 1.0)), relativedelta(weekday=weekday(0))),
                 (relativedelta(weekday=weekday(3, 0.0)), relativedelta(weekday=weekday(3, 1))),
                 (relativedelta(years=2.0, months=-3.0), relativedelta(years=2, months=-3)),
                 (relativedelta(microseconds=1e6), relativedelta(seconds=1))]:
        ctx.case(("twin", repr(a), repr(b))); ctx.count("twin_pairs")
        if not (a == b and b == a) or hash(a) != hash(b) or bool(a) != bool(b):
            ctx.violation("twins %r / %r: equal=%s hash-equal=%s" % (a, b, a == b, hash(a) == hash(b)),
                          {"law": "twin", "a": repr(a), "b": repr(b)})


INF, NAN = float("inf"), float("nan")
SCALARS = [0.5, 1.5, -2.5, 0.1, 1e-3, 1e-9, 1e6, -1e6, 1e15, 1 / 3.0, 2.0, -3.0, 7.0, 3, -1, True,
           0.0, -0.0, 0, INF, -INF, NAN]


def rel_all_zero(d):
    return not any(getattr(d, k) for k in L.REL if k != "leapdays")


def check_scalar(ctx, nd, f, case):
    """`nd * f` and `nd / f` for an integer-valued delta nd and any real scalar f (EXECUTABLE-ONLY part).
    finite f != 0 : integer-valued normal form, absolute fields untouched, total within one unit per field of the exact
                    rational product; for an integer-valued f with
                    |field*f| < 2**53 `*` is the exact integer product (= the model's mulInt).  How the implementation gets
                    there (int(field * f)) is NOT part of the expectation.
    f == 0        : `*` clears the relative part, `/` raises ZeroDivisionError
    f = +-inf     : `*` must raise (OverflowError; ValueError when a field is 0: 0*inf = nan), `/` multiplies by 0.0
    f = nan       : both must raise ValueError — never a value with a non-finite field"""
    case2 = dict(case, f=repr(f))
    for opn in ("mul", "div"):
        ctx.case((opn, repr(nd), repr(f))); ctx.count("float_" + opn)
        try:
            r = (nd * f if opn == "mul" else nd / f)
            err = None
        except Exception as ex:
            r, err = None, type(ex).__name__
        cls = "nan" if f != f else "inf" if f in (INF, -INF) else "zero" if f == 0 else "finite"
        ctx.count("scalar_%s_%s" % (cls, opn))
        if cls == "nan":
            if err != "ValueError":
                ctx.violation("%s by nan: %s" % (opn, err or repr(r)), case2)
            continue
        if cls == "inf" and opn == "mul":
            if err not in ("OverflowError", "ValueError"):
                ctx.violation("mul by %r: %s" % (f, err or repr(r)), case2)
            continue
        if cls == "zero" and opn == "div":
            if err != "ZeroDivisionError":
                ctx.violation("division by zero: %s" % (err or repr(r)), case2)
            continue
        if err:
            ctx.violation("%s by %r raised %s" % (opn, f, err), case2)
            continue
        if not all(isinstance(getattr(r, k), int) for k in L.REL) or not bounds_ok(r) or not has_time_ok(r):
            ctx.violation("%s by %r: fields not integer-normalised: %r" % (opn, f, r), case2)
            continue
        # the exact rational product; each of the 5 (resp. 2) fields may lose less than one of its own units to the
        # truncation toward zero (plus float rounding of the factor): nothing about HOW the fields are computed
        F = fractions.Fraction(f) if opn == "mul" else 1 / fractions.Fraction(f) if cls == "finite" else fractions.Fraction(0)
        slack_us = sum(UNITS.values()) + abs(total_us(nd) * F) / 10 ** 12
        slack_m = 13 + abs(total_months(nd) * F) / 10 ** 12
        if abs(total_us(r) - total_us(nd) * F) > slack_us or abs(total_months(r) - total_months(nd) * F) > slack_m:
            ctx.violation("%s by %r: total %s is more than one unit per field away from the exact product %s: %r"
                          % (opn, f, total_us(r), total_us(nd) * F, r), case2)
        if opn == "div" and cls == "finite" and float(f) == int(f) and int(f) != 0 \
                and all(getattr(nd, k) % int(f) == 0 for k in L.REL if k != "leapdays") and max_field(nd) < 2 ** 53:
            ctx.count("scalar_div_exact_quotient_exists")
            if total_us(r) != total_us(nd) / int(f) or total_months(r) != total_months(nd) / int(f):
                # e.g. relativedelta(days=49) / 49 == relativedelta(): 49 * (1/49.0) < 1.  The property does not say
                # what `/` returns, so this is recorded in the evidence, not reported.
                ctx.count("scalar_div_exact_quotient_missed")
        if any(getattr(r, k) != getattr(nd, k) for k in L.ABS) or r.weekday != nd.weekday or r.leapdays != nd.leapdays:
            ctx.violation("%s by %r changed an absolute field / weekday / leapdays" % (opn, f), case2)
        if (cls == "zero" or (cls == "inf" and opn == "div")) and not rel_all_zero(r):
            ctx.violation("%s by %r should clear the relative part: %r" % (opn, f, r), case2)
        if opn == "mul" and cls == "finite" and float(f) == int(f) and max_field(nd) * abs(int(f)) < 2 ** 53:
            ctx.count("scalar_exact_integer_float")
            k = int(f)
            if total_us(r) != total_us(nd) * k or total_months(r) != total_months(nd) * k or not (r == nd * k) \
                    or not ((f * nd) == r):
                ctx.violation("multiplication by the integer-valued scalar %r is not the exact integer product" % (f,), case2)


def g_start_expr(rng):
    a, b = L.g_start_kw(rng), L.g_start_kw(rng)
    return ("expr", a[1], b[1]) if a and b else None


def g_start_diff(rng):
    a, b = L.g_temporal(rng, ("d", "n")), L.g_temporal(rng, ("d", "n"))
    return ("diff", L.t_wire(a), L.t_wire(b))


def check_nonfinite_fields(ctx):
    """inf / nan passed as a relative field.  What the property needs: either the constructor rejects the value
    (as it must for years/months: ValueError) or the object it returns is a well-behaved value (normal form, d == d)."""
    from dateutil.relativedelta import relativedelta
    for fld in ("years", "months", "days", "leapdays", "weeks", "hours", "minutes", "seconds", "microseconds"):
        for v in (INF, -INF, NAN):
            case = {"law": "nonfinite_field", "field": fld, "value": repr(v)}
            ctx.case(("nonfinite", fld, repr(v)), nontrivial=False); ctx.count("nonfinite_field_cases")
            try:
                d = relativedelta(**{fld: v})
            except ValueError:
                ctx.count("nonfinite_rejected_ValueError")
                continue
            except Exception as ex:
                case["outcome"] = "raised:" + type(ex).__name__
                ctx.violation("relativedelta(%s=%r) raised %s, not ValueError" % (fld, v, type(ex).__name__), case)
                continue
            case["outcome"] = "accepted:" + repr(d)
            # +-inf days is a (useless but) well-behaved value: normal form holds and d == d; NaN fields are not
            if not bounds_ok(d) or not (d == d):
                ctx.violation("relativedelta(%s=%r) is accepted and yields %r: not normalised / d != d" % (fld, v, d), case)
            else:
                ctx.count("nonfinite_accepted_wellbehaved")


KNOWN = {}     # D-C16-nonfinite was repaired in /repo (known_findings.d/00-fixed.json); check_nonfinite_fields reports it again


def replay(ctx, payload):
    from dateutil.relativedelta import relativedelta
    c = payload["violation"]["case"]
    law = c.get("law")
    sub = vlibctx(ctx)
    if law in ("value", "mk"):
        d = L.mkrd(L.kw_unjson(c["kw"]))
        check_value(sub, d, "replay", c)
    elif law == "eq":
        a, b, cc = (L.mkrd(L.kw_unjson(c[k])) for k in ("a", "b", "c"))
        if (a == b) != (b == a) or (a == b and hash(a) != hash(b)) or (a == b and b == cc and not a == cc):
            sub.violation("eq law", c)
    elif law == "wdspell":
        from dateutil._common import weekday
        a = relativedelta(weekday=weekday(c["w"], c["na"])); b = relativedelta(weekday=weekday(c["w"], c["nb"]))
        print("a=%r b=%r a==b:%s hash-equal:%s" % (a, b, a == b, hash(a) == hash(b)))
        if (a == b) != (hash(a) == hash(b)):
            sub.violation("wdspell", c)
    elif law == "history":
        return L.replay_history(c)
    elif law == "nonfinite_field":
        check_nonfinite_fields(sub)
        sub.violations = [v for v in sub.violations if v["case"]["field"] == c["field"] and v["case"]["value"] == c["value"]]
    elif law == "float" and "f" in c:
        f = float(c["f"]) if c["f"] not in ("True", "False") else (c["f"] == "True")
        nd = relativedelta(**L.kw_unjson(c["kw"])).normalized()
        check_scalar(sub, nd, f, c)
    else:
        print("replay of law %r: re-run ./check C16 with seed %s" % (law, payload.get("seed")))
        return False
    for v in sub.violations:
        print("still failing:", v["what"])
    return not sub.violations


def vlibctx(ctx):
    return L.vlib.Ctx(PROP, "quick", ctx.seed)
