"""C07 — isoparse inverts every ISO-8601 rendering of a datetime."""
import datetime
import basecorr, vlib
from props import isocommon as ic

PROP = "C07"
TRUSTED = [
    "Model/IsoParser.lean is a hand model of src/dateutil/parser/isoparser.py; tied by the iso.parse / iso.date / iso.time / iso.tz correspondence on every rendered string (str and bytes inputs)",
    "Spec/IsoForms.lean `render` is the printer of the documented forms; `denote` its meaning. Both are cross-checked on every run against Python's own isocalendar()/tm_yday/replace() (the expected value of a case is computed twice, in Lean and in Python)",
    "datetime()/date()/time() construction and date +- timedelta are modelled by validity predicates and ordinal range checks",
    "harness/translate_bytes.py (BytesPy translator): _parse_digits, _parse_tzstr, _parse_isodate_common, _calculate_weekdate, _parse_isodate_uncommon, _parse_isodate, _parse_isotime, the bodies of isoparse, parse_isodate, parse_isotime and parse_tzstr and the inner function of the `_takes_ascii` decorator are RE-TRANSLATED from /repo's isoparser.py into Generated/IsoKernels.lean on every run (159 of the module's 164 statements); anything outside the fragment aborts with a named construct (broken tie)",
    "Proofs/IsoGenEq.lean + Proofs/IsoGenLoop.lean prove EVERY translated function equal to the hand model for all inputs (incl. the `while` loop of _parse_isotime by a simulation lemma: 8 units of fuel suffice), so every audited `_gen` theorem is a statement about the translation of today's source; a behaviour-changing edit breaks a named `_eq`/`sim_*` obligation (or the translation itself)",
    "named primitives of the translator (Model/BytesPy.lean), trusted with their documented Python meaning and exercised by the isogen.* validation on every run: slice/len/`in` on bytes, bytes.isdigit, int(bytes) (whitespace, sign, PEP 515 underscores), the fraction regex as `fractionMatch`, list get/set (in-range), date()/isocalendar()/timedelta arithmetic on ordinals, date(*l)/time(*l)/datetime(*l), try/except on the exception kind, and for `_takes_ascii`: `readAll` = getattr(x,'read',lambda: x)() (a stream delivers EVERYTHING from its current position; str/bytes unchanged), isinstance(x, six.text_type), str.encode('ascii'), and the coercion of the gated value to bytes when the wrapped method is called",
    "still hand-modelled: isoparser.__init__ only (5 of 164 statements: the `sep` check; Model `mkSep`, exercised with valid and invalid `sep` arguments on every run); the oracle compares str, bytes, StringIO, BytesIO and partially consumed streams on every generated text, incl. texts with line breaks and surrounding blanks",
]
ASSUMPTIONS = [
    "separator domain: any single byte, except that a digit is not used after a basic ordinal date YYYYDDD (the only ambiguous case: '2014059112' reads as 2014-05-91); for TEXT input the separator must be ASCII, because _takes_ascii rejects non-ASCII text with ValueError before parsing (C20.non_ascii_rejected) while bytes input accepts any byte: str/bytes/stream equivalence is therefore claimed and checked for ASCII text only",
    "incomplete dates (YYYY, YYYY-MM, YYYY-Www) stand alone: the parser documents that they cannot be followed by a time",
    "StringIO input is equivalent to str input through `.read()`; bytes input skips the ASCII gate",
]
RULE = ("every form (10 date forms x 10 time forms x 6 offset forms, 334 valid combinations) x boundary-biased datetimes in "
        "0001..9999 (ISO-year boundaries, leap days, month ends, first/last day) x offsets -23:59..+23:59 x fraction digits 1..9 "
        "x dot/comma x 17 separator bytes x {default parser, parser configured with that separator} x {str, bytes, StringIO}; "
        "24:00 renderings of midnight; the date / time / offset parts of each case through parse_isodate / parse_isotime / "
        "parse_tzstr; all 2 x 1440 offsets x 3 numeric forms x zero_as_utc through parse_tzstr exhaustively; plus the converse "
        "on a sample of the C20 mutation stream (every string the spec recognises must parse to a recognised value). "
        "distinct = distinct (entry, separator config, input kind, string); non-trivial = a valid rendering")

KNOWN = {}


def expected_of(df, tf, of, dt, frac, neg, oh, om, h24):
    """the value the property demands, computed in Python only"""
    d = ic.date_shown(df, dt)
    hh = dt.hour if tf != 0 else 0
    mm = dt.minute if tf in ic.HAS_M else 0
    ss = dt.second if tf in ic.HAS_S else 0
    us = int("".join(map(str, frac[:6])).ljust(6, "0")) if tf in ic.HAS_F else 0
    if h24:
        hh = mm = ss = us = 0     # rendered as the previous day 24:00
    if of == 0:
        tzs = "naive"
    elif of in (1, 2):
        tzs = "utc"
    else:
        m = om if of != 3 else 0
        secs = (oh * 60 + m) * 60
        tzs = "utc" if secs == 0 else "fixed %d" % (-secs if neg else secs)
    return "ok %d %d %d %d %d %d %d %s" % (d.year, d.month, d.day, hh, mm, ss, us, tzs)


def build_cases(ctx):
    if getattr(ctx, "_c07_cases", None) is not None:
        return ctx._c07_cases
    rng = ctx.subrng("c07-cases")
    forms = ic.all_forms()
    per_form = ctx.budget(24, 400)
    cases = []
    for (df, tf, of) in forms:
        for j in range(per_form):
            dt = ic.gen_datetime(rng)
            k = 1 + (j % 9)
            usd = [int(c) for c in "%06d" % dt.microsecond]
            frac = (usd + [rng.randint(0, 9) for _ in range(3)])[:k] if tf in ic.HAS_F else []
            neg, oh, om = ic.gen_offset(rng)
            sepb = ic.SEPARATORS[(j + df) % len(ic.SEPARATORS)] if j % 3 else 84
            if df != 9 and j % 11 == 5:
                sepb = rng.choice([48, 49, 53, 57])    # a DIGIT as separator: unambiguous except after YYYYDDD
            # what the form shows of the time
            shown_zero = (tf != 0 and dt.hour == 0 and (tf not in ic.HAS_M or dt.minute == 0)
                          and (tf not in ic.HAS_S or dt.second == 0)
                          and (tf not in ic.HAS_F or all(x == 0 for x in frac[:6])))
            h24 = False
            rdt = dt
            if tf != 0 and rng.random() < 0.12:
                # force a midnight and render it as 24:00 of the previous day
                if dt.date() > datetime.date(1, 1, 2):
                    dt = dt.replace(hour=0, minute=0, second=0, microsecond=0)
                    frac = [0] * len(frac)
                    rdt = dt - datetime.timedelta(days=1)
                    h24 = True
            f = ic.fields_of(df, rdt)
            if f is None:
                continue
            hh, mm, ss = (24, 0, 0) if h24 else (dt.hour, dt.minute, dt.second)
            line = ic.render_line(df, tf, of, sepb, f[0], f[1], f[2], hh, mm, ss, neg, oh, om, frac)
            cases.append({"df": df, "tf": tf, "of": of, "sep": sepb, "dt": dt, "frac": frac, "neg": neg, "oh": oh, "om": om,
                          "h24": h24, "k": len(frac), "line": line,
                          "expected": expected_of(df, tf, of, dt, frac, neg, oh, om, h24)})
    resp = ctx.driver([c["line"] for c in cases])
    for c, r in zip(cases, resp):
        raw, lax, strict, den = ic.parse_render(r)
        c["raw"], c["lax"], c["strict"], c["denote"] = raw, lax, strict, den
    ctx._c07_cases = cases
    return cases


def tz_cases():
    """(string, zero_as_utc, expected) for every offset -23:59..+23:59 in the three numeric forms, plus Z / z"""
    out = []
    for zero in (True, False):
        for s in ("Z", "z"):
            out.append((s, zero, "ok utc"))
        for neg in (False, True):
            for oh in range(24):
                for om in range(60):
                    secs = (oh * 60 + om) * 60
                    exp = "ok utc" if (secs == 0 and zero) else "ok fixed %d" % (-secs if neg else secs)
                    sg = "-" if neg else "+"
                    out.append(("%s%02d:%02d" % (sg, oh, om), zero, exp))
                    out.append(("%s%02d%02d" % (sg, oh, om), zero, exp))
                    if om == 0:
                        out.append(("%s%02d" % (sg, oh), zero, exp))
    return out


def sub_entries(c):
    """the date / time(+offset) / offset parts of a rendered case with their expected values"""
    s = c["raw"].decode("latin-1")
    df, tf, of = c["df"], c["tf"], c["of"]
    e = c["expected"].split()
    out = [("date", s[:ic.DATE_LEN[df]], "ok %s %s %s" % (e[1], e[2], e[3]) if not c["h24"] else None)]
    if tf != 0:
        t = s[ic.DATE_LEN[df] + 1:]
        out.append(("time", t, "ok %s %s %s %s %s" % (e[4], e[5], e[6], e[7], " ".join(e[8:]))))
        if of != 0:
            out.append(("tz", t[ic.time_len(tf, c["k"]):], "ok " + " ".join(e[8:])))
    return out


def correspondence(ctx):
    ic.check_fingerprint(ctx)
    basecorr.run(ctx)
    cases = build_cases(ctx)
    reqs, exp, tags = [], [], []
    for c in cases:
        s = c["raw"].decode("latin-1")
        sepc = chr(c["sep"])
        # the spec's denotation must be the truncated datetime computed in Python (spec sanity)
        if c["denote"] != c["expected"] or not c["strict"]:
            ctx.mismatch("iso.render/denote", {"line": c["line"]}, c["expected"], "%s strict=%s" % (c["denote"], c["strict"]))
        reqs.append(ic.line_parse(None, c["raw"], "bytes")); exp.append(ic.impl_parse(None, c["raw"], "bytes")); tags.append(s)
        if c["sep"] < 128:
            reqs.append(ic.line_parse(None, s, "str")); exp.append(ic.impl_parse(None, s, "str")); tags.append(s)
            reqs.append(ic.line_parse(sepc, s, "str")); exp.append(ic.impl_parse(sepc, s, "str")); tags.append(s)
            reqs.append(ic.line_parse("T", s, "str")); exp.append(ic.impl_parse("T", s, "str")); tags.append(s)
            for (entry, part, _) in sub_entries(c):
                reqs.append(ic.entry_line(entry, part)); exp.append(ic.entry_impl(entry, part)); tags.append(part)
    for (s, zero, _) in tz_cases():
        reqs.append(ic.entry_line("tz", s, zero=zero)); exp.append(ic.impl_tz(s, zero)); tags.append(s)
    got = ctx.driver(reqs)
    for q, e, g, s in zip(reqs, exp, got, tags):
        if e != g:
            ctx.mismatch(q.split()[0], {"request": q, "string": s}, e, g)
    ctx.traces += len(reqs)
    # the translated scanners against the implementation on every rendered string and its parts
    items, res = [], []
    for c in cases:
        if c["sep"] >= 128:
            continue
        s = c["raw"].decode("latin-1")
        items.append(("isoparse", None, True, "str", s)); res.append(ic.impl_parse(None, s, "str"))
        items.append(("isoparse", chr(c["sep"]), True, "str", s)); res.append(ic.impl_parse(chr(c["sep"]), s, "str"))
        for (entry, part, _) in sub_entries(c):
            items.append((entry, None, True, "str", part)); res.append(None)
    ic.validate_translation(ctx, items, res)


def oracle(ctx):
    cases = build_cases(ctx)
    for c in cases:
        s = c["raw"].decode("latin-1")
        exp = c["expected"]
        name = "%s/%s/%s" % (ic.DATE_FORMS[c["df"]], ic.TIME_FORMS[c["tf"]], ic.OFF_FORMS[c["of"]])
        ctx.count("date_" + ic.DATE_FORMS[c["df"]]); ctx.count("time_" + ic.TIME_FORMS[c["tf"]]); ctx.count("off_" + ic.OFF_FORMS[c["of"]])
        if c["h24"]:
            ctx.count("hour24")
        if c["tf"] in ic.HAS_F:
            ctx.count("frac_digits_%d" % c["k"])
        runs = [(None, "bytes", c["raw"]), (None, "bstream", c["raw"]), (None, "bstream@3", c["raw"])]
        if c["sep"] < 128:
            runs += [(None, "str", s), (None, "stream", s), (None, "stream@7", s), (chr(c["sep"]), "str", s),
                     (chr(c["sep"]), "bytes", s), (chr(c["sep"]), "stream", s), (chr(c["sep"]), "bstream@3", s)]
            if c["tf"] == 0:
                runs.append(("T", "str", s))
        for (sepcfg, kind, inp) in runs:
            if sepcfg is not None and (sepcfg.isdigit()):
                continue
            got = ic.impl_parse(sepcfg, inp, kind)
            ctx.case(("isoparse", sepcfg, kind, s))
            ctx.count("kind_" + kind)
            if got != exp:
                ctx.violation("isoparse(%r) [%s, sep=%r, %s] = %s, the rendered datetime is %s" % (s, name, sepcfg, kind, got, exp),
                              {"entry": "isoparse", "sep": sepcfg, "kind": kind, "string": s, "form": name, "expected": exp},
                              {"impl": got, "render_request": c["line"]})
        if c["sep"] < 128:
            for (entry, part, pexp) in sub_entries(c):
                if pexp is None:
                    continue
                for kind in ("str", "bytes", "stream", "bstream@3"):
                    got = ic.entry_impl(entry, part, kind=kind)
                    ctx.case((entry, None, kind, part))
                    ctx.count("entry_" + entry)
                    if got != pexp:
                        ctx.violation("parse_%s(%r) = %s, expected %s" % (entry, part, got, pexp),
                                      {"entry": entry, "sep": None, "kind": kind, "string": part, "form": name, "expected": pexp},
                                      {"impl": got})
        # str / bytes / text stream / byte stream / partially consumed streams must agree on EVERY text, also on
        # texts decorated with line breaks and blanks (whatever the result is: value or exception kind)
        if c["sep"] < 128:
            wv = ic.WHITESPACE_VARIANTS[(c["df"] + c["tf"] + c["of"] + c["k"]) % len(ic.WHITESPACE_VARIANTS)]
            for txt in (s, wv(s)):
                res, ok = ic.kinds_agree("isoparse", txt)
                ctx.case(("kinds", txt), nontrivial=True)
                ctx.count("kinds_agree_cases")
                if not ok:
                    bad = sorted(res.items())
                    ref = res["str"]
                    k0 = next(k for k, v in bad if v != ref)
                    ctx.violation("isoparse(%r) differs by input kind: str -> %s, %s -> %s" % (txt, ref, k0, res[k0]),
                                  {"entry": "isoparse", "sep": None, "kind": k0, "string": txt, "form": name, "expected": ref,
                                   "stream_content": (ic.STREAM_PREFIX[:int(k0.partition("@")[2] or 0)] + txt)},
                                  {"by_kind": res})
        if len(ctx.samples) < 10 and (c["df"] * 7 + c["tf"] * 3 + c["of"]) % 41 == 0:
            ctx.sample({"form": name, "string": s, "expected": exp, "impl": ic.impl_parse(None, c["raw"], "bytes")})
    # AMBIENT PROCESS STATE: the ISO parser reads nothing but its argument.  calendar.setfirstweekday() is process-wide
    # state that other parts of dateutil do read (rrule's default week start); an ISO week is Monday-based whatever it
    # says.  Every week-date case and a slice of the others is parsed again under each non-default first weekday.
    import calendar
    saved_fwd = calendar.firstweekday()
    try:
        for k in range(1, 7):
            calendar.setfirstweekday(k)
            for j, c in enumerate(cases):
                if not (c["df"] in (4, 5, 6, 7) or j % 23 == k):
                    continue
                got = ic.impl_parse(None, c["raw"], "bytes")
                ctx.case(("isoparse@firstweekday", k, c["raw"]))
                ctx.count("ambient_firstweekday_cases")
                if got != c["expected"]:
                    s = c["raw"].decode("latin-1")
                    name = "%s/%s/%s" % (ic.DATE_FORMS[c["df"]], ic.TIME_FORMS[c["tf"]], ic.OFF_FORMS[c["of"]])
                    ctx.violation("under calendar.setfirstweekday(%d) isoparse(%r) [%s] = %s, the rendered datetime is %s"
                                  % (k, s, name, got, c["expected"]),
                                  {"entry": "isoparse", "sep": None, "kind": "bytes", "string": s, "form": name,
                                   "expected": c["expected"], "firstweekday": k}, {"impl": got, "render_request": c["line"]})
    finally:
        calendar.setfirstweekday(saved_fwd)
    # offsets exhaustively through parse_tzstr
    for (s, zero, exp) in tz_cases():
        got = ic.impl_tz(s, zero)
        ctx.case(("tz", zero, "str", s))
        ctx.count("entry_tz_exhaustive")
        if got != exp:
            ctx.violation("parse_tzstr(%r, zero_as_utc=%s) = %s, expected %s" % (s, zero, got, exp),
                          {"entry": "tz", "sep": None, "kind": "str", "string": s, "zero_as_utc": zero, "expected": exp}, {"impl": got})
    # converse on near-valid strings: whatever the spec recognises must be parsed to a recognised value
    rng = ctx.subrng("c07-converse")
    lines, meta = ic.base_render_lines(84)
    bases = sorted({ic.parse_render(r)[0].decode("ascii") for r in ctx.driver(lines) if ic.parse_render(r)[2]})
    strs = set(bases)
    n = ctx.budget(25000, 400000)
    while len(strs) < n:
        b = rng.choice(bases)
        m = ic.random_edit(b, rng, ic.ALPHABET[:21])
        if rng.random() < 0.3:
            m = ic.random_edit(m, rng, ic.ALPHABET[:21])
        strs.add(m)
    strs = sorted(strs)
    rec = ctx.driver(["iso.recognise 2 - %s" % vlib.hexs(x) for x in strs])   # readings with a digit separator excluded
    for x, r in zip(strs, rec):
        vals = ic.spec_values(r)
        if not vals:
            ctx.count("converse_not_recognised")
            continue
        got = ic.impl_parse(None, x)
        ctx.case(("isoparse", None, "str", x))
        ctx.count("converse_recognised")
        if got not in vals:
            ctx.violation("isoparse(%r) = %s but the string is the ISO-8601 representation of %s" % (x, got, vals),
                          {"entry": "isoparse", "sep": None, "kind": "str", "string": x, "expected": vals[0]}, {"impl": got, "spec": vals})


def replay(ctx, payload):
    c = payload["violation"]["case"]
    if "firstweekday" in c:
        import calendar
        calendar.setfirstweekday(c["firstweekday"])
    got = ic.entry_impl(c["entry"], c["string"], c.get("sep"), c.get("zero_as_utc", True), c.get("kind", "str"))
    print("%s(%r) sep=%r kind=%s: impl=%s expected=%s" % (c["entry"], c["string"], c.get("sep"), c.get("kind"), got, c["expected"]))
    return got == c["expected"]
