"""C18 — zone factories return one shared object per key, safely under threads; zone equality,
copies and pickles."""
import os, sys, gc, copy, pickle, random, datetime, warnings, weakref, time, json, itertools, collections
import basecorr
import sched18 as S
import resolve18 as RV
from vlib import hexs

PROP = "C18"
TRUSTED = [
    "the method bodies _TzSingleton.__call__, _TzFactory.instance, _TzOffsetFactory.__call__, _TzStrFactory.__call__, GettzFunc.__call__ / "
    "set_cache_size / cache_clear are TRANSLATED from /repo's working tree on every run (harness/translate_factory.py -> "
    "Generated/FactoryPrograms.lean, a statement IR; anything outside the fragment is Untranslatable = broken tie); theorem C18.program_sim "
    "shows that interpreting the generated programs (flatten + execute the instruction at the pc) IS the state machine of Model/Factory.lean "
    "about which the theorems are stated; the translator is validated on every run by fact.runir (the interpreter on the generated programs "
    "vs the instrumented implementation: same scripts and schedules as fact.run); the scheduler's line->pc tables come from the same AST walk",
    "still hand-modelled (Model/FactoryIR.lean `exec`, trusted): the meaning of the primitives — WeakValueDictionary.get (one read), "
    ".setdefault (construct, read, write if nothing was read), __setitem__, replacing the dictionary; OrderedDict pop/__setitem__ (touch), "
    "popitem(last=False), clear, len; `with lock:` = acquire … release on every exit; object construction = allocate, finish __init__, or "
    "raise; the ghost bookkeeping (hand-over of the reference at the `with` exit, epochs, event log); which method a script operation calls; "
    "GettzFunc.nocache entered by its result class (its decision logic is Model/GettzResolve.lean, a hand model tied by gettz.resolve); "
    "garbage collection and reference drops as environment steps",
    "Model/Factory.lean (the same machine written out pc by pc) is tied additionally by fact.run: same scripts and same thread schedules on "
    "the real factories and on the model (pc after every statement, identity classes of the results, LRU order, live weak keys)",
    "standard library: one read / one write of the weak dictionary and the removal of a dead entry are single model steps "
    "(WeakValueDictionary.setdefault is modelled as read-then-write, NOT atomic); lock acquire/release give mutual exclusion; "
    "OrderedDict.pop/__setitem__/popitem(last=False)/clear/len have their sequential meaning (they only run under the lock: lock_discipline)",
    "garbage collection is over-approximated: a weak entry may vanish at any step once its object has no strong reference "
    "(strong cache, callers, local variables of any thread); the driver runs the CPython schedule (collect at once)",
    "harness/sched18.py: threads are scheduled one source line at a time through sys.settrace and an instrumented lock "
    "substituted for the factory's cache lock; fresh factories are subclasses re-running the metaclass __init__ / a new GettzFunc",
    "Model/GettzResolve.lean mirrors GettzFunc.nocache statement by statement over an abstract environment; tied by gettz.resolve: "
    "the real nocache / GettzFunc.__call__ run on a temporary zoneinfo tree with patched TZPATHS, TZFILES, TZ (tzset), vendored "
    "database; the environment sent to the model is probed with Python's own os.path.join / str.replace / os.path.isfile / tzfile()",
    "copy / deepcopy / pickle are not modelled: that clause of the property is decided by the oracle sweep only",
    "zone __eq__ table (Model/Factory.lean eqMethod/pyEq) tied by zone.eq / zone.eqm on every ordered pair of a pool of all zone kinds",
]
ASSUMPTIONS = [
    "pre-emption inside WeakValueDictionary.setdefault is modelled (read / write are two steps) and exercised on the implementation by the "
    "fine-granularity stream (line events inside weakref.py); pre-emption inside C-level dict / OrderedDict operations is not (GIL-atomic)",
    "in the factory state machine gettz.nocache(name) enters by its result class (new cacheable zone / tzlocal-or-unnamed / None / existing "
    "shared object: tz.UTC or a vendored entry / raises); the class is "
    "what Model/GettzResolve.lean computes (cacheClass, theorem gettz_caches_exactly, tied by the cache-class comparison of gettz.resolve); "
    "whether tzstr accepts a string is a parameter of the resolution model (the TZ-string grammar is C08's); tz/win.py is not modelled; "
    "a constructor / nocache raising under the lock is a path of the state machine (Res.raises -> xRelX, theorem exception_releases_lock; "
    "exercised under threads with tzoffset('A','x'), tzstr('1'), gettz(b'x')); which names raise is a parameter (gettz raising on an unreadable "
    "file is characterised by resolve_raises_only_on_unreadable_file; the property does not require anything there)",
    "set_cache_size is called with a non-negative integer",
    "tzutc: the singleton slot is filled by `UTC = tzutc()` while tz.py is imported (checked by the oracle); the theorem for the "
    "singleton assumes that initial state, and the model exhibits the two-object race of an un-initialised _TzSingleton class",
    "tzfile / tzrange payloads are abstract in the equality model (the compared attributes up to ==); that equal payloads give "
    "equal offsets is checked on the implementation over a grid of instants, not proved here (C04/C06/C08 own those models)",
]
RULE = ("scripted single-thread sequences (call / instance / drop / gc / set_cache_size / cache_clear; keys include ones whose "
        "constructor raises and gettz names resolving to a shared object) over 21-27 keys with strong-cache sizes 0..8; 2-4 thread "
        "schedules at statement granularity: for each fixed case EVERY schedule within a preemption bound when the evidence says "
        "`exhaustive` for that case (quick tier: bound 1 for two threads, bound 0 for three; thorough tier: bounds 2-3 with a run budget, "
        "truncated cases are flagged), then seeded random cases with random schedules and reference drops (every fourth also pre-empted "
        "inside weakref.py); gettz name resolution on a temporary zoneinfo tree (sampled environments in the quick tier, all 980 in the "
        "thorough tier); plus the direct oracle on the process-wide factories and all ordered pairs / copies / pickles of a pool of every "
        "zone kind. distinct = distinct (factory, cap, scripts, schedule) or (check, inputs) — re-executions are not counted; "
        "non-trivial = at least one cached request completed / a comparison between two zones / a resolution other than None")

FLAVOURS = ["tzoffset", "tzstr", "gettz"]


def _quiet():
    warnings.simplefilter("ignore")


# ======================================================================================
# scripted single-thread runs
# ======================================================================================
class frozen_heap:
    """The schedulers call gc.collect() in their environment steps (a dropped reference must die at once).  A full collection
    costs time linear in the number of tracked objects, and the records of the runs pile up: with the thorough / escalated budgets
    (~20 000 runs after ~5 000 scripts) the loops became quadratic (a run against a tree whose translation is broken took 50 min).
    Everything allocated so far is moved to the permanent generation (gc.freeze) for the duration of the loop, and again every
    `every` iterations, so a collection only walks what the loop itself allocated.  Objects still die by reference count."""
    def __init__(self, every=100):
        self.every, self.n = every, 0

    def __enter__(self):
        gc.collect(); gc.freeze()
        return self

    def tick(self):
        self.n += 1
        if self.n % self.every == 0:
            gc.collect(); gc.freeze()

    def __exit__(self, *a):
        gc.unfreeze()


def gen_script(rng, spec, nkeys, length):
    ops, nret = [], 0
    live = []
    pool = rng.sample(range(nkeys), min(nkeys, rng.choice([3, 6, 12, nkeys])))
    for _ in range(length):
        r = rng.random()
        if r < 0.58:
            k = rng.choice(pool)
            ops.append(("call", k, rng.randrange(2)))
            live.append(None)
        elif r < 0.78:
            ops.append(("drop", rng.randrange(0, max(1, len(live) + 2))))
        elif r < 0.84:
            ops.append(("gc",))
        elif r < 0.90:
            ops.append(("fresh", rng.choice(pool)))
        elif spec == "gettz" and r < 0.95:
            ops.append(("setsize", rng.choice([0, 1, 2, 3, 8, 12])))
        elif spec == "gettz":
            ops.append(("clear",))
        else:
            ops.append(("call", rng.choice(pool), 0))
    return ops


def scripted_runs(ctx, n_per_flavour):
    rng = ctx.subrng("scripts")
    out = []
    with S.gettz_env(), frozen_heap() as fh:
        for spec in FLAVOURS:
            for i in range(n_per_flavour):
                fh.tick()
                cap = rng.choice([0, 1, 2, 3, 5, 8])
                fac = S.make_factory(spec, cap)
                ops = gen_script(rng, spec, fac.nkeys, rng.randrange(5, 60))
                obs, req = S.run_script(fac, ops)
                held = [(op_key, o) for op_key, o in obs.pop("held_objs").items()]
                out.append({"spec": spec, "cap": cap, "ops": [list(o) for o in ops], "obs": obs, "req": req})
                del fac, held
    return out


# ======================================================================================
# threaded runs
# ======================================================================================
FIXED_CASES = [
    # (spec, cap, scripts, preemption bound)
    ("tzoffset", 1, [[("call", 0, 0)], [("call", 0, 1)]], 3),
    ("tzoffset", 1, [[("call", 0, 0), ("call", 1, 0)], [("call", 1, 1), ("call", 0, 1)]], 2),
    ("tzstr", 1, [[("call", 0, 0)], [("call", 0, 1)]], 3),
    ("tzstr", 0, [[("call", 2, 0), ("call", 3, 0)], [("call", 3, 1)]], 2),
    ("gettz", 1, [[("call", 0, 0)], [("call", 0, 1)]], 3),
    ("gettz", 1, [[("call", 0, 0), ("call", 1, 0)], [("call", 1, 1), ("setsize", 0)]], 2),
    ("gettz", 2, [[("call", 0, 0)], [("clear",)], [("call", 0, 1)]], 2),
    ("gettz", 1, [[("call", 18, 0)], [("call", 20, 0)], [("call", 0, 1)]], 1),
    ("single", 8, [[("call", 0)], [("call", 0)]], 3),
    ("single0", 8, [[("call", 0)], [("call", 0)]], 3),
    ("tzoffset", 1, [[("call", 0, 0)], [("call", 0, 1)], [("call", 0, 0)]], 2),
    # exceptional exits of the critical section: one thread's constructor raises under the lock
    ("tzoffset", 1, [[("call", 20, 0)], [("call", 0, 0)]], 3),
    ("tzstr", 1, [[("call", 20, 0), ("call", 0, 0)], [("call", 0, 1)]], 2),
    ("gettz", 1, [[("call", 26, 0)], [("call", 0, 0)], [("call", 26, 1)]], 2),
    # set_cache_size / cache_clear concurrently with requests
    ("gettz", 8, [[("call", 0, 0), ("call", 0, 1)], [("setsize", 0)]], 2),
    ("gettz", 2, [[("call", 0, 0)], [("setsize", 0)], [("call", 0, 1)]], 1),
    ("gettz", 1, [[("call", 0, 0), ("call", 1, 0)], [("clear",)], [("setsize", 1)]], 1),
    ("gettz", 0, [[("call", 0, 0), ("setsize", 3)], [("call", 1, 1), ("setsize", 1)]], 2),
    # names that resolve to an existing shared object (UTC / GMT -> tz.UTC, vendored entry)
    ("gettz", 1, [[("call", 22, 0), ("fresh", 23)], [("call", 23, 1), ("fresh", 24)]], 2),
]


# beyond statement granularity (pre-emption inside the Python body of WeakValueDictionary.setdefault)
FINE_CASES = [
    ("tzoffset", 1, [[("call", 0, 0)], [("call", 0, 1)]], 2),
    ("tzstr", 1, [[("call", 0, 0)], [("call", 0, 1)]], 2),
    ("gettz", 1, [[("call", 0, 0)], [("call", 0, 1)]], 2),
    ("tzstr", 0, [[("call", 0, 0)], [("call", 0, 1)], [("call", 0, 0)]], 1),
    ("tzoffset", 1, [[("call", 0, 0), ("call", 1, 0)], [("call", 1, 1), ("call", 0, 1)]], 1),
    ("gettz", 8, [[("call", 0, 0)], [("setsize", 0)], [("call", 0, 1)]], 1),
    ("gettz", 2, [[("call", 0, 0), ("clear",)], [("call", 0, 1), ("setsize", 0)]], 1),
]


def gen_case(rng):
    spec = rng.choice(["tzoffset", "tzstr", "gettz", "gettz", "single"])
    nthreads = rng.choice([2, 2, 3, 4])
    cap = rng.choice([0, 1, 2, 8])
    if spec == "single":
        return spec, 8, [[("call", 0)] * rng.randrange(1, 3) for _ in range(nthreads)]
    nkeys = {"tzoffset": len(S.OFFSET_KEYS), "tzstr": len(S.STR_KEYS)}.get(spec)
    if spec == "gettz":
        nz = len(S.zoneinfo_names())
        pool = rng.sample(range(nz), 2) + ([nz + rng.randrange(2)] if rng.random() < 0.3 else []) + \
               ([nz + 2 + rng.randrange(2)] if rng.random() < 0.3 else []) + \
               ([nz + 4 + rng.randrange(4)] if rng.random() < 0.35 else []) + ([nz + 8] if rng.random() < 0.25 else [])
    else:
        pool = rng.sample(range(nkeys - 1), rng.choice([1, 2, 3])) + ([nkeys - 1] if rng.random() < 0.3 else [])
    scripts = []
    for _ in range(nthreads):
        sc = []
        for _ in range(rng.randrange(1, 4)):
            r = rng.random()
            if r < 0.75:
                sc.append(("call", rng.choice(pool), rng.randrange(2)))
            elif r < 0.85:
                sc.append(("fresh", rng.choice(pool)))
            elif spec == "gettz" and r < 0.93:
                sc.append(("setsize", rng.choice([0, 1, 2])))
            elif spec == "gettz":
                sc.append(("clear",))
            else:
                sc.append(("call", rng.choice(pool), 0))
        scripts.append(sc)
    return spec, cap, scripts


def summarize(rec, spec, cap, scripts, extra):
    d = {"mode": "threads", "spec": spec, "cap": cap, "scripts": [[list(o) for o in sc] for sc in scripts],
         "schedule": rec["schedule"], "req": rec["request"], "labels": rec["labels"], "expect": rec["expect"],
         "rets": rec["rets"], "errors": rec["errors"], "deadlock": rec["deadlock"], "all_returned": rec["all_returned"],
         "dups": rec["dups"], "lock_balanced": rec["lock_balanced"], "strong": rec["strong"], "weak": rec["weak"],
         "cap_now": rec["cap"], "steps": rec["steps"], "unmapped": rec["unmapped"],
         "lock_leaked": rec["lock_leaked"], "not_fresh": rec["not_fresh"], "dups_any_epoch": rec["dups_any_epoch"]}
    d.update(extra)
    return d


def record_explore(ctx, cid, spec, scripts, bound, executed, distinct, exhaustive):
    """per case: how many DISTINCT schedules were executed and whether that was every schedule within the bound"""
    ctx.hist["explore_%s_%s_bound%d_distinct_schedules" % (cid, spec, bound)] = distinct
    ctx.hist["explore_%s_%s_bound%d_exhaustive" % (cid, spec, bound)] = int(bool(exhaustive))
    ctx.count("explore_executions", executed)
    ctx.count("explore_cases_exhaustive" if exhaustive else "explore_cases_truncated")
    ctx.note("schedule enumeration %s (%s, %d threads, preemption bound %d): %d distinct schedules, %s"
             % (cid, spec, len(scripts), bound, distinct,
                "EXHAUSTIVE (every schedule within the bound)" if exhaustive else "TRUNCATED by the run budget (not all schedules within the bound)"))


def threaded_runs(ctx):
    """every schedule within the preemption bound for the fixed cases, then seeded random ones"""
    if getattr(ctx, "_c18_threads", None) is not None and (getattr(ctx, "_c18_threads_full", False) or not ctx.escalated):
        return ctx._c18_threads
    # (a broken obligation / a correspondence difference escalates: the failing-input search repeats the enumeration
    #  with the thorough bounds and budgets)
    ctx._c18_threads_full = (ctx.tier == "thorough" or ctx.escalated)
    for k in [k for k in ctx.hist if k.startswith("explore_")]:
        del ctx.hist[k]
    ctx.notes[:] = [n for n in ctx.notes if not n.startswith("schedule enumeration")]
    runs = []
    ctx._c18_shape = []
    max_runs = ctx.budget(160, 700)
    with S.gettz_env(), frozen_heap(every=50) as fh:
        for ci, (spec, cap, scripts, bound) in enumerate(FIXED_CASES):
            b = bound if ctx.tier == "thorough" or ctx.escalated else (1 if len(scripts) <= 2 else 0)   # quick: small bounds, meant to be exhaustive
            def make(spec=spec, cap=cap, scripts=scripts):
                return S.make_factory(spec, cap), scripts
            def on_run(rec, fac, scripts, spec=spec, cap=cap, ci=ci):
                fh.tick()
                runs.append(summarize(rec, spec, cap, scripts, {"policy": "prefix", "case": ci}))
            try:
                ex, distinct, exhaustive = S.explore(make, b, max_runs, on_run)
                record_explore(ctx, "case%d" % ci, spec, scripts, b, ex, distinct, exhaustive)
            except S.ShapeChanged as ex:
                ctx._c18_shape.append("%s: %s" % (spec, ex))
        for ci, (spec, cap, scripts, bound) in enumerate(FINE_CASES):
            def make(spec=spec, cap=cap, scripts=scripts):
                return S.make_factory(spec, cap), scripts
            def on_run(rec, fac, scripts, spec=spec, cap=cap, ci=ci):
                fh.tick()
                runs.append(summarize(rec, spec, cap, scripts, {"policy": "prefix", "case": "fine%d" % ci, "fine": True}))
            try:
                b = bound if ctx.tier == "thorough" or ctx.escalated else (1 if len(scripts) <= 2 else 0)
                ex, distinct, exhaustive = S.explore(make, b, ctx.budget(160, 400), on_run, fine=True)
                record_explore(ctx, "fine%d" % ci, spec, scripts, b, ex, distinct, exhaustive)
            except S.ShapeChanged as ex:
                ctx._c18_shape.append("%s: %s" % (spec, ex))
        rng = ctx.subrng("threads")
        for i in range(ctx.budget(150, 2000)):
            fh.tick()
            spec, cap, scripts = gen_case(rng)
            seed = rng.randrange(1 << 30)
            rate = rng.choice([0.0, 0.05, 0.15])
            fine = (i % 4 == 3)          # every fourth run also pre-empts inside weakref.py
            stick = rng.choice([0.2, 0.5, 0.8])
            try:
                fac = S.make_factory(spec, cap)
                rec = S.run_threads(fac, scripts, S.RandomPolicy(random.Random(seed), stick),
                                    env_rng=random.Random(seed + 1), env_rate=rate, fine=fine)
            except S.ShapeChanged as ex:
                ctx._c18_shape.append("%s: %s" % (spec, ex))
                continue
            runs.append(summarize(rec, spec, cap, scripts, {"policy": "random", "seed": seed, "env_rate": rate,
                                                            "fine": fine, "stickiness": stick}))
    ctx._c18_threads = runs
    return runs


def free_running(ctx, n_threads, n_iter):
    """smoke stream: real preemptive threads hammering the process-wide factories (no scheduling
    control; cannot be replayed).  Returns a list of failures."""
    from dateutil import tz
    fails = []
    names = S.zoneinfo_names()[:12]
    start = threading_barrier(n_threads)
    res = [[] for _ in range(n_threads)]
    errs = []

    def work(i):
        rng = random.Random(i)
        start.wait()
        try:
            for j in range(n_iter):
                r = rng.randrange(4)
                if r == 0:
                    k = rng.randrange(12); res[i].append((("offset", k), tz.tzoffset("N%d" % k, k * 60)))
                elif r == 1:
                    k = rng.randrange(12); res[i].append((("str", k), tz.tzstr("AAA%d" % (k + 1))))
                elif r == 2:
                    k = rng.randrange(len(names)); res[i].append((("gettz", k), tz.gettz(names[k])))
                else:
                    res[i].append((("utc", 0), tz.tzutc()))
        except Exception as ex:       # noqa
            errs.append("%s: %s" % (type(ex).__name__, ex))
    import threading
    ths = [threading.Thread(target=work, args=(i,)) for i in range(n_threads)]
    old = sys.getswitchinterval()
    sys.setswitchinterval(1e-6)
    try:
        for t in ths:
            t.start()
        for t in ths:
            t.join(120)
    finally:
        sys.setswitchinterval(old)
    if any(t.is_alive() for t in ths):
        fails.append(("a call did not return", {}))
    for e in errs:
        fails.append(("exception " + e, {}))
    by = {}
    for r in res:
        for k, o in r:
            by.setdefault(k, [])
            if not any(o is x for x in by[k]):
                by[k].append(o)
    for k, v in by.items():
        if len(v) > 1:
            fails.append(("two live objects for %r" % (k,), {"key": list(k)}))
    return fails


def threading_barrier(n):
    import threading
    return threading.Barrier(n)


# ======================================================================================
# zone pool, equality encoding
# ======================================================================================
THOROUGH_GRID = False


def grid():
    out = []
    # (1800 and 2200: before the first / after the last transition of every 32-bit table -> ttinfo_before / ttinfo_std)
    years = (1800, 1900, 1917, 1941, 1969, 1970, 1987, 1999, 2000, 2007, 2015, 2020, 2024, 2037, 2050, 2099, 2200) if THOROUGH_GRID \
        else (1800, 1917, 1970, 2000, 2015, 2024, 2050, 2200)
    days = ((1, 0, 30), (9, 2, 30), (14, 1, 59), (28, 12, 0), (25, 1, 30), (31, 23, 59)) if THOROUGH_GRID \
        else ((9, 2, 30), (28, 1, 30), (31, 23, 59))
    for y in years:
        for m in range(1, 13):
            for d, hh, mi in days:
                try:
                    out.append(datetime.datetime(y, m, d, hh, mi))
                except ValueError:
                    pass
    return out


GRID = None


def behaviour(z, g=None):
    """(utcoffset, dst, tzname) at every grid instant and fold, plus fromutc"""
    global GRID
    if GRID is None:
        GRID = grid()
    g = g or GRID
    out = []
    for dt in g:
        for fold in (0, 1):
            a = dt.replace(tzinfo=z, fold=fold)
            try:
                out.append((a.utcoffset(), a.dst(), a.tzname()))
            except Exception as ex:      # noqa
                out.append(("raised", type(ex).__name__, None))
        try:
            out.append(z.fromutc(dt.replace(tzinfo=z)).replace(tzinfo=None))
        except Exception as ex:      # noqa
            out.append(type(ex).__name__)
    return out


def offsets_only(beh):
    return [b[:2] if isinstance(b, tuple) else b for b in beh]


def zone_pool(tzenv):
    """[(label, zone)] of every kind, built under process TZ = tzenv"""
    from dateutil import tz
    from dateutil.relativedelta import relativedelta, SU
    zs = []
    add = lambda l, z: zs.append((l, z))
    add("tzutc()", tz.tzutc()); add("tz.UTC", tz.UTC)
    for n, o in ((None, 0), ("UTC", 0), ("GMT", 0), ("A", 3600), ("B", 3600), ("A", -3600), ("XYZ", -10800),
                 ("EST", -18000), ("X", datetime.timedelta(minutes=90)), ("Y", datetime.timedelta(seconds=5400))):
        add("tzoffset(%r,%r)" % (n, o), tz.tzoffset(n, o))
    add("tzoffset.instance('A',3600)", tz.tzoffset.instance("A", 3600))
    add("tzlocal()@%s" % tzenv, tz.tzlocal()); add("tzlocal()#2@%s" % tzenv, tz.tzlocal())
    for n in ("Europe/Paris", "America/New_York", "UTC", "Etc/UTC", "Asia/Kolkata", "Europe/Dublin", "Etc/GMT+3"):
        z = tz.gettz(n)
        if z is not None:
            add("gettz(%r)" % n, z)
    p = "/usr/share/zoneinfo/Europe/Paris"
    if os.path.isfile(p):
        add("tzfile(Paris)", tz.tzfile(p)); add("gettz.nocache(Paris)", tz.gettz.nocache("Europe/Paris"))
    add("tzrange(EST,-18000,EDT)", tz.tzrange("EST", -18000, "EDT"))
    add("tzrange(EST,-18000,EDT)#2", tz.tzrange("EST", -18000, "EDT"))
    add("tzrange(EST,-18000)", tz.tzrange("EST", -18000))
    add("tzrange(EST)", tz.tzrange("EST"))
    add("tzrange(AAA,3600,BBB,7200,..)", tz.tzrange("AAA", 3600, "BBB", 7200,
        relativedelta(hours=+2, month=3, day=1, weekday=SU(+2)), relativedelta(hours=+1, month=11, day=1, weekday=SU(+1))))
    add("tzrange(EST,-18000,EDT,-14400)", tz.tzrange("EST", -18000, "EDT", -14400))
    for s, px in (("EST5EDT", False), ("EST5EDT", True), ("EST5EDT,M3.2.0,M11.1.0", False), ("AAA3", False), ("UTC+3", False),
                  ("UTC+3", True), ("XYZ3", False), ("EST5", False), ("AAA-1BBB,M3.2.0,M11.1.0", False),
                  ("CET-1CEST,M3.5.0,M10.5.0/3", False)):
        add("tzstr(%r,%r)" % (s, px), tz.tzstr(s, px))
    add("tzstr.instance('EST5EDT')", tz.tzstr.instance("EST5EDT"))
    # the LABEL of a tzfile (filename= argument, path string, archive member name) is not part of its value: zones with the same
    # label and different data must not compare equal ("equal zones report equal offsets at every instant")
    import io
    root = "/usr/share/zoneinfo"
    def data(n):
        q = os.path.join(root, n)
        return open(q, "rb").read() if os.path.isfile(q) else None
    for lab, names in (("same-label", ("Europe/Paris", "America/New_York", "Europe/Paris")),
                       (os.path.join(root, "Europe/Paris"), ("Asia/Kolkata",)), ("", ("Europe/Dublin", "Asia/Kolkata"))):
        for k, n in enumerate(names):
            d = data(n)
            if d is not None:
                add("tzfile(BytesIO(%s)#%d,filename=%r)" % (n, k, lab), tz.tzfile(io.BytesIO(d), filename=lab))
    for n in ("Europe/Paris", "America/New_York"):
        d = data(n)
        if d is not None:
            z = _archive_member("Zone/Member", d)
            if z is not None:
                add("archive[Zone/Member<-%s]" % n, z)
    return zs


def _archive_member(member, data):
    """the entry `member` of a ZoneInfoFile archive built in memory around one TZif file"""
    import io, tarfile
    from dateutil.zoneinfo import ZoneInfoFile
    buf = io.BytesIO()
    with tarfile.open(fileobj=buf, mode="w:gz") as tf:
        ti = tarfile.TarInfo(member); ti.size = len(data)
        tf.addfile(ti, io.BytesIO(data))
    buf.seek(0)
    with warnings.catch_warnings():
        warnings.simplefilter("ignore")
        return ZoneInfoFile(buf).get(member)


def has_weekday(z):
    """a tzrange / tzstr whose start or end relativedelta carries a `weekday` object (a __slots__ class)"""
    return any(getattr(getattr(z, a, None), "weekday", None) is not None for a in ("_start_delta", "_end_delta"))


class Encoder:
    """zones -> the wire form of Model/Factory.lean's `Zone` (payloads abstracted up to ==)"""
    def __init__(self):
        self.files, self.deltas = [], []

    def _cls(self, pool, v, eq):
        for i, x in enumerate(pool):
            if eq(x, v):
                return i
        pool.append(v)
        return len(pool) - 1

    def us(self, td):
        return (td.days * 86400 + td.seconds) * 1000000 + td.microseconds

    def name(self, n):
        return hexs("\x00None" if n is None else n)

    def enc(self, z):
        from dateutil import tz
        if isinstance(z, tz.tzutc):
            return "u"
        if isinstance(z, tz.tzoffset):
            return "o:%s:%d" % (self.name(z._name), self.us(z._offset))
        if isinstance(z, tz.tzlocal):
            return "l:%d:%d:%d:%s" % (self.us(z._std_offset), self.us(z._dst_offset), int(bool(z._hasdst)), self.name(z._tznames[0]))
        if isinstance(z, tz.tzfile):
            key = (z._trans_list, z._trans_idx, z._ttinfo_list)
            return "f:%d" % self._cls(self.files, key, lambda a, b: a[0] == b[0] and a[1] == b[1] and a[2] == b[2])
        if isinstance(z, tz.tzrange):
            six = "%s:%s:%d:%d:%d:%d" % (self.name(z._std_abbr), self.name(z._dst_abbr), self.us(z._std_offset), self.us(z._dst_offset),
                                         self._cls(self.deltas, z._start_delta, lambda a, b: a == b),
                                         self._cls(self.deltas, z._end_delta, lambda a, b: a == b))
            if isinstance(z, tz.tzstr):
                return "s:%s:%s:%d" % (six, hexs(z._s), int(bool(getattr(z, "_posix_offset", False))))
            return "r:" + six
        return None


def eq_method(a, b):
    r = type(a).__eq__(a, b)
    return "ni" if r is NotImplemented else ("t" if r else "f")


TZENVS = ["UTC", "EST5EDT", "XYZ3", "GMT0"]


# ======================================================================================
# name resolution order of gettz under a controlled environment
# ======================================================================================
def resolve_runs(ctx):
    """real gettz.nocache / GettzFunc.__call__ on a temporary zoneinfo tree with patched TZPATHS / TZFILES /
    TZ / vendored database; the tree is removed before returning"""
    if getattr(ctx, "_c18_resolve", None) is not None:
        return ctx._c18_resolve
    rng = ctx.subrng("resolve")
    out = []
    tree = RV.Tree()
    try:
        envs = list(RV.environments(tree))
        n = ctx.budget(60, len(envs))
        if n < len(envs):
            envs = rng.sample(envs, n)
        canon = lambda x: x.replace(tree.root, "$R") if isinstance(x, str) else x
        for tzvar, files, paths, vend in envs:
            with RV.patched(tzvar, files, paths, vend) as env:
                for name in RV.names(tree, rng):
                    cc, locked = RV.cache_class(env, name)
                    out.append({"op": "resolve", "tzvar": canon(tzvar), "tzfiles": [canon(x) for x in files],
                                "tzpaths": [canon(x) for x in paths], "vendored": sorted(vend.zones), "tzname": env.tzname,
                                "name": canon(name), "req": RV.model_request(env, name), "impl": canon_hex(RV.run_impl(env, name), tree),
                                "spec": canon_hex(RV.spec(env, name), tree), "cache_class": cc, "lock_left_held": locked})
        ctx._c18_bytes = None
        with RV.patched(None, [], [tree.zi1], RV.Vendored({})) as env:
            from dateutil import tz
            try:
                tz.gettz(b"Europe/Paris"); ctx._c18_bytes = "returned"
            except TypeError:
                ctx._c18_bytes = "TypeError"
            except Exception as ex:      # noqa
                ctx._c18_bytes = type(ex).__name__
    finally:
        tree.close()
    ctx._c18_resolve_root = tree.root
    ctx._c18_resolve = out
    return out


def canon_hex(res, tree):
    """`ok file <hex>` with the temporary root replaced (so that cases are comparable across runs)"""
    parts = res.split(" ")
    if len(parts) == 3 and parts[1] == "file":
        try:
            p = bytes.fromhex(parts[2]).decode("utf-8", "surrogatepass") if parts[2] != "." else ""
            return "ok file " + p.replace(tree.root, "$R")
        except ValueError:
            return res
    if len(parts) == 3 and parts[1] in ("vendored", "tzstr"):
        return "ok %s %s" % (parts[1], bytes.fromhex(parts[2]).decode("utf-8", "surrogatepass") if parts[2] != "." else "")
    return res


def resolve_case(r):
    return {k: r[k] for k in ("op", "tzvar", "tzfiles", "tzpaths", "vendored", "tzname", "name", "impl", "spec")}


def ir_request(spec, req):
    """the same request for `fact.runir`: executed by the interpreter of the programs translated from the source"""
    assert req.startswith("fact.run ")
    return "fact.runir %s %s" % ("str" if spec == "tzstr" else "offset", req[len("fact.run "):])


# ======================================================================================
# correspondence
# ======================================================================================
def correspondence(ctx):
    _quiet()
    basecorr.run(ctx)
    # ---- (a) scripted single-thread runs vs the model ----
    runs = scripted_runs(ctx, ctx.budget(80, 1000))
    resp = ctx.driver([r["req"] for r in runs])
    resp_ir = ctx.driver([ir_request(r["spec"], r["req"]) for r in runs])      # translator validation
    for r, m, mi in zip(runs, resp, resp_ir):
        diffs = S.compare_script(r["obs"], S.parse_model(m))
        ctx.count("scripted_%s" % r["spec"])
        ctx.count("scripted_ops", len(r["ops"]))
        if diffs:
            ctx.mismatch("fact.run(script)", {"spec": r["spec"], "cap": r["cap"], "ops": r["ops"]}, r["obs"], {"model": m, "diffs": diffs})
        diffs = S.compare_script(r["obs"], S.parse_model(mi))
        if diffs:
            ctx.mismatch("fact.runir(script): translated programs vs implementation", {"spec": r["spec"], "cap": r["cap"], "ops": r["ops"]},
                         r["obs"], {"model": mi, "diffs": diffs})
    ctx.traces += 2 * len(runs)
    # ---- (b) threads, statement by statement ----
    truns = threaded_runs(ctx)
    # a method outside the translated fragment has no statement table: those runs are scheduled and checked by the oracle
    # but cannot be compared with the model; the broken tie itself is reported by the translator (Generated/FactoryPrograms,
    # C18.program_sim) — this replaces the former "source-shape" audit
    for msg in sorted(set(list(ctx._c18_shape) + [m for r in truns for m in r["unmapped"]]))[:4]:
        ctx.note("no statement table (translator): " + msg)
        ctx.count("threaded_runs_without_statement_table", sum(1 for r in truns if r["unmapped"]))
    truns = [r for r in truns if not r["unmapped"]]
    resp = ctx.driver([r["req"] for r in truns])
    resp_ir = ctx.driver([ir_request(r["spec"], r["req"]) for r in truns])
    for r, m, mi in zip(truns, resp, resp_ir):
        rec = {"labels": r["labels"], "expect": r["expect"], "rets": r["rets"], "all_returned": r["all_returned"],
               "strong": r["strong"], "weak": r["weak"], "cap": r["cap_now"]}
        diffs = S.compare_threads(rec, S.parse_model(m))
        ctx.count("threads_%s_%s%s" % (r["spec"], r["policy"], "_fine" if r.get("fine") else ""))
        ctx.count("thread_statements", r["steps"])
        if diffs:
            ctx.mismatch("fact.run(threads)", {k: r[k] for k in ("spec", "cap", "scripts", "schedule", "policy")},
                         {"rets": r["rets"], "strong": r["strong"], "weak": r["weak"], "errors": r["errors"]},
                         {"model": m, "diffs": diffs})
        diffs = S.compare_threads(rec, S.parse_model(mi))
        if diffs:
            ctx.mismatch("fact.runir(threads): translated programs vs implementation",
                         {k: r[k] for k in ("spec", "cap", "scripts", "schedule", "policy")},
                         {"rets": r["rets"], "strong": r["strong"], "weak": r["weak"], "errors": r["errors"]},
                         {"model": mi, "diffs": diffs})
    ctx.count("translator_validation_runs", len(runs) + len(truns))
    ctx.traces += 2 * len(truns)
    # ---- gettz name resolution vs the model (`gettz.resolve`) ----
    rr = resolve_runs(ctx)
    root = ctx._c18_resolve_root
    got = ctx.driver([r["req"] for r in rr])
    class _T:                      # canon_hex only needs .root
        pass
    t = _T(); t.root = root
    for r, g in zip(rr, got):
        parts = g.rsplit(" c", 1)
        model_res = canon_hex(parts[0], t) if g.startswith("ok") else g
        model_cc = int(parts[1]) if (g.startswith("ok") and len(parts) == 2) else None
        ctx.count("resolve_" + r["impl"].split(" ")[0] + "_" + (r["impl"].split(" ")[1] if " " in r["impl"] else ""))
        if model_res != r["impl"]:
            ctx.mismatch("gettz.resolve", resolve_case(r), r["impl"], model_res)
        elif model_cc is not None and model_cc != r["cache_class"]:
            ctx.mismatch("gettz.resolve(cache class)", resolve_case(r), r["cache_class"], model_cc)
    ctx.traces += len(rr)
    from props import gzlib; gzlib.validate(ctx, rr, lambda x: canon_hex(x, t))     # the cascade re-translated from the source
    # ---- zone equality table vs the model ----
    reqs, exp, desc = [], [], []
    for env in TZENVS:
        with S.pinned_tz(env):
            pool = zone_pool(env)
            enc = Encoder()
            codes = [enc.enc(z) for _, z in pool]
            for (la, a), ca in zip(pool, codes):
                for (lb, b), cb in zip(pool, codes):
                    reqs.append("zone.eq %s %s %d" % (ca, cb, int(a is b))); exp.append("ok %d" % int(a == b)); desc.append((env, la, lb))
                    reqs.append("zone.eqm %s %s" % (ca, cb)); exp.append("ok " + eq_method(a, b)); desc.append((env, la, lb))
    got = ctx.driver(reqs)
    for q, e, g, d in zip(reqs, exp, got, desc):
        if e != g:
            ctx.mismatch(q.split()[0], {"tz": d[0], "a": d[1], "b": d[2], "wire": q}, e, g)
    ctx.count("zone_eq_pairs", len(reqs) // 2)
    ctx.traces += len(reqs)
    # ---- copies and pickles: the reduce / rebuild model ----
    reduce_correspondence(ctx)
    # ---- tzutc / tzoffset methods re-translated from source (Generated/TzFixedKernels.lean) ----
    import tzhelplib
    tzhelplib.validate_fixed(ctx)
    tzhelplib.validate_local(ctx)


# ======================================================================================
# oracle: the property evaluated directly on the implementation
# ======================================================================================
def oracle(ctx):
    global THOROUGH_GRID, GRID
    _quiet()
    from dateutil import tz
    THOROUGH_GRID, GRID = (ctx.tier == "thorough" or ctx.escalated), None
    # ---- threads: no exception, every call returns, one live object per key ----
    for r in threaded_runs(ctx):
        key = (r["spec"], r["cap"], json.dumps(r["scripts"]), tuple(r["schedule"]), r.get("seed"), r.get("fine"))
        nontriv = any(x[3] and not x[4] for x in r["rets"])           # at least one cached request completed
        ctx.case(key, nontrivial=nontriv)
        case = {k: r[k] for k in ("mode", "spec", "cap", "scripts", "schedule", "policy")}
        for k in ("seed", "env_rate", "fine", "stickiness"):
            if k in r:
                case[k] = r[k]
        if r["errors"]:
            ctx.violation("a factory call raised under threads: %s" % r["errors"][0]["exception"], case, r["errors"])
        if r["deadlock"] or not r["all_returned"]:
            ctx.violation("a factory call did not return (deadlock=%s)" % r["deadlock"], case, None)
        if not r["lock_balanced"] or r["lock_leaked"]:
            ctx.violation("cache lock acquire/release unbalanced (an exception left the call holding the lock: %s)" % (r["lock_leaked"],), case, None)
        if r["not_fresh"]:
            ctx.violation("instance/nocache returned an object that another call of the run also returned: %r" % (r["not_fresh"],), case, None)
        if any(x[5] for x in r["rets"]):
            ctx.count("threaded_runs_with_a_raising_constructor")
        if any(x[6] and not x[3] for x in r["rets"]):
            ctx.count("threaded_runs_with_nocache_of_a_shared_object")
        if r["dups"]:
            if r["spec"] == "single0":
                # a _TzSingleton class whose slot was NOT filled at import: the model predicts this race;
                # tzutc itself is initialised by `UTC = tzutc()` in tz.py (checked below)
                ctx.count("latent_race_uninitialised_singleton_class")
            else:
                ctx.violation("two different live objects for one key: %r" % (r["dups"],), case, {"rets": r["rets"]})
        elif r["dups_any_epoch"] and r["spec"] != "single0":
            # full-strength reading (identity also across cache_clear): reported through the KNOWN mechanism (D-C18-clear)
            ctx.count("threaded_runs_with_two_live_objects_across_cache_clear")
            if ctx.hist["threaded_runs_with_two_live_objects_across_cache_clear"] <= 3:
                ctx.violation("two different live objects for one key, the requests being separated by a cache_clear: %r" % (r["dups_any_epoch"],),
                              dict(case, cross_clear=True, has_clear=any(o[0] == "clear" for sc in r["scripts"] for o in sc)), None)
        if len(ctx.samples) < 3 and r["policy"] == "random" and nontriv:
            ctx.sample({"spec": r["spec"], "cap": r["cap"], "scripts": r["scripts"], "schedule": r["schedule"][:40], "returns": r["rets"][:8]})
    for msg in getattr(ctx, "_c18_shape", [])[:1]:
        ctx.note("statement table: " + msg)
    # ---- free-running threads (smoke) ----
    for what, case in free_running(ctx, 4, ctx.budget(400, 4000)):
        c = {"mode": "free", "what": what}; c.update(case)
        ctx.violation("free-running threads: " + what, c, None)
    ctx.case(("free-running", ctx.seed))
    # ---- name resolution order: the documented order, nothing but the documented results, no exception ----
    for r in resolve_runs(ctx):
        ctx.case(("resolve", r["tzvar"], tuple(r["tzfiles"]), tuple(r["tzpaths"]), tuple(r["vendored"]), r["name"]),
                 nontrivial=r["impl"] not in ("ok none",))
        if r["impl"] != r["spec"]:
            if r["spec"] == "not-a-tzfile":
                # NOT required by C18: an unreadable / non-TZif file met at a point where the code has no handler
                # (absolute path; struct.error from truncated data) makes gettz raise.  The property speaks of
                # well-formed requests; this is recorded as an observation only (DESIGN §0.2), never as a violation.
                ctx.count("resolve_unreadable_file_raises_not_required")
                continue
            kind = "resolve_other_difference"
            ctx.count(kind)
            if ctx.hist[kind] <= 8:            # (the violation list is capped: keep room for everything else)
                ctx.violation("gettz.nocache(%r) gave %s, the documented resolution order gives %s" % (r["name"], r["impl"], r["spec"]),
                              resolve_case(r), None)
        if r["lock_left_held"]:
            ctx.violation("gettz(%r) left the cache lock held" % (r["name"],), dict(resolve_case(r), op="resolve_lock"), None)
    if getattr(ctx, "_c18_bytes", "TypeError") != "TypeError":
        ctx.violation("gettz(bytes) should raise the documented TypeError, got %s" % ctx._c18_bytes, {"op": "resolve_bytes"}, None)
    rs = [r for r in resolve_runs(ctx) if r["impl"].startswith("ok file")]
    if rs:
        ctx.sample({"op": "resolve", "name": rs[0]["name"], "tzpaths": rs[0]["tzpaths"], "result": rs[0]["impl"]})
    # ---- single-thread identity on the process-wide factories ----
    direct_identity(ctx, tz)
    # ---- local-zone names under a TZ switch: never cached, always the zone of the moment ----
    local_names_tz_switch(ctx, tz)
    offset_key_fractions(ctx, tz)
    unresolved_then_resolvable(ctx, tz)
    # ---- equality laws, equal offsets, copies and pickles ----
    for env in TZENVS:
        with S.pinned_tz(env):
            zone_laws(ctx, tz, env)
    ctx.hist["preinitialised_singleton"] = int(tz.tzutc._TzSingleton__instance is tz.UTC)


def local_names_tz_switch(ctx, tz, only=None):
    """HISTORY with the process zone as an input: gettz(<abbreviation of the process zone>) is answered with a tzlocal() when the
    name is neither a zoneinfo key nor a TZ string.  A tzlocal mirrors the environment at construction, so gettz must hand out a
    NEW one on every call and must never retain it (neither in the weak instance map nor in the LRU): after TZ changes (tzset)
    the same name must reflect the new zone, exactly like gettz.nocache(name) and tzlocal() do."""
    import time
    if not hasattr(time, "tzset"):
        ctx.count("local_name_switch_skipped_no_tzset"); return
    rng = ctx.subrng("local-names")
    known = set(S.zoneinfo_names())
    seqs = [("XYZT", ["XYZT4", "XYZT-9", "XYZT4"]), ("QQQ", ["QQQ-3", "QQQ5QQD,M3.2.0,M11.1.0", "QQQ-3:30"]),
            ("WXYZ", ["WXYZ3WXYD", "WXYZ-11", "AAA2WXYZ,M3.2.0,M11.1.0"])]
    for _ in range(ctx.budget(6, 40)):
        nm = "".join(rng.choice("BCDFGHJKLMNPQRSTVWXZ") for _ in range(rng.choice((3, 4, 5))))
        if nm in known or tz.gettz.nocache(nm) is not None and False:
            continue
        envs = []
        for _ in range(rng.choice((2, 3, 4))):
            off = rng.choice((-11, -9, -5, -3, 0, 2, 4, 5, 8, 12))
            envs.append("%s%d" % (nm, off) if rng.random() < 0.7 else "%s%d%sD,M3.2.0,M11.1.0" % (nm, off, nm[:3]))
        seqs.append((nm, envs))
    if only is not None:
        seqs = [(only["name"], only["tzs"])]
    probes = [datetime.datetime(2021, 1, 15, 12, 0), datetime.datetime(2021, 7, 15, 12, 0)]
    for name, tzs in seqs:
        tz.gettz.cache_clear()
        held = []                                  # keep every earlier object referenced: a weak map would still find it
        for step, env in enumerate(tzs):
            with S.pinned_tz(env):
                if name not in time.tzname:
                    ctx.count("local_name_not_in_tzname"); continue
                a = tz.gettz(name); b = tz.gettz(name); f = tz.gettz.nocache(name); want = tz.tzlocal()
                case = {"op": "local_name_switch", "name": name, "tzs": tzs, "step": step}
                if not isinstance(a, tz.tzlocal):
                    ctx.case(("local-name", name, tuple(tzs), step), nontrivial=False); ctx.count("local_name_resolves_elsewhere"); continue
                ctx.case(("local-name", name, tuple(tzs), step)); ctx.count("local_name_switch_step%d" % min(step, 2))
                probs = []
                if a is b:
                    probs.append("gettz(%r) handed out the same tzlocal object twice (a zone that mirrors the process zone must not be cached)" % name)
                if any(a is h or b is h for h in held):
                    probs.append("gettz(%r) returned a tzlocal built under an earlier TZ setting" % name)
                for z, lab in ((a, "gettz"), (b, "gettz#2"), (f, "gettz.nocache")):
                    if not (z == want) or [p.replace(tzinfo=z).utcoffset() for p in probes] != [p.replace(tzinfo=want).utcoffset() for p in probes]:
                        probs.append("%s(%r) under TZ=%s does not reflect the process zone: %s vs tzlocal() %s" % (
                            lab, name, env, [str(p.replace(tzinfo=z).utcoffset()) for p in probes],
                            [str(p.replace(tzinfo=want).utcoffset()) for p in probes]))
                held += [a, b]
                for pr in probs[:1]:
                    ctx.violation(pr, case, probs)
        tz.gettz.cache_clear()


def reduce_correspondence(ctx):
    """copy / pickle MODEL (Model/Reduce.lean, op reduce.rt) against the implementation: for every zone of the pool and every
    protocol 0..5 the shape of `z.__reduce_ex__(p)` (copyreg._reconstructor(cls, datetime.tzinfo, tzinfo()) / copyreg.__newobj__(cls) with the whole `__dict__` as
    state; tzfile: (cls, (None, _filename), __dict__)), and the attribute dictionary of what pickle / copy.copy / copy.deepcopy
    rebuild, attribute by attribute (values abstracted to classes up to ==)."""
    import copyreg
    from dateutil import tz
    import dateutil.zoneinfo as dzi
    names = {tz.tzutc: "tzutc", tz.tzoffset: "tzoffset", tz.tzlocal: "tzlocal", tz.tzrange: "tzrange", tz.tzstr: "tzstr", tz.tzfile: "tzfile"}
    reqs, meta = [], []
    with S.pinned_tz("EST5EDT"):
        pool = zone_pool("EST5EDT")
        for label, z in pool:
            cls = names.get(type(z))
            if cls is None:
                # dateutil.zoneinfo.tzfile reduces to (zoneinfo.gettz, (name,)): the shared per-process archive entry, not a state copy
                if isinstance(z, dzi.tzfile):
                    ctx.count("reduce_zoneinfo_tzfile_by_name")
                    red = z.__reduce__()
                    if not (red[0] is dzi.gettz and red[1] == (z._filename,)):
                        ctx.mismatch("reduce.shape", label, "(zoneinfo.gettz, (name,))", repr(red)[:200])
                continue
            d = dict(z.__dict__)
            keys = sorted(d)
            pool_vals = []
            def cls_of(v):
                for i, x in enumerate(pool_vals):
                    try:
                        if type(x) is type(v) and x == v:
                            return i
                    except Exception:
                        pass
                pool_vals.append(v)
                return len(pool_vals) - 1
            wire = ",".join("%s:%d" % (k, cls_of(d[k])) for k in keys) or "-"
            for p in range(0, pickle.HIGHEST_PROTOCOL + 1):
                red = z.__reduce_ex__(p)
                if cls == "tzfile":
                    shape = "call" if (red[0] is type(z) and red[1] == (None, z._filename) and red[2] is z.__dict__) else "other:" + repr(red[:2])[:80]
                elif red[0] is copyreg._reconstructor and len(red[1]) == 3 and red[1][0] is type(z) and red[1][1] is datetime.tzinfo \
                        and type(red[1][2]) is datetime.tzinfo:
                    shape = "reconstructor"
                elif red[0] is copyreg.__newobj__ and red[1] == (type(z),):
                    shape = "newobj"
                else:
                    shape = "other:" + repr(red[:2])[:80]
                state = red[2] if len(red) > 2 else None
                if shape in ("reconstructor", "newobj") and (state or {}) != d:
                    shape += ":state-is-not-__dict__"
                variants = [("pickle%d" % p, pickle.loads(pickle.dumps(z, p)))]
                if p == 4:
                    variants += [("copy", copy.copy(z)), ("deepcopy", copy.deepcopy(z))]
                for how, c in variants:
                    cd = c.__dict__
                    vals = ",".join("%s=%s" % (k, cls_of(cd[k]) if k in cd else "-") for k in keys)
                    extra = sorted(set(cd) - set(d))
                    line = "ok %s %s %s;eq=%d" % (shape, names.get(type(c), type(c).__name__), vals, int(bool(c == z) and not (c != z)))
                    if extra:
                        line += " extra=" + ",".join(extra)
                    reqs.append("reduce.rt %d %s %s" % (p, cls, wire)); meta.append((label, how, line))
    got = ctx.driver(reqs)
    for (label, how, line), g in zip(meta, got):
        ctx.traces += 1
        ctx.count("reduce_rt:" + how.rstrip("012345"))
        if line != g:
            ctx.mismatch("reduce.rt", {"zone": label, "how": how}, line[:300], g[:300])


def offset_key_fractions(ctx, tz):
    """tzoffset keys with a FRACTIONAL second (seeded C18J): next to a live whole-second zone of the same name, a timedelta offset with
    microseconds, the float spelling of the same offset and tzoffset.instance must all give a zone with exactly that offset — never the
    whole-second object"""
    TD = datetime.timedelta
    for name in ("LMT", None, "X"):
        for base in (3600, -1800, 0, 86399):
            whole = tz.tzoffset(name, base)                    # stays alive
            for us in (500000, 1, 999999, 250000):
                td = TD(seconds=base, microseconds=us)
                case = {"op": "offset_fraction", "name": name, "base": base, "us": us}
                ctx.case(("offset-fraction", name, base, us)); ctx.count("offset_key_fractions")
                try:
                    a = tz.tzoffset(name, td); f = tz.tzoffset(name, base + us / 1e6); inst = tz.tzoffset.instance(name, td)
                    probs = []
                    if a is whole or a.utcoffset(None) != td:
                        probs.append("tzoffset(%r, %r) has offset %s (the live whole-second zone is returned: %s)" % (name, td, a.utcoffset(None), a is whole))
                    if f.utcoffset(None) != td:
                        probs.append("tzoffset(%r, %r) has offset %s, not %s" % (name, base + us / 1e6, f.utcoffset(None), td))
                    if not (a == inst) or not (a == f) or (a == whole):
                        probs.append("equality among the spellings of %s is wrong: ==instance %s, ==float %s, ==whole-second %s" % (td, a == inst, a == f, a == whole))
                    if tz.tzoffset(name, td) is not a:
                        probs.append("the same key requested twice while referenced gives two objects")
                except Exception as ex:      # noqa
                    probs = ["raised %s: %s" % (type(ex).__name__, ex)]
                for pr in probs[:1]:
                    ctx.violation(pr, case, probs)
            del whole


def unresolved_then_resolvable(ctx, tz):
    """a name that could not be resolved must be resolved as soon as it can be (seeded C18K): gettz(path) while the file is missing, then
    the file appears; gettz('QQQ') under TZ=UTC, then TZ=QQQ3 + tzset — each time gettz must answer like gettz.nocache does NOW"""
    import tempfile, shutil, time
    tz.gettz.cache_clear()
    tmp = tempfile.mkdtemp(prefix="verif-unres-")
    try:
        src = "/usr/share/zoneinfo/Europe/Paris"
        if os.path.isfile(src):
            for k in range(3):
                path = os.path.join(tmp, "Zone%d" % k)
                case = {"op": "unresolved_then_file", "k": k}
                first = tz.gettz(path)
                if k == 1:
                    tz.gettz(path)                            # asked twice while missing
                shutil.copyfile(src, path)
                second, fresh = tz.gettz(path), tz.gettz.nocache(path)
                ctx.case(("unresolved-file", k)); ctx.count("unresolved_then_file")
                if first is not None:
                    ctx.count("unresolved_file_resolved_while_missing")
                elif second is None or fresh is None or not (second == fresh):
                    ctx.violation("gettz(path) answered None while the file was missing and still answers %r after a valid TZif was written there "
                                  "(gettz.nocache: %r)" % (second, fresh), case, None)
        if hasattr(time, "tzset"):
            for name, env in (("QQQ", "QQQ3"), ("WXYZ", "WXYZ-5"), ("VVV", "AAA2VVV,M3.2.0,M11.1.0")):
                case = {"op": "unresolved_then_local", "name": name, "tz": env}
                with S.pinned_tz("UTC"):
                    first = tz.gettz(name)
                with S.pinned_tz(env):
                    second, fresh = tz.gettz(name), tz.gettz.nocache(name)
                    ctx.case(("unresolved-local", name)); ctx.count("unresolved_then_local")
                    if first is None and fresh is not None and (second is None or not (second == fresh)):
                        ctx.violation("gettz(%r) answered None under TZ=UTC and answers %r under TZ=%s (gettz.nocache: %r)" % (name, second, env, fresh), case, None)
    finally:
        shutil.rmtree(tmp, ignore_errors=True)
        tz.gettz.cache_clear()


def direct_identity(ctx, tz):
    rng = ctx.subrng("direct")
    names = S.zoneinfo_names()
    extra = [n for n in ("UTC", "GMT", "EST5EDT", "AAA3BBB", "UTC+3", "BBB-4", "Etc/GMT-5") if tz.gettz.nocache(n) is not None]

    def requests():
        out = [("gettz", n) for n in names + extra]
        out += [("tzoffset", k) for k in S.OFFSET_KEYS if k not in S.OFFSET_RAISES]
        out += [("tzstr", k) for k in S.STR_KEYS if k not in S.STR_RAISES]
        out += [("tzutc", None)]
        return out

    def do(req):
        kind, a = req
        if kind == "gettz":
            return tz.gettz(a)
        if kind == "tzoffset":
            return tz.tzoffset(a[0], a[1] if rng.random() < 0.5 else datetime.timedelta(seconds=a[1]))
        if kind == "tzstr":
            return tz.tzstr(a[0], a[1]) if a[1] or rng.random() < 0.5 else tz.tzstr(a[0])
        return tz.tzutc()

    def fresh(req):
        kind, a = req
        if kind == "gettz":
            return tz.gettz.nocache(a)
        if kind == "tzoffset":
            return tz.tzoffset.instance(*a)
        if kind == "tzstr":
            return tz.tzstr.instance(*a)
        return None

    reqs = requests()
    # identity while referenced, with > cache-size other requests, drops and collections in between
    for rnd in range(ctx.budget(3, 30)):
        rng.shuffle(reqs)
        first = {}
        for q in reqs:
            first[q] = do(q)
        others = list(reqs)
        rng.shuffle(others)
        for q in others[: len(others) // 2]:
            do(q)
        if rnd % 2:
            gc.collect()
        if rnd % 3 == 1:
            tz.gettz.set_cache_size(rng.choice([0, 1, 3]))
        for q in reqs:
            again = do(q)
            ctx.case(("identity", rnd, q))
            ctx.count("identity_" + q[0])
            if again is not first[q]:
                ctx.violation("%s%r returned a different object while the first is still referenced" % (q[0], (q[1],)),
                              {"op": "identity", "kind": q[0], "arg": q[1], "round": rnd}, None)
        tz.gettz.set_cache_size(8)
        first.clear()
    # after the last reference is dropped a fresh equal object is allowed: only require equality of behaviour
    # nocache / instance: fresh and equal
    for q in reqs:
        a = do(q)
        f1, f2 = fresh(q), fresh(q)
        if f1 is None:
            ctx.count("nocache_returns_None")
            continue
        if q[0] == "gettz" and f1 is tz.UTC:
            # GMT / UTC without a zoneinfo file: nocache returns the constant tz.UTC.  NOT required to be fresh: the
            # property itself says tzutc() returns one object, so a second tzutc cannot be demanded (model: Res.shared 0,
            # theorem shared_constructor).  Counted, and checked explicitly in nocache_shared_oracle below.
            ctx.count("nocache_returns_the_tzutc_singleton_freshness_not_required")
            continue
        ctx.case(("fresh", q))
        ctx.count("fresh_constructor")
        if f1 is a or f2 is a or f1 is f2:
            ctx.violation("instance/nocache did not return a fresh object for %r" % (q,),
                          {"op": "fresh", "kind": q[0], "arg": q[1]}, None)
        elif not (f1 == a and a == f1 and f1 == f2) or (f1 != a):
            ctx.violation("instance/nocache object is not equal to the cached one for %r" % (q,), {"op": "fresh_eq", "kind": q[0], "arg": q[1]}, None)
        elif behaviour(f1) != behaviour(a):
            ctx.violation("instance/nocache object behaves differently from the cached one for %r" % (q,), {"op": "fresh_beh", "kind": q[0], "arg": q[1]}, None)
        if do(q) is not a:
            ctx.violation("instance/nocache disturbed the cache for %r" % (q,), {"op": "fresh_touch", "kind": q[0], "arg": q[1]}, None)
    nocache_shared_oracle(ctx, tz)
    # the object returned is the one asked for
    for n, o in [k for k in S.OFFSET_KEYS if k not in S.OFFSET_RAISES]:
        z = tz.tzoffset(n, o)
        ctx.case(("offset_args", n, o))
        if z.tzname(None) != n or z.utcoffset(None) != datetime.timedelta(seconds=o):
            ctx.violation("tzoffset(%r, %r) returned a zone with name %r offset %r" % (n, o, z.tzname(None), z.utcoffset(None)),
                          {"op": "args", "kind": "tzoffset", "arg": [n, o]}, None)
    for s, px in [k for k in S.STR_KEYS if k not in S.STR_RAISES]:
        z = tz.tzstr(s, px)
        ctx.case(("str_args", s, px))
        if behaviour(z) != behaviour(tz.tzstr.instance(s, px)) or z._s != s:
            ctx.violation("tzstr(%r, %r) returned a zone that is not the one asked for" % (s, px), {"op": "args", "kind": "tzstr", "arg": [s, px]}, None)
    # set_cache_size only affects retention
    for n in names[:6]:
        a = tz.gettz(n)
        for size in (0, 1, 8):
            tz.gettz.set_cache_size(size)
            ctx.case(("set_cache_size", n, size))
            if tz.gettz(n) is not a:
                ctx.violation("gettz(%r) changed identity after set_cache_size(%d) while referenced" % (n, size),
                              {"op": "set_cache_size_identity", "name": n, "size": size}, None)
        tz.gettz.set_cache_size(8)
    # retention: with the default size the last 8 names survive without outside references
    tz.gettz.cache_clear()
    refs = [weakref.ref(tz.gettz(n)) for n in names[:10]]
    gc.collect()
    ctx.case(("retention",))
    alive = [r() is not None for r in refs]
    if len(names) >= 10 and alive != [False, False] + [True] * 8:
        # the property does not fix the eviction policy or the size: not a violation (the LRU order is tied by fact.run)
        ctx.count("retention_differs_from_lru_8_not_required")
        ctx.note("strong cache does not retain exactly the 8 most recent zones: %r (not required by the property)" % alive)
    else:
        ctx.count("retention_is_lru_8")
    # cache_clear only affects retention (full-strength statement of the property)
    for n in names[:4]:
        a = tz.gettz(n)
        tz.gettz.cache_clear()
        b = tz.gettz(n)
        ctx.case(("cache_clear", n))
        if b is not a:
            ctx.violation("gettz(%r) returned a different object after cache_clear() although the first is still referenced" % n,
                          {"op": "cache_clear_identity", "name": n}, None)
            # the known finding is about identity only: the new object must still be an equal zone that behaves identically
            if not (b == a and a == b) or behaviour(a) != behaviour(b):
                ctx.violation("gettz(%r) after cache_clear() is not equal to / behaves unlike the zone returned before" % n,
                              {"op": "cache_clear_unequal", "name": n}, None)
        elif len(ctx.samples) < 8:
            ctx.sample({"op": "cache_clear_identity", "name": n, "same_object": True})
    # not required (and not checked): identity for gettz() / gettz('') / names resolving to tzlocal
    ctx.sample({"op": "identity", "gettz('Europe/Paris') is gettz('Europe/Paris')": tz.gettz("Europe/Paris") is tz.gettz("Europe/Paris"),
                "tzutc() is UTC": tz.tzutc() is tz.UTC, "tzoffset('A',3600) is tzoffset('A',timedelta(hours=1))":
                tz.tzoffset("A", 3600) is tz.tzoffset("A", datetime.timedelta(hours=1))})
    if tz.tzutc._TzSingleton__instance is not tz.UTC or tz.tzutc() is not tz.UTC:
        ctx.violation("tzutc singleton slot is not the import-time UTC object", {"op": "utc_preinit"}, None)


def nocache_shared_oracle(ctx, tz):
    """gettz.nocache for names that resolve to an EXISTING object (no file of that name on the search path):
    * GMT / UTC -> the constant tz.UTC: required to be that very object (the tzutc clause of the property), freshness not required;
    * a name found in the vendored database -> the entry held by the ZoneInfoFile: the property's "nocache … return fresh
      equal objects" is read literally, so the same object twice is reported (known finding D-C18-nocache-vendored).
    A real ZoneInfoFile is built from an in-memory tar (the vendored tarball is absent on this machine)."""
    import io, tarfile
    from dateutil.zoneinfo import ZoneInfoFile
    data = open("/usr/share/zoneinfo/Asia/Tehran", "rb").read()
    buf = io.BytesIO()
    with tarfile.open(fileobj=buf, mode="w:gz") as tf:
        ti = tarfile.TarInfo("Vend/Zone"); ti.size = len(data)
        tf.addfile(ti, io.BytesIO(data))
    zif = ZoneInfoFile(io.BytesIO(buf.getvalue()))
    with RV.patched(None, [], [], zif):
        g = type(tz.gettz)()
        for n in ("UTC", "GMT"):
            ctx.case(("nocache_utc", n))
            a, b, c = tz.gettz.nocache(n), tz.gettz.nocache(n), g(n)
            if not (a is tz.UTC and b is tz.UTC and c is tz.UTC and tz.tzutc() is tz.UTC):
                ctx.violation("%r without a zoneinfo file must resolve to the tzutc singleton (tzutc() returns that very object)" % n,
                              {"op": "nocache_utc_singleton", "name": n}, None)
            else:
                ctx.count("nocache_utc_is_the_singleton")
        n = "Vend/Zone"
        ctx.case(("nocache_vendored", n))
        a, b, c = tz.gettz.nocache(n), tz.gettz.nocache(n), g(n)
        if a is None or not (a == c and c == a) or behaviour(a) != behaviour(c):
            ctx.violation("nocache(%r) from the vendored database is not equal to / behaves unlike gettz(%r)" % (n, n),
                          {"op": "fresh_eq", "kind": "gettz-vendored", "arg": n}, None)
        if a is b or a is c:
            ctx.violation("gettz.nocache(%r) returned the vendored database's own entry (the same object every time), not a fresh object" % n,
                          {"op": "fresh_vendored", "name": n, "same_as_previous_nocache": a is b, "same_as_cached": a is c}, None)
        if g(n) is not c:
            ctx.violation("gettz(%r) identity while referenced (vendored)" % n, {"op": "identity", "kind": "gettz", "arg": n}, None)


def zone_laws(ctx, tz, env):
    pool = zone_pool(env)
    beh = [behaviour(z) for _, z in pool]
    for (la, a), ba in zip(pool, beh):
        ctx.case(("refl", env, la))
        if not (a == a) or (a != a):
            ctx.violation("zone equality not reflexive for %s" % la, {"op": "eq_refl", "tz": env, "a": la}, None)
        for (lb, b), bb in zip(pool, beh):
            ctx.case(("pair", env, la, lb))
            e1, e2 = (a == b), (b == a)
            if e1 is not e2 or (a != b) is e1:
                ctx.violation("zone equality not symmetric / != inconsistent: %s vs %s" % (la, lb), {"op": "eq_symm", "tz": env, "a": la, "b": lb}, None)
            if e1:
                ctx.count("equal_pairs")
                if offsets_only(ba) != offsets_only(bb):
                    ctx.violation("equal zones report different offsets: %s == %s" % (la, lb), {"op": "eq_offsets", "tz": env, "a": la, "b": lb}, None)
        # copies and pickles
        variants = [("copy", copy.copy(a)), ("deepcopy", copy.deepcopy(a))]
        for p in range(0, pickle.HIGHEST_PROTOCOL + 1):
            try:
                variants.append(("pickle%d" % p, pickle.loads(pickle.dumps(a, p))))
            except Exception as ex:      # noqa
                ctx.violation("pickle protocol %d of %s raised %s" % (p, la, type(ex).__name__),
                              {"op": "pickle_raise", "tz": env, "a": la, "protocol": p}, str(ex))
        for how, c in variants:
            ctx.case((how, env, la))
            ctx.count("copies_" + how)
            if not (c == a and a == c) or (c != a):
                ctx.violation("%s of %s is not equal to the original" % (how, la), {"op": "copy_eq", "tz": env, "a": la, "how": how}, None)
            elif type(c) is not type(a) or behaviour(c) != ba:
                ctx.violation("%s of %s behaves differently from the original" % (how, la), {"op": "copy_beh", "tz": env, "a": la, "how": how}, None)
    ctx.sample({"op": "laws", "tz": env, "zones": len(pool), "example": "tzutc()==tzoffset(None,0): %s" % (tz.tzutc() == tz.tzoffset(None, 0))})


KNOWN = {
    "D-C18-clear": lambda v: v["case"].get("op") == "cache_clear_identity"
                             or (v["case"].get("mode") == "threads" and v["case"].get("cross_clear") is True
                                 and v["case"].get("has_clear") is True and v["case"].get("spec") == "gettz"),
    "D-C18-nocache-vendored": lambda v: v["case"].get("op") == "fresh_vendored",
}


def replay(ctx, payload):
    _quiet()
    from dateutil import tz
    c = payload["violation"]["case"]
    if c.get("mode") == "threads":
        with S.gettz_env():
            fac = S.make_factory(c["spec"], c["cap"])
            scripts = [[tuple(o) for o in sc] for sc in c["scripts"]]
            if c.get("policy") == "random":
                rec = S.run_threads(fac, scripts, S.RandomPolicy(random.Random(c["seed"]), c.get("stickiness", 0.5)),
                                    env_rng=random.Random(c["seed"] + 1), env_rate=c.get("env_rate", 0.0), fine=bool(c.get("fine")))
                if rec["schedule"] != c["schedule"]:
                    fac = S.make_factory(c["spec"], c["cap"])
                    rec = S.run_threads(fac, scripts, S.PrefixPolicy(c["schedule"]), fine=bool(c.get("fine")))
            else:
                rec = S.run_threads(fac, scripts, S.PrefixPolicy(c["schedule"]), fine=bool(c.get("fine")))
        print("schedule %s\nreturns %s\nerrors %s duplicates %s all_returned %s" % (rec["schedule"], rec["rets"], rec["errors"], rec["dups"], rec["all_returned"]))
        return not rec["errors"] and not rec["dups"] and rec["all_returned"] and rec["lock_balanced"]
    if c.get("op") in ("resolve", "resolve_lock"):
        tree = RV.Tree()
        try:
            sub = lambda x: x.replace("$R", tree.root) if isinstance(x, str) else x
            vend = RV.Vendored({k: tz.tzfile(os.path.join(RV.SYS, "Asia/Tehran")) for k in c["vendored"]})
            with RV.patched(sub(c["tzvar"]), [sub(x) for x in c["tzfiles"]], [sub(x) for x in c["tzpaths"]], vend) as env:
                class _T:
                    root = tree.root
                impl = canon_hex(RV.run_impl(env, sub(c["name"])), _T)
                spec = canon_hex(RV.spec(env, sub(c["name"])), _T)
        finally:
            tree.close()
        print("gettz.nocache(%r): impl %s, documented order %s" % (c["name"], impl, spec))
        return impl == spec
    if c.get("op") in ("offset_fraction", "unresolved_then_file", "unresolved_then_local"):
        sub = type(ctx)(ctx.prop, ctx.tier, ctx.seed)
        (offset_key_fractions if c["op"] == "offset_fraction" else unresolved_then_resolvable)(sub, tz)
        for v in sub.violations[:5]:
            print(v["what"])
        return not sub.violations
    if c.get("op") == "local_name_switch":
        sub = type(ctx)(ctx.prop, ctx.tier, ctx.seed)
        local_names_tz_switch(sub, tz, only=c)
        for v in sub.violations[:5]:
            print(v["what"])
        return not sub.violations
    if c.get("op") == "cache_clear_identity":
        a = tz.gettz(c["name"]); tz.gettz.cache_clear(); b = tz.gettz(c["name"])
        print("gettz(%r): same object after cache_clear: %s" % (c["name"], a is b))
        return a is b
    if c.get("op") == "identity":
        arg = c["arg"]
        f = {"gettz": lambda: tz.gettz(arg), "tzoffset": lambda: tz.tzoffset(*arg), "tzstr": lambda: tz.tzstr(*arg), "tzutc": tz.tzutc}[c["kind"]]
        a = f(); b = f()
        print("%s %r: %s" % (c["kind"], arg, a is b))
        return a is b
    # law / copy checks: re-run the whole family for that TZ
    sub = type(ctx)(ctx.prop, ctx.tier, ctx.seed)
    if "tz" in c:
        with S.pinned_tz(c["tz"]):
            zone_laws(sub, tz, c["tz"])
    else:
        direct_identity(sub, tz)
    bad = [v for v in sub.violations if v["case"].get("op") == c.get("op") and not KNOWN["D-C18-clear"](v)]
    for v in bad[:5]:
        print(v["what"])
    return not bad
