"""
_parser_lib.py — shared by c02.py / c14.py / c15.py: running dateutil.parser.parse and the Lean
model (`parser.parse` driver op) on the same call and canonicalising both answers.

Canonical answer (both sides):
    err <Kind>
    ok Y M D h m s us | <zone> | <tokens>
  zone   : naive | warn <cps> | utc | fixed <name|N> <seconds> | obj <k> <fold> | str <cps> <fold>
           | local <fold> off<utcoffset s> dst<dst s> <tzname> same<tzinfo == a tzlocal() built now>
  tokens : -  |  [cps,cps,...]
Text travels as code points (`49.50`, `-` empty) with Python's own character classes.
"""
import os, re, sys, time, datetime, warnings, unicodedata, io, decimal

SUR_LO, SUR_HI, PUA = 0xD800, 0xDFFF, 0xE000


def mchr(c):
    """lone surrogates cannot be Lean `Char`s: send the private-use twin (same class: other)"""
    o = ord(c)
    return chr(PUA + o - SUR_LO) if SUR_LO <= o <= SUR_HI else c


_CPS = {}


def cps(s):
    r = _CPS.get(s)
    if r is None:
        r = ".".join(str(ord(mchr(c))) for c in s) if s else "-"
        if len(s) <= 24 and len(_CPS) < 200000:
            _CPS[s] = r
    return r


def cls_char(c):
    if c.isalpha():
        return "a"
    if c.isdigit():
        if c.isdecimal():
            return str(unicodedata.decimal(c))
        return "n"
    if c.isspace():
        return "s"
    return "x"


def classes(s):
    return "".join(cls_char(c) for c in s) if s else "-"


def optname(n):
    return "N" if n is None else cps(n)


# ---------------------------------------------------------------- tzinfos forms
def tzobjs():
    """tzinfo objects a `tzinfos` mapping may hold (index = the model's `obj k`)"""
    from dateutil import tz
    global _TZOBJS
    try:
        return _TZOBJS
    except NameError:
        pass
    # none of these may be a tz.tzoffset / tz.tzutc (cached singletons the parser itself creates)
    _TZOBJS = [datetime.timezone(datetime.timedelta(hours=-3), "BRST"), datetime.timezone(datetime.timedelta(hours=1)),
               tz.gettz("America/New_York"), tz.gettz("Europe/London"), tz.tzstr("EST5EDT,M3.2.0,M11.1.0"),
               tz.tzrange("CET", 3600, "CEST"), datetime.timezone(datetime.timedelta(hours=5, minutes=30), "IST")]
    return _TZOBJS


class TzSpec:
    """a tzinfos argument: kind 'none' | 'map' | 'call'; entries {name|None: ('o',k)|('s',str)|('i',int)|('n',)|('b',)|('r',) = the callable raises ValueError};
    dflt (callable only): same tuple or ('e',)"""
    def __init__(self, kind="none", entries=None, dflt=("n",)):
        self.kind, self.entries, self.dflt = kind, dict(entries or {}), dflt

    def value(self, t, name=None, off=None):
        if t[0] == "o":
            return tzobjs()[t[1]]
        if t[0] == "s":
            return t[1]
        if t[0] == "i":
            return t[1]
        if t[0] == "n":
            return None
        if t[0] == "b":
            return 1.5
        if t[0] == "e":
            return off
        if t[0] == "r":
            raise ValueError("the user's tzinfos callable does not know %r" % (name,))
        raise AssertionError(t)

    def arg(self):
        if self.kind == "none":
            return None
        if self.kind == "map":
            return {k: self.value(v) for k, v in self.entries.items()}
        ent, dflt = self.entries, self.dflt
        def fn(name, off):
            if name in ent:
                return self.value(ent[name], name, off)
            return self.value(dflt, name, off)
        return fn

    @staticmethod
    def _w(t):
        if t[0] == "o":
            return "o%d" % t[1]
        if t[0] == "s":
            return "s" + cps(t[1])
        if t[0] == "i":
            return "i%d" % t[1]
        return t[0]

    def wire(self):
        if self.kind == "none":
            return "-"
        es = ",".join("%s=%s" % (optname(k), self._w(v)) for k, v in self.entries.items())
        if self.kind == "map":
            return "M:" + es
        return "C:%s:%s" % (es, self._w(self.dflt))

    def key(self):
        return self.wire()


# ---------------------------------------------------------------- parserinfo forms
def info_wire(info, custom):
    """`D<df><yf>` for the stock tables, else the class attributes of the subclass"""
    hd = "%d%d" % (1 if info.dayfirst else 0, 1 if info.yearfirst else 0)
    if not custom:
        return "D" + hd
    key = (type(info), hd)                   # the class attributes of a subclass are read once per (class, flags)
    if key in _INFO_WIRE:
        return _INFO_WIRE[key]
    def groups(xs):
        return ",".join("|".join(cps(w) for w in (g if isinstance(g, tuple) else (g,))) for g in xs)
    tzo = ",".join("%s=%d" % (cps(k), v) for k, v in info.TZOFFSET.items())
    _INFO_WIRE[key] = ":".join(["X" + hd, groups(info.JUMP), groups(info.WEEKDAYS), groups(info.MONTHS), groups(info.HMS),
                                groups(info.AMPM), groups(info.UTCZONE), groups(info.PERTAIN), tzo])
    return _INFO_WIRE[key]


_INFO_WIRE = {}


def custom_infos():
    from dateutil.parser import parserinfo
    class Rus(parserinfo):
        JUMP = [" ", ".", ",", ";", "-", "/", "'", "v", "i", "g", "goda"]
        WEEKDAYS = [("Pn", "Ponedelnik"), ("Vt", "Vtornik"), ("Sr", "Sreda"), ("Cht", "Chetverg"),
                    ("Pt", "Pyatnitsa"), ("Sb", "Subbota"), ("Vs", "Voskresenye")]
        MONTHS = [("yan", "yanvar"), ("fev", "fevral"), ("mar", "mart"), ("apr", "aprel"), ("mai", "maya"),
                  ("iun", "iyun"), ("iul", "iyul"), ("avg", "avgust"), ("sen", "sentyabr"), ("okt", "oktyabr"),
                  ("noy", "noyabr"), ("dek", "dekabr")]
        HMS = [("ch", "chas", "chasov"), ("min", "minut"), ("sek", "sekund")]
        AMPM = [("utra",), ("vechera",)]
        UTCZONE = ["UTC", "GMT", "Z", "MSK"]
        PERTAIN = ["ot"]
        TZOFFSET = {"MSK": 10800, "EKT": 18000}
    class Tz(parserinfo):
        TZOFFSET = {"BRST": -10800, "EST": -18000, "CET": 3600, "ZERO": 0}
    return [("rus", Rus), ("tzoffset", Tz)]


# ---------------------------------------------------------------- one call
class Call:
    __slots__ = ("text", "default", "dayfirst", "yearfirst", "fuzzy", "fwt", "ignoretz", "tz", "info", "info_custom",
                 "via", "tag", "arg_factory")
    def __init__(self, text, default=datetime.datetime(2003, 9, 25), dayfirst=None, yearfirst=None, fuzzy=False,
                 fwt=False, ignoretz=False, tz=None, info=None, info_custom=False, via="str", tag=""):
        self.text, self.default, self.dayfirst, self.yearfirst = text, default, dayfirst, yearfirst
        self.fuzzy, self.fwt, self.ignoretz, self.tz = fuzzy, fwt, ignoretz, tz or TzSpec()
        self.info, self.info_custom, self.via, self.tag = info, info_custom, via, tag
        self.arg_factory = None          # optional: builds the text argument (an overlapping stream, see c14.oracle_overlap)

    def kwargs(self):
        kw = {"default": self.default}
        if self.dayfirst is not None:
            kw["dayfirst"] = self.dayfirst
        if self.yearfirst is not None:
            kw["yearfirst"] = self.yearfirst
        if self.fuzzy:
            kw["fuzzy"] = True
        if self.fwt:
            kw["fuzzy_with_tokens"] = True
        if self.ignoretz:
            kw["ignoretz"] = True
        if self.tz.kind != "none":
            kw["tzinfos"] = self.tz.arg()
        return kw

    def key(self):
        d = self.default
        return (self.text, (d.year, d.month, d.day, d.hour, d.minute, d.second, d.microsecond, str(d.tzinfo)), self.dayfirst,
                self.yearfirst, self.fuzzy, self.fwt, self.ignoretz, self.tz.key(),
                None if self.info is None else (type(self.info).__name__, self.info.dayfirst, self.info.yearfirst),
                os.environ.get("TZ"))

    def describe(self):
        d = self.default
        return {"text": self.text, "text_repr": ascii(self.text), "default": d.isoformat(), "dayfirst": self.dayfirst,
                "yearfirst": self.yearfirst, "fuzzy": self.fuzzy, "fuzzy_with_tokens": self.fwt,
                "ignoretz": self.ignoretz, "tzinfos": self.tz.wire(),
                "parserinfo": None if self.info is None else type(self.info).__name__,
                "info_flags": None if self.info is None else [self.info.dayfirst, self.info.yearfirst],
                "TZ": os.environ.get("TZ"), "via": self.via, "tag": self.tag}


def tzspec_from_wire(w):
    """inverse of TzSpec.wire() (used by replay)"""
    def name(x):
        return None if x == "N" else ("" if x == "-" else "".join(chr(int(c)) for c in x.split(".")))
    def val(v):
        if v[0] == "o":
            return ("o", int(v[1:]))
        if v[0] == "s":
            return ("s", name(v[1:]))
        if v[0] == "i":
            return ("i", int(v[1:]))
        return (v[0],)
    if w in (None, "-"):
        return TzSpec()
    parts = w.split(":")
    ents = {}
    if parts[1]:
        for e in parts[1].split(","):
            k, v = e.split("=")
            ents[name(k)] = val(v)
    if parts[0] == "M":
        return TzSpec("map", ents)
    return TzSpec("call", ents, val(parts[2]))


def call_from_case(c):
    """rebuild the call a violation recorded (text, default, flags, tzinfos form, parserinfo class + flags, input kind)"""
    from dateutil.parser import parserinfo
    info, custom = None, False
    nm = c.get("parserinfo")
    if nm:
        fl = c.get("info_flags") or [False, False]
        if nm == "parserinfo":
            info = parserinfo(dayfirst=bool(fl[0]), yearfirst=bool(fl[1]))
        else:
            for _, cl in custom_infos():
                if cl.__name__ == nm:
                    info, custom = cl(dayfirst=bool(fl[0]), yearfirst=bool(fl[1])), True
    if c.get("patched_clock_year") is not None:
        fl = c.get("info_flags") or [False, False]
        info, custom = clock_parserinfo(int(c["patched_clock_year"]), bool(fl[0]), bool(fl[1])), False
    d = datetime.datetime.fromisoformat(c["default"]) if c.get("default") else datetime.datetime(2003, 9, 25)
    return Call(c["text"], default=d, dayfirst=c.get("dayfirst"), yearfirst=c.get("yearfirst"), fuzzy=bool(c.get("fuzzy")),
                fwt=bool(c.get("fuzzy_with_tokens")), ignoretz=bool(c.get("ignoretz")), tz=tzspec_from_wire(c.get("tzinfos")),
                info=info, info_custom=custom, via=c.get("via", "str"), tag=c.get("tag", ""))


def the_info(call):
    from dateutil.parser import _parser
    return call.info if call.info is not None else _parser.DEFAULTPARSER.info


_T_IMPORT = time.time()


def model_pivot(info=None):
    """(year, century) of the two-digit-year rule handed to the MODEL: computed from the process clock, NOT read from the
    implementation object (review3b F8).  parserinfo.__init__ takes `time.localtime().tm_year` when the object is built — some
    moment between the import of this module and now, under whatever process zone was set then — so the legitimate values are
    the calendar years of [import - 1 day, now + 1 day]; the object's own `_year` is consulted ONLY to pick among those (a
    process that lives through New Year), and the century is always computed here.  A parserinfo whose `_year` is outside the
    legitimate set, or whose `_century` is not `_year // 100 * 100`, makes the model (clock year) disagree with the
    implementation on two-digit years: a correspondence mismatch, and `pivot_violations` reports it directly."""
    forced = getattr(info, "_verif_clock_year", None) if info is not None else None
    if forced is not None:          # a parserinfo the harness built under a patched time.localtime (clock_parserinfo): that clock's year
        return forced, forced // 100 * 100
    now = time.time()
    legit = sorted({time.gmtime(t).tm_year for t in (_T_IMPORT - 86400, _T_IMPORT, now, now + 86400)})
    y = time.gmtime(now).tm_year
    oy = getattr(info, "_year", None) if info is not None else None
    if oy in legit:
        y = oy
    return y, y // 100 * 100


def pivot_violations(infos):
    """[(what, facts)] for parserinfo objects whose pivot is not the current year / its century (the objects the checks use:
    a freshly built parserinfo(), DEFAULTPARSER.info, the custom classes)"""
    out = []
    for label, info in infos:
        y, c = model_pivot(None)
        my, mc = model_pivot(info)
        if getattr(info, "_year", None) != my or getattr(info, "_century", None) != mc:
            out.append(("parserinfo._year / _century must be the current year and its century (two-digit-year pivot)",
                        {"text": None, "object": label, "_year": getattr(info, "_year", None),
                         "_century": getattr(info, "_century", None), "clock_year": y, "clock_century": c}))
    return out


PIVOT_CLOCK_YEARS = [1950, 1985, 1999, 2049, 2050, 2075, 2099]


def clock_parserinfo(year, dayfirst=False, yearfirst=False):
    """parserinfo() built while `time.localtime()` says it is `year` (the two-digit-year rule depends on the clock year: a pivot
    that is right in 2026 can be wrong in 1985 or 2050); the object remembers the clock year it was built under"""
    from dateutil import parser as P
    real = time.localtime
    def fake(*a):
        t = real(*a)
        return time.struct_time((year,) + tuple(t)[1:]) if not a else t
    time.localtime = fake
    try:
        info = P.parserinfo(dayfirst=dayfirst, yearfirst=yearfirst)
    finally:
        time.localtime = real
    info._verif_clock_year = year
    return info


def pivot_oracle(ctx):
    """the two-digit-year rule evaluated on the implementation against the PROCESS CLOCK (not against parserinfo._year): every
    `MM/DD/YY` must resolve to the unique year congruent to YY within -50..+49 of the clock year, for the shared DEFAULTPARSER
    and for a parserinfo built now; and the objects' `_year` / `_century` must be the clock's.  A wrong pivot in
    parserinfo.__init__ (wrong year source, wrong century arithmetic) is reported here with the text as failing input (the
    replay compares the implementation with the model, whose pivot also comes from the clock)."""
    from dateutil import parser as P
    fresh = P.parserinfo()
    shown = 0
    objs = [("DEFAULTPARSER.info", None), ("parserinfo()", fresh)]
    objs += [("parserinfo() built with the clock at %d" % cy, clock_parserinfo(cy)) for cy in PIVOT_CLOCK_YEARS]
    for label, info in objs:
        obj = info if info is not None else P._parser.DEFAULTPARSER.info
        y, _c = model_pivot(obj)
        bad = pivot_violations([(label, obj)])
        for yy in range(100):
            c = Call("01/02/%02d" % yy, info=info, tag="pivot")
            ans, _, got = run_impl(c, raw=True)
            ctx.case(("pivot", label, yy))
            ctx.count("two_digit_year_pivot_cases")
            want = [v for v in range(y - 50, y + 50) if v % 100 == yy][0]
            if not (ans.startswith("ok ") and got.year == want):
                if shown < 6:
                    case = c.describe()
                    case.update({"object": label, "clock_year": y, "expected_year": want,
                                 "patched_clock_year": getattr(obj, "_verif_clock_year", None)})
                    ctx.violation("two-digit year must resolve to the unique year within -50..+49 of the current year (%d)" % y,
                                  case, {"impl": ans, "pivot_facts": [f for _, f in bad]})
                shown += 1
        if bad and shown == 0:
            # the attributes are wrong although every two-digit year still resolves right (cannot happen with the code as it
            # is: convertyear reads exactly these two attributes) — still reported
            what, facts = bad[0]
            case = Call("01/02/03", info=info, tag="pivot").describe()
            case.update(facts)
            ctx.violation(what, case, {})


def request(call):
    """driver request line for one call (process TZ as it is now)"""
    info = the_info(call)
    year, century = model_pivot(info)
    d = call.default
    fl = lambda b: -1 if b is None else (1 if b else 0)
    flags = "[%d,%d,%d,%d,%d]" % (fl(call.dayfirst), fl(call.yearfirst), int(call.fuzzy), int(call.fwt), int(call.ignoretz))
    dflt = "[%d,%d,%d,%d,%d,%d,%d]" % (d.year, d.month, d.day, d.hour, d.minute, d.second, d.microsecond)
    tzn = ";".join(cps(n) for n in time.tzname)
    return " ".join(["parser.parse", flags, dflt, str(year), str(century), tzn, call.tz.wire(),
                     info_wire(info, call.info_custom), cps(call.text), classes(call.text)])


def exc_kind(e):
    from dateutil.parser import ParserError
    if isinstance(e, ParserError):
        return "ParserError"
    if isinstance(e, decimal.InvalidOperation):
        return "InvalidOperation"
    import calendar
    if isinstance(e, calendar.IllegalMonthError):
        return "ValueError"                     # a ValueError subclass (the models say ValueError for monthrange's complaint)
    return type(e).__name__


def text_arg(call):
    if getattr(call, "arg_factory", None) is not None:
        return call.arg_factory()
    if call.via == "bytes":
        return call.text.encode("utf-8")
    if call.via == "bytearray":
        return bytearray(call.text.encode("utf-8"))
    if call.via == "stream":
        return io.StringIO(call.text)
    return call.text


def _secs(td):
    return "N" if td is None else str(td.days * 86400 + td.seconds)


def local_obs(aware):
    """what a process-zone result really says at its wall time: utcoffset, dst, tzname (the tzlocal OBJECT is the
    implementation's; a stale one — built under an earlier process zone — shows here)"""
    try:
        return "off%s dst%s %s" % (_secs(aware.utcoffset()), _secs(aware.dst()), optname(aware.tzname()))
    except (OverflowError, OSError, ValueError) as e:
        return "offerr " + type(e).__name__


def local_desc(naive, fold):
    """the expected descriptor of a process-zone result: a tzlocal built NOW, under the current process zone"""
    from dateutil import tz
    return "local %d %s same1" % (fold, local_obs(naive.replace(tzinfo=tz.tzlocal(), fold=fold)))


def zone_of(dt, warned, dflt_tz=None):
    from dateutil import tz
    ti = dt.tzinfo
    if dflt_tz is not None and ti is dflt_tz:
        # no zone was applied to the result: it still carries the tzinfo OBJECT of an aware `default=` (the model's
        # `FinalTz.ofDefault`); with a warning (`warn … dflt`) that is the repaired defect D-C15-aware-default-kept
        return ("warn " + cps(warned) + " dflt") if warned is not None else "dflt"
    if ti is None:
        if warned is not None:
            return "warn " + cps(warned)
        return "naive" if dt.fold == 0 else "naive fold%d" % dt.fold
    for k, o in enumerate(tzobjs()):
        if ti is o:
            return "obj %d %d" % (k, dt.fold)
    if ti is tz.UTC:
        return "utc" if dt.fold == 0 else "utc fold%d" % dt.fold
    if isinstance(ti, tz.tzlocal):
        return "local %d %s same%d" % (dt.fold, local_obs(dt), int(ti == tz.tzlocal()))
    if isinstance(ti, tz.tzoffset):
        return "fixed %s %d" % (optname(ti._name), int(ti._offset.total_seconds()))
    if isinstance(ti, tz.tzstr):
        return "str %s %d" % (cps(ti._s), dt.fold)
    return "other " + type(ti).__name__


def canon_ok(r, fwt, warned, dflt_tz=None):
    # the SHAPE of the value is part of the answer: a (datetime, tuple of str) pair exactly when fuzzy_with_tokens was asked for
    if fwt:
        if not (isinstance(r, tuple) and len(r) == 2 and isinstance(r[0], datetime.datetime) and isinstance(r[1], tuple)
                and all(isinstance(x, str) for x in r[1])):
            return "shape fuzzy_with_tokens=True returned %s" % (
                "a bare datetime" if isinstance(r, datetime.datetime) else type(r).__name__)
        dt, toks = r
        t = "[" + ",".join(cps(x) for x in toks) + "]"
    else:
        if not isinstance(r, datetime.datetime):
            return "shape fuzzy_with_tokens=False returned %s" % (
                "a (datetime, tokens) pair" if isinstance(r, tuple) else type(r).__name__)
        dt, t = r, "-"
    return "ok %d %d %d %d %d %d %d | %s | %s" % (dt.year, dt.month, dt.day, dt.hour, dt.minute, dt.second,
                                                 dt.microsecond, zone_of(dt, warned, dflt_tz), t)


def run_impl(call, raw=False):
    """the implementation's canonical answer (and the wall time of the call)"""
    from dateutil import parser as P
    from dateutil.parser import UnknownTimezoneWarning
    arg = text_arg(call)
    kw = call.kwargs()
    with warnings.catch_warnings(record=True) as w:
        warnings.simplefilter("always")
        t0 = time.perf_counter()
        try:
            if call.info is not None:
                r = P.parse(arg, parserinfo=call.info, **kw)
            else:
                r = P.parse(arg, **kw)
            err = None
        except BaseException as e:          # noqa: every kind is data here
            if isinstance(e, (KeyboardInterrupt, SystemExit, MemoryError)):
                raise
            err = e
        dt = time.perf_counter() - t0
    if err is not None:
        return "err " + exc_kind(err), dt, None
    warned = None
    for x in w:
        if issubclass(x.category, UnknownTimezoneWarning):
            m = re.match(r"tzname (.*) identified but not understood", str(x.message), re.S)
            warned = m.group(1) if m else "?"
    return canon_ok(r, call.fwt, warned, getattr(call.default, "tzinfo", None)), dt, (r if raw else None)


_ZONE2 = re.compile(r"^(ok [-\d ]+) \| (local|tzi) (.*?) \| (.*)$", re.S)


def model_answers(ctx, calls):
    """model's canonical answers for calls made under the CURRENT process TZ (two driver phases)"""
    from dateutil import tz
    first = ctx.driver([request(c) for c in calls])
    # the model (parseA / finalTz) says `dflt` where parse() leaves the tzinfo of `default=` untouched (row 5 of _build_tzaware:
    # no zone information in the text) and `naive` / `warn` where it is None whatever the default carries (ignoretz, unknown
    # abbreviation, a tzinfos entry None); for a NAIVE default `dflt` is naive
    for i, (c, r) in enumerate(zip(calls, first)):
        if r.startswith("ok "):
            parts = r.split(" | ")
            if parts[1] == "dflt" and getattr(c.default, "tzinfo", None) is None:
                parts[1] = "naive"
                first[i] = " | ".join(parts)
    out = list(first)
    second, where = [], []
    for i, (c, r) in enumerate(zip(calls, first)):
        m = _ZONE2.match(r)
        if not m:
            continue
        head, kind, rest, toks = m.groups()
        f = [int(x) for x in head.split()[1:]]
        try:
            naive = datetime.datetime(*f)
        except ValueError:
            out[i] = "bad-model-datetime " + r
            continue
        if kind == "local":
            name, tzoff = rest.split(" ")           # the parsed name and res.tzoffset (`-` = None)
            z = tz.tzlocal()
            try:
                a0, a1 = naive.replace(tzinfo=z), naive.replace(tzinfo=z, fold=1)
                n0, n1 = a0.tzname(), a1.tzname()
                o0, o1 = _secs(a0.utcoffset()), _secs(a1.utcoffset())
            except OverflowError:
                # tzlocal.tzname() itself overflows next to 0001-01-01 / 9999-12-31 (`dt - dst_saved`): the zone
                # object is outside the model, its exception propagates through `_assign_tzname` unchanged
                out[i] = "err OverflowError"
                continue
            second.append("parser.localfinal %s %s %s %s %s %s" % (optname(n0), optname(n1), o0, o1, name, tzoff))
            where.append((i, head, "local", naive, toks))
        else:
            data, name = rest.split(" ")
            if data == "n":
                out[i] = "%s | naive | %s" % (head, toks)
                continue
            if data[0] == "o":
                k = int(data[1:]); z = tzobjs()[k]; lab = "obj %d" % k
            elif data[0] == "s":
                # a TZ string: the zone's names for the wall time come from the LEAN model of tz.tzstr (parser.assignstr:
                # TzStr.tzstr + transitions), never from the implementation's object — the model answer is Lean's alone
                second.append("parser.assignstr %s [%s] %s" % (data[1:], ",".join(str(x) for x in f), name))
                where.append((i, head, "tzi", "str %s" % data[1:], toks))
                continue
            else:
                out[i] = "bad-model-zone " + r
                continue
            try:
                n0 = naive.replace(tzinfo=z).tzname()
                n1 = naive.replace(tzinfo=z, fold=1).tzname()
            except OverflowError:
                out[i] = "err OverflowError"        # as above: raised by the zone object inside `_assign_tzname`
                continue
            second.append("parser.assign %s %s %s" % (optname(n0), optname(n1), name))
            where.append((i, head, "tzi", lab, toks))
    if second:
        res = ctx.driver(second)
        for (i, head, kind, lab, toks), r in zip(where, res):
            if r.startswith("err "):
                out[i] = r                      # the zone object's exception at `tzname()` (a TZ string whose rule is bad)
                continue
            if kind == "local":
                z = r[3:]                       # "utc" | "local f"
                if z.startswith("local "):
                    z = local_desc(lab, int(z.split()[1]))
            else:
                z = "%s %s" % (lab, r[3:])
            out[i] = "%s | %s | %s" % (head, z, toks)
    return out


def set_tz(name):
    """set the process zone; returns the previous value (restore with set_tz(prev))"""
    prev = os.environ.get("TZ")
    if name is None:
        os.environ.pop("TZ", None)
    else:
        os.environ["TZ"] = name
    time.tzset()
    return prev


# ---------------------------------------------------------------- state shared between calls (class / module level)
def ast_shared_state_sites(repo):
    """everything in _parser.py through which one call could leave something behind for the next: every class-level and
    module-level assignment (any value, also an immutable one that a method rebinds), every `global` / `nonlocal`, every store
    to an attribute of `cls` / `self.__class__` / `type(self)` / a module-level name, every `setattr`, every store to `self.x`
    in a method of parser / parserinfo outside __init__ (DEFAULTPARSER and its parserinfo are one shared instance), every
    caching decorator, every mutable default argument — in ALL functions of the file, modelled or not"""
    import ast, collections
    path = os.path.join(repo, "src", "dateutil", "parser", "_parser.py")
    tree = ast.parse(open(path).read())
    sites = collections.Counter()
    modnames = set()
    for node in tree.body:
        if isinstance(node, (ast.ClassDef, ast.FunctionDef)):
            modnames.add(node.name)
        elif isinstance(node, (ast.Assign, ast.AnnAssign, ast.AugAssign)):
            tg = node.targets if isinstance(node, ast.Assign) else [node.target]
            for t in tg:
                for e in ast.walk(t):
                    if isinstance(e, ast.Name):
                        modnames.add(e.id)
            sites["module:assign:%s" % ast.unparse(node)[:100]] += 1

    def base_name(e):
        while isinstance(e, (ast.Attribute, ast.Subscript)):
            e = e.value
        return e

    def scan_func(cname, fn):
        q = "%s.%s" % (cname or "", fn.name)
        for d in fn.decorator_list:
            src = ast.unparse(d)
            if any(w in src.lower() for w in ("cache", "lru", "memo")):
                sites["%s:caching-decorator:%s" % (q, src[:80])] += 1
            if src in ("classmethod", "staticmethod"):
                sites["%s:%s" % (q, src)] += 1
        for a in list(fn.args.defaults) + [x for x in fn.args.kw_defaults if x is not None]:
            if isinstance(a, (ast.List, ast.Dict, ast.Set, ast.Call, ast.ListComp, ast.DictComp, ast.SetComp)):
                sites["%s:mutable-default:%s" % (q, ast.unparse(a)[:80])] += 1
        for n in ast.walk(fn):
            if isinstance(n, (ast.Global, ast.Nonlocal)):
                sites["%s:%s:%s" % (q, type(n).__name__.lower(), ",".join(n.names))] += 1
            tgts = []
            if isinstance(n, ast.Assign):
                tgts = n.targets
            elif isinstance(n, (ast.AugAssign, ast.AnnAssign)):
                tgts = [n.target]
            elif isinstance(n, ast.Delete):
                tgts = n.targets
            for t in tgts:
                for e in (t.elts if isinstance(t, (ast.Tuple, ast.List)) else [t]):
                    if not isinstance(e, (ast.Attribute, ast.Subscript)):
                        continue
                    b = base_name(e)
                    src = ast.unparse(e)
                    if isinstance(b, ast.Name) and b.id == "cls":
                        sites["%s:class-store:%s" % (q, src[:100])] += 1
                    elif isinstance(b, ast.Call) and ast.unparse(b.func) == "type":
                        sites["%s:class-store:%s" % (q, src[:100])] += 1
                    elif "__class__" in src or "__dict__" in src:
                        sites["%s:class-store:%s" % (q, src[:100])] += 1
                    elif isinstance(b, ast.Name) and b.id in modnames and b.id not in ("self",):
                        # a local of the same name shadows the module-level one only if assigned as a plain name in the function
                        local = any(isinstance(m, ast.Name) and m.id == b.id and isinstance(m.ctx, ast.Store) for m in ast.walk(fn))
                        if not local:
                            sites["%s:module-store:%s" % (q, src[:100])] += 1
                    elif (isinstance(b, ast.Name) and b.id == "self" and cname in ("parser", "parserinfo")
                          and fn.name != "__init__"):
                        sites["%s:shared-instance-store:%s" % (q, src[:100])] += 1
            if isinstance(n, ast.Call) and ast.unparse(n.func) in ("setattr", "object.__setattr__", "globals", "vars"):
                sites["%s:%s:%s" % (q, ast.unparse(n.func), ast.unparse(n)[:100])] += 1

    for node in tree.body:
        if isinstance(node, ast.ClassDef):
            for n in node.body:
                if isinstance(n, (ast.Assign, ast.AnnAssign, ast.AugAssign)):
                    sites["%s:class-attr:%s" % (node.name, ast.unparse(n)[:100])] += 1
                elif isinstance(n, ast.FunctionDef):
                    scan_func(node.name, n)
            for d in node.decorator_list:
                sites["%s:class-decorator:%s" % (node.name, ast.unparse(d)[:80])] += 1
        elif isinstance(node, ast.FunctionDef):
            scan_func(None, node)
    return sites


# ---------------------------------------------------------------- process-zone switches
def fresh_start(steps):
    """start a fresh Python process that evaluates `steps` = [(TZ, case dict)]; returns the Popen (collect with fresh_collect)"""
    import subprocess, json
    env = dict(os.environ)
    env["TZ"] = steps[0][0] if steps and steps[0][0] is not None else "UTC"
    p = subprocess.Popen([sys.executable, os.path.join(os.path.dirname(os.path.abspath(__file__)), "_parser_ref.py")],
                         stdin=subprocess.PIPE, stdout=subprocess.PIPE, stderr=subprocess.PIPE, env=env)
    p._payload = json.dumps({"steps": [{"TZ": tz, "case": c} for tz, c in steps]}).encode()
    return p


def fresh_collect(p):
    import json
    out, err = p.communicate(p._payload, timeout=600)
    if p.returncode != 0:
        raise RuntimeError("fresh-process reference failed: " + err.decode("utf-8", "replace")[-400:])
    return json.loads(out.decode())["answers"]


def fresh_answers(steps):
    return fresh_collect(fresh_start(steps))


def zone_switch_run(ctx, rng, groups, n_texts, what):
    """The process-zone switch family.  For every group of TZ settings that SHARE entries of time.tzname but differ in offset /
    DST rules / hemisphere: the same calls are made under every zone of the group, switching with time.tzset() between calls
    (a -> b -> a ...), and every answer is compared with (1) the model's answer for that zone and (2) the implementation's
    answer in a fresh process whose only zone that was.  A difference is state that one call (or one zone) left behind."""
    from props import _parser_gen as G
    shown = 0
    for gi, grp in enumerate(groups):
        calls = G.zone_switch_calls(rng, grp, n_texts)
        cases = [c.describe() for c in calls]
        procs = {z: fresh_start([(z, c) for c in cases]) for z in grp}
        model = {}
        for z in grp:
            set_tz(z)
            model[z] = model_answers(ctx, calls)
        ref = {z: fresh_collect(procs[z]) for z in grp}
        # the interleaved sequence
        steps = []
        for j in range(len(calls)):
            zs = rng.sample(grp, min(len(grp), rng.choice([2, 2, 3])))
            for z in zs + [zs[0]]:
                steps.append((z, j))
        # blocks stay together (a -> b -> a on one text), block order is random; then a fully shuffled tail
        tail = [(rng.choice(grp), rng.randrange(len(calls))) for _ in range(len(calls))]
        history = []
        for z, j in steps + tail:
            set_tz(z)
            a = run_impl(calls[j])[0]
            history.append((z, j))
            ctx.evaluations += 1
            ctx.count("zone_switch_calls")
            ctx.case(("zone-switch", gi, z, calls[j].key()), nontrivial=" | local " in a)
            if " | local " in a:
                ctx.count("zone_switch_local_results")
            if a != model[z][j] or a != ref[z][j]:
                case = calls[j].describe()
                case["TZ"] = z
                # shortest recorded zone sequence that shows it in a fresh process: (other zone, same text) then this call
                seq = None
                if shown < 4:
                    for z0 in grp:
                        if z0 != z:
                            try:
                                r = fresh_answers([(z0, cases[j]), (z, cases[j])])
                            except Exception:
                                continue
                            if r[1] != ref[z][j]:
                                seq = [[z0, cases[j]["text"]]]
                                break
                if seq is None:
                    seq = [[zz, cases[jj]["text"]] for zz, jj in history[-60:-1]]
                case["TZ_sequence"] = seq
                shown += 1
                ctx.violation(what + ": the answer under a process zone depends on the zones / calls before it (time.tzset between "
                              "calls; zones sharing an abbreviation)", case,
                              {"impl": a, "model_for_this_TZ": model[z][j], "fresh_process_for_this_TZ": ref[z][j],
                               "time.tzname": list(time.tzname)})
                if shown >= 12:
                    return


def zone_switch_replay(ctx, c):
    """replay of a zone_switch_run violation in a fresh process: the recorded (TZ, text) sequence, then the call"""
    call = call_from_case(c)
    case = call.describe()
    steps = []
    for z, t in c.get("TZ_sequence") or []:
        d = dict(case); d["text"] = t
        steps.append((z, d))
    steps.append((c.get("TZ"), case))
    got = fresh_answers(steps)[-1]
    ref = fresh_answers([(c.get("TZ"), case)])[0]
    prev = set_tz(c.get("TZ"))
    try:
        m = model_answers(ctx, [call])[0]
    finally:
        set_tz(prev)
    print("zone sequence %s then TZ=%s parse(%s): after-sequence=%s fresh-process=%s model=%s"
          % ([z for z, _ in steps[:-1]], c.get("TZ"), ascii(call.text), got, ref, m))
    return got == ref == m


# ---------------------------------------------------------------- assumption audit (per run)
def audit_unicode(ctx):
    """the facts about Python's character predicates the model builds in, checked over every code point"""
    bad = []
    n = 0
    for o in range(0x110000):
        c = chr(o)
        n += 1
        a, d, s = c.isalpha(), c.isdigit(), c.isspace()
        if (a and d) or (a and s) or (d and s):
            bad.append(("classes overlap", o))
        if d:
            dec = c.isdecimal()
            for f in (int, float, decimal.Decimal):
                try:
                    v = f(c); ok = True
                except (ValueError, decimal.InvalidOperation):
                    ok = False
                if ok != dec or (ok and int(v) != unicodedata.decimal(c)):
                    bad.append(("digit acceptance", o, f.__name__))
        if o > 127 and c.lower().isascii() and o != 0x212A:
            bad.append(("lower() to ASCII", o))
    if chr(0x212A).lower() != "k":
        bad.append(("kelvin", 0x212A))
    ctx.count("unicode_audit_codepoints", n)
    return bad


# ---------------------------------------------------------------- AST audit (DESIGN §4 C14)
MODELLED_FUNCS = [
    ("_timelex", "__init__"), ("_timelex", "get_token"), ("_timelex", "__next__"), ("_timelex", "split"),
    ("_timelex", "isword"), ("_timelex", "isnum"), ("_timelex", "isspace"), ("_timelex", "__iter__"),
    ("_resultbase", "__init__"), ("_resultbase", "__len__"),
    ("parserinfo", "__init__"), ("parserinfo", "_convert"), ("parserinfo", "jump"), ("parserinfo", "weekday"),
    ("parserinfo", "month"), ("parserinfo", "hms"), ("parserinfo", "ampm"), ("parserinfo", "pertain"),
    ("parserinfo", "utczone"), ("parserinfo", "tzoffset"), ("parserinfo", "convertyear"), ("parserinfo", "validate"),
    ("_ymd", "__init__"), ("_ymd", "has_year"), ("_ymd", "has_month"), ("_ymd", "has_day"), ("_ymd", "could_be_day"),
    ("_ymd", "append"), ("_ymd", "_resolve_from_stridxs"), ("_ymd", "resolve_ymd"),
    ("parser", "__init__"), ("parser", "parse"), ("parser", "_parse"), ("parser", "_parse_numeric_token"),
    ("parser", "_find_hms_idx"), ("parser", "_assign_hms"), ("parser", "_could_be_tzname"), ("parser", "_ampm_valid"),
    ("parser", "_adjust_ampm"), ("parser", "_parse_min_sec"), ("parser", "_parse_hms"), ("parser", "_parsems"),
    ("parser", "_to_decimal"), ("parser", "_build_tzinfo"), ("parser", "_build_tzaware"), ("parser", "_build_naive"),
    ("parser", "_assign_tzname"), ("parser", "_recombine_skipped"), (None, "parse"),
]


def ast_sites(repo):
    """every Call / Subscript / BinOp / Raise node of the functions reachable from parser.parse, as
    `Class.func:kind:normalised-source` strings with multiplicity"""
    import ast, collections
    path = os.path.join(repo, "src", "dateutil", "parser", "_parser.py")
    tree = ast.parse(open(path).read())
    funcs = {}
    for node in tree.body:
        if isinstance(node, ast.ClassDef):
            for n in node.body:
                if isinstance(n, ast.FunctionDef):
                    funcs[(node.name, n.name)] = n
        elif isinstance(node, ast.FunctionDef):
            funcs[(None, node.name)] = node
    sites = collections.Counter()
    missing = []
    for key in MODELLED_FUNCS:
        fn = funcs.get(key)
        if fn is None:
            missing.append("%s.%s" % key)
            continue
        for n in ast.walk(fn):
            if isinstance(n, (ast.Call, ast.Subscript, ast.BinOp, ast.Raise, ast.Compare, ast.Assert)):
                if isinstance(n, ast.Compare) and not any(isinstance(o, (ast.Lt, ast.LtE, ast.Gt, ast.GtE, ast.In, ast.NotIn)) for o in n.ops):
                    continue
                src = ast.unparse(n)
                if isinstance(n, ast.Raise):
                    src = "raise " + (ast.unparse(n.exc.func) if isinstance(n.exc, ast.Call) else ast.unparse(n.exc) if n.exc else "")
                sites["%s.%s:%s:%s" % (key[0] or "", key[1], type(n).__name__, src[:160])] += 1
    # methods of the anchored classes that are NOT in the table (a new helper would show here)
    extra = [("%s.%s" % k) for k in funcs if k[0] in ("_timelex", "parserinfo", "_ymd", "parser", "_resultbase")
             and k not in MODELLED_FUNCS and k[1] not in ("__repr__", "_repr", "next")]
    return sites, missing, extra


# ---------------------------------------------------------------- callees outside _parser.py
# (file, class, function, the model primitive that stands for it) — the code `parse` reaches outside its own file
CALLEES = [
    ("tz/tz.py", "tzstr", "__init__", "PM.tzstrCtor = TzStr.tzstr (C08's model; ValueError 'unknown string format', OverflowError)"),
    ("tz/tz.py", "tzstr", "_delta", "TzStr.delta (inside TzStr.tzstr)"),
    ("tz/tz.py", "tzrange", "transitions", "TzStr.transitions / applyDelta (month 13 -> ValueError at query time; PM.strIsdst)"),
    ("tz/_common.py", "tzrangebase", "tzname", "PM.strNames"),
    ("tz/_common.py", "tzrangebase", "_isdst", "PM.strIsdst"),
    ("tz/_common.py", "tzrangebase", "is_ambiguous", "PM.strIsdst (the `amb` test)"),
    ("tz/_common.py", "tzrangebase", "_naive_isdst", "PM.strIsdst (the `d` test)"),
    ("tz/tz.py", "tzlocal", "__init__", "environment: -time.timezone / -time.altzone (fed as the names / offsets a tzlocal() built now reports)"),
    ("tz/tz.py", "tzlocal", "tzname", "environment: n0 / n1 of parser.localfinal"),
    ("tz/tz.py", "tzlocal", "utcoffset", "environment: o0 / o1 of parser.localfinal (`aware.utcoffset() != timedelta(0)` of the repaired local row; "
                                         "same _isdst call as tzname(), which ran before it in _assign_tzname)"),
    ("tz/tz.py", "tzlocal", "_isdst", "environment (OverflowError next to 0001-01-01 / 9999-12-31 propagates unchanged)"),
    ("tz/tz.py", "tzlocal", "_naive_is_dst", "environment"),
    ("tz/tz.py", "tzlocal", "is_ambiguous", "environment"),
    ("tz/tz.py", "tzoffset", "__init__", "PM.fixedZone (timedelta(seconds=n): OverflowError)"),
    ("tz/tz.py", "tzutc", "tzname", "descriptor .utc"),
    ("tz/_common.py", None, "enfold", "PM.assignFold (fold = 1)"),
    ("relativedelta.py", "relativedelta", "__init__", "PM.shiftBareWeekday (weekday=…(+1)) / TzStr.delta"),
    ("relativedelta.py", "relativedelta", "__add__", "PM.shiftBareWeekday (OverflowError past 9999-12-31) / TzStr.applyDelta"),
    ("relativedelta.py", "relativedelta", "__radd__", "= __add__"),
]


def ast_callee_sites(repo):
    """Call / Raise / Subscript / BinOp / Compare nodes of the functions `parse` reaches OUTSIDE _parser.py (zone objects it
    builds and queries, relativedelta arithmetic), as `file:Class.func:kind:source` with multiplicity, each function mapped to
    the model primitive that stands for it"""
    import ast, collections
    sites = collections.Counter()
    missing = []
    trees = {}
    for rel, cname, fname, _prim in CALLEES:
        if rel not in trees:
            try:
                trees[rel] = ast.parse(open(os.path.join(repo, "src", "dateutil", rel)).read())
            except OSError:
                trees[rel] = None
        tree = trees[rel]
        fn = None
        if tree is not None:
            for node in ast.walk(tree):
                if cname is None and isinstance(node, ast.FunctionDef) and node.name == fname and fn is None:
                    fn = node                    # (enfold is defined inside an `if`: the first definition, the one Python 3 uses)
                elif isinstance(node, ast.ClassDef) and node.name == cname:
                    for n in node.body:
                        if isinstance(n, ast.FunctionDef) and n.name == fname:
                            fn = n
        if fn is None:
            missing.append("%s:%s.%s" % (rel, cname or "", fname))
            continue
        for n in ast.walk(fn):
            if isinstance(n, (ast.Call, ast.Subscript, ast.BinOp, ast.Raise, ast.Compare, ast.Assert)):
                src = ast.unparse(n)
                if isinstance(n, ast.Raise):
                    src = "raise " + (ast.unparse(n.exc.func) if isinstance(n.exc, ast.Call) else ast.unparse(n.exc) if n.exc else "")
                sites["%s:%s.%s:%s:%s" % (rel, cname or "", fname, type(n).__name__, src[:140])] += 1
    return sites, missing


# ---------------------------------------------------------------- writes into argument-derived structures
MUTATING_METHODS = {"append", "extend", "insert", "pop", "remove", "sort", "reverse", "clear", "update", "setdefault",
                    "popitem", "add", "discard", "__setitem__", "__delitem__"}


def ast_mutation_sites(repo):
    """every place in the functions reachable from parser.parse that WRITES into a structure it did not create locally as a
    fresh literal in the same statement: subscript / attribute stores, `del`, mutating method calls.  Reported as
    `Class.func:kind:source`.  The token list `l` of `_parse` (the return value of `_timelex.split`) is the interesting one:
    a write into it is where aliasing (a cache, a shared default) would leak state from one call into the next."""
    import ast, collections
    path = os.path.join(repo, "src", "dateutil", "parser", "_parser.py")
    tree = ast.parse(open(path).read())
    funcs = {}
    for node in tree.body:
        if isinstance(node, ast.ClassDef):
            for n in node.body:
                if isinstance(n, ast.FunctionDef):
                    funcs[(node.name, n.name)] = n
        elif isinstance(node, ast.FunctionDef):
            funcs[(None, node.name)] = node
    sites = collections.Counter()
    for key in MODELLED_FUNCS:
        fn = funcs.get(key)
        if fn is None:
            continue
        for n in ast.walk(fn):
            tgts = []
            if isinstance(n, ast.Assign):
                tgts = n.targets
            elif isinstance(n, (ast.AugAssign, ast.AnnAssign)):
                tgts = [n.target]
            elif isinstance(n, ast.Delete):
                tgts = n.targets
            for t in tgts:
                for e in (t.elts if isinstance(t, (ast.Tuple, ast.List)) else [t]):
                    if isinstance(e, ast.Subscript):
                        sites["%s.%s:subscript-store:%s" % (key[0] or "", key[1], ast.unparse(n)[:120])] += 1
            if isinstance(n, ast.Call) and isinstance(n.func, ast.Attribute) and n.func.attr in MUTATING_METHODS:
                sites["%s.%s:method:%s" % (key[0] or "", key[1], ast.unparse(n)[:120])] += 1
    # class-level / module-level mutable state of the anchored classes (a memo dict would show here)
    for node in tree.body:
        if isinstance(node, ast.ClassDef) and node.name in ("_timelex", "parserinfo", "_ymd", "parser", "_resultbase"):
            for n in node.body:
                if isinstance(n, ast.Assign) and isinstance(n.value, (ast.Dict, ast.List, ast.Set, ast.Call, ast.DictComp, ast.ListComp)):
                    sites["%s:class-level-mutable:%s" % (node.name, ast.unparse(n)[:120])] += 1
    return sites
