"""
C06, history part — "tzfile reports exactly what the TZif data says", asked of a file whose content CHANGES.

Two checks, both called from the C06 oracle:

  history(ctx)             every load path of a TZif file is exercised twice (or three times) on the SAME path / name /
                           filename string with DIFFERENT data behind it.  The second load must report the data as it is
                           now, the first object must keep reporting the data it was built from.  A memo of decoded files
                           keyed by the bare path string, by (path, mtime, size), by the `filename` argument or by an
                           archive member name makes one of these comparisons fail.
  shared_state_audit(ctx)  AST audit of the classes that decode and hold TZif data for every place where one load could
                           leave something behind for the next one (class-level containers, caching decorators, stores to
                           the class / the module from a method, module-level cache tables).  Compared with the committed
                           allow-list c06_shared_state_sites.json; anything new is reported.

  replay_history(case)     re-runs one recorded violation case of either check; True when the property holds now.

Staleness that is BY DESIGN and therefore NOT asserted here (it belongs to the gettz factory, property C18):
  * tz.gettz(key) — key a zone name or an absolute path — returns the SAME object as before for as long as the key is
    in gettz's strong LRU cache (8 entries) or the earlier object is still alive (weak instance map); documented since
    2.7.0 ("any two calls to gettz using the same input strings will return the same object").  The stream only
    observes it (counter history_by_design:*).  What IS asserted for gettz: after gettz.cache_clear(), or after the
    entry has left both caches (strong cache emptied through set_cache_size, all references dropped, gc.collect()),
    the next gettz(key) reads the file as it is now; gettz.nocache(key) always does; gettz() under TZ=<path> always
    does (a None name is never cached).
  * dateutil.zoneinfo.get_zonefile_instance() / zoneinfo.gettz keep ONE ZoneInfoFile of the bundled tarball per
    process: not a TZif file at a path, not touched here.  A NEW ZoneInfoFile(stream) must decode its own stream
    (kind archive_member).
  * An unpickled / copied tzfile carries its decoded state with it (tzfile.__reduce_ex__ = (cls, (None, filename),
    __dict__)): it reports the data of the ORIGINAL object, not of the file now — asserted that way (kinds pickle, copy).
"""
import io, os, gc, ast, copy, json, pickle, shutil, struct, hashlib, tarfile, tempfile, importlib, warnings
import zonelib as Z

HERE = os.path.dirname(os.path.abspath(__file__))
ALLOW_FILE = os.path.join(HERE, "c06_shared_state_sites.json")

KINDS = [
    "tzfile_abs",                # tz.tzfile("/abs/path")
    "tzfile_rel",                # os.chdir(dir); tz.tzfile("name")
    "tzfile_rel_otherdir",       # the same relative name in a second (third) directory holding different data
    "tzfile_stream",             # tz.tzfile(open(path, "rb"))           (filename = stream.name = the same path)
    "tzfile_bytesio_filename",   # tz.tzfile(io.BytesIO(data), filename=<the same string>)
    "gettz_abs",                 # tz.gettz("/abs/path") after gettz.cache_clear()
    "gettz_nocache_abs",         # tz.gettz.nocache("/abs/path")
    "gettz_env_TZ",              # os.environ["TZ"] = ":/abs/path"; tz.gettz()   (never cached)
    "gettz_name",                # tz.gettz("Dir/Name") resolved through TZPATHS, after gettz.cache_clear()
    "gettz_name_evicted",        # the same, the entry having left both caches without cache_clear()
    "gettz_nocache_name",        # tz.gettz.nocache("Dir/Name")
    "archive_member",            # ZoneInfoFile(tar stream).get(member): same member name, another archive
    "pickle",                    # pickle of a zone loaded from a path, file rewritten in between
    "copy",                      # copy.copy / copy.deepcopy likewise
]
REWRITES = [("overwrite", "same"), ("replace", "same"), ("overwrite", "later"), ("replace", "later")]
MAX_RECORDED_PER_KIND = 8
MAX_PROBES = 16


# ====================================================================== data

def _digest(b):
    return hashlib.blake2b(b, digest_size=6).hexdigest()


def _v1_layout(data):
    isgmtcnt, isstdcnt, leapcnt, timecnt, typecnt, charcnt = struct.unpack(">6l", data[20:44])
    p_types = 44 + 5 * timecnt
    p_abbr = p_types + 6 * typecnt
    return timecnt, typecnt, charcnt, p_types, p_abbr


def patch_offsets(data, delta):
    """the same bytes with `delta` added to every UTC offset of the version-1 block: same length, same instants"""
    timecnt, typecnt, charcnt, p, _ = _v1_layout(data)
    b = bytearray(data)
    for i in range(typecnt):
        (o,) = struct.unpack(">l", data[p + 6 * i:p + 6 * i + 4])
        b[p + 6 * i:p + 6 * i + 4] = struct.pack(">l", o + delta)
    return bytes(b)


def patch_abbr(data):
    """the same bytes with the first letter of every abbreviation replaced: same length, same instants, same offsets"""
    timecnt, typecnt, charcnt, _, p = _v1_layout(data)
    b = bytearray(data)
    start = True
    for i in range(p, p + charcnt):
        if b[i] == 0:
            start = True
        elif start:
            b[i] = ord("Q") if b[i] != ord("Q") else ord("R")
            start = False
    return bytes(b)


def patch_isdst(data):
    """the same bytes with the isdst flag of the LAST type flipped"""
    timecnt, typecnt, charcnt, p, _ = _v1_layout(data)
    b = bytearray(data)
    if typecnt:
        k = p + 6 * (typecnt - 1) + 4
        b[k] = 0 if b[k] else 1
    return bytes(b)


def _fixed_pairs():
    d, T0, H, mk = 86400, Z.T0, Z.H, Z.mk_tzif
    trans = [(T0, 1), (T0 + 100 * d, 0), (T0 + 200 * d, 1), (T0 + 300 * d, 0)]
    types = [(0, 0, "AAA"), (H, 1, "BBB")]
    base = mk(trans, types)
    out = [
        ("same_len:offsets_differ", [base, mk(trans, [(1800, 0, "AAA"), (H + 1800, 1, "BBB")])]),
        ("same_len:abbreviations_differ", [base, mk(trans, [(0, 0, "AAC"), (H, 1, "BBD")])]),
        ("same_len:triple_and_back", [base, mk(trans, [(-H, 0, "AAA"), (0, 1, "BBB")]), base]),
        ("same_len:type_indices_swapped", [base, mk([(t, 1 - i) for t, i in trans], types)]),
        ("same_len:isdst_differs", [base, mk(trans, [(0, 0, "AAA"), (H, 0, "BBB")])]),
        ("same_len:instants_shifted_1h", [base, mk([(t + H, i) for t, i in trans], types)]),
        ("same_len:instants_shifted_1s", [base, mk([(t + 1, i) for t, i in trans], types)]),
        ("same_len:isstd_isgmt_differ", [mk(trans, types, isstd=[0, 0], isgmt=[0, 0]), mk(trans, types, isstd=[1, 0], isgmt=[1, 0])]),
        ("same_len:triple_three_offsets", [base, patch_offsets(base, 900), patch_offsets(base, -2700)]),
    ]
    S = Z.synthetic_shapes()
    out.append(("diff_len:negative_dst/dst_to_dst", [S["negative_dst"], S["dst_to_dst"]]))
    out.append(("diff_len:no_transitions/sub_minute/one_transition", [S["no_transitions"], S["sub_minute"], S["one_transition"]]))
    out.append(("same_len:abbr_suffix_shared patched", [S["abbr_suffix_shared_AHST_HST"], patch_offsets(S["abbr_suffix_shared_AHST_HST"], 60)]))
    return out


def pairs_for(ctx):
    """[(name, [A, B] or [A, B, C])] — well-formed TZif byte strings, consecutive members hold DIFFERENT data"""
    rng = ctx.subrng("c06-history")
    n = ctx.budget(12, 56)
    fixed = _fixed_pairs()
    zs = Z.system_zones()
    bylen = {}
    for name, _, data in zs:
        bylen.setdefault(len(data), []).append((name, data))
    same = sorted(k for k, v in bylen.items() if len(v) > 1)

    def real_same_size():
        k = rng.choice(same)
        (na, a), (nb, b) = rng.sample(bylen[k], 2)
        return ("real_same_size:%s/%s" % (na, nb), [a, b])

    def real_diff_size():
        picks = rng.sample(zs, 3)
        return ("real:%s" % "/".join(p[0] for p in picks), [p[2] for p in picks])

    def real_patched():
        name, _, a = rng.choice(zs)
        how = rng.choice(["offsets", "abbr", "isdst"])
        b = {"offsets": lambda: patch_offsets(a, rng.choice([900, -900, 3600, 1])), "abbr": lambda: patch_abbr(a),
             "isdst": lambda: patch_isdst(a)}[how]()
        return ("real_patched_%s:%s" % (how, name), [a, b])

    def random_pair():
        a = Z.random_table(rng, wf=True)
        return ("random_tables", [a, Z.random_table(rng, wf=True)])

    def random_patched_triple():
        a = Z.random_table(rng, wf=True)
        return ("random_patched_triple", [a, patch_offsets(a, 900), patch_abbr(a)])

    makers = [real_same_size, real_diff_size, real_patched, random_pair, random_patched_triple]
    # quick tier: the synthetic same-length pairs first (they are what an (mtime, size) keyed memo cannot tell apart),
    # then one of each other source; thorough: everything fixed plus seeded fill
    if n <= len(fixed) + len(makers):
        keep = max(0, n - len(makers))
        head = fixed[:min(keep, 4)] + rng.sample(fixed[4:], max(0, min(keep, len(fixed)) - 4))
        out = head + [m() for m in makers][:n - len(head)]
    else:
        out = list(fixed)
        i = 0
        while len(out) < n:
            out.append(makers[i % len(makers)]()); i += 1
    good = []
    for name, datas in out:
        if any(data_signature(datas[i]) == data_signature(datas[i + 1]) for i in range(len(datas) - 1)):
            ctx.count("history_sequences_skipped_same_data"); continue     # decided by the struct reader, not by dateutil
        good.append((name, datas))
    return good


def data_signature(data):
    """everything of the version-1 block that dateutil decodes, read with struct alone: instants, type indices, types
    (offset, isdst, abbreviation), isstd / isgmt flags.  Two byte strings with different signatures are different zones."""
    isgmtcnt, isstdcnt, leapcnt, timecnt, typecnt, charcnt = struct.unpack(">6l", data[20:44])
    tl = Z.Timeline(data)
    p = 44 + 5 * timecnt + 6 * typecnt + charcnt + 8 * leapcnt
    return (tuple(tl.utc), tuple(tl.idx), tuple(tl.types), bytes(data[p:p + isstdcnt]), bytes(data[p + isstdcnt:p + isstdcnt + isgmtcnt]))


# ====================================================================== what the data says

_refs = {}
_ref_errors = {}


def _ref(data):
    """what a load of exactly these bytes reports (fresh BytesIO load, filename unrelated to any path used below)"""
    if data in _refs:
        return _refs[data]
    from dateutil import tz
    try:
        z = tz.tzfile(io.BytesIO(data))          # no filename argument: nothing the references have in common
        dump = Z.impl_dump(z)
    except Exception as ex:
        _refs[data] = None
        _ref_errors[data] = "%s: %s" % (type(ex).__name__, str(ex)[:160])
        return None
    try:
        tl = Z.Timeline(data)
        ups, _ = Z.probe_points(tl)
    except Exception:
        tl, ups = None, []
    ups = ups or [0, Z.T0]
    if len(ups) > MAX_PROBES:
        step = -(-len(ups) // MAX_PROBES)
        ups = sorted(set(ups[::step] + [ups[0], ups[-1]]))
    ans = [Z.impl_fromutc_line(z, t) for t in ups]
    r = {"zone": z, "dump": dump, "ups": ups, "ans": ans, "tl": tl, "independent_ok": True, "independent_note": None}
    # the reference itself against the independent struct reader (in range / before the first transition, WF tables)
    if tl is not None and tl.utc and tl.wf():
        for t, a in zip(ups, ans):
            if t >= tl.utc[-1]:
                continue
            off, isdst, abbr = tl.type_at(t)
            p = a.split(",")
            ok = len(p) == 5 and p[0] == str(t + off) and p[2] == str(off) and p[4] == Z.hexs(abbr) and (isdst != 0 or p[3] == "0")
            if not ok:
                r["independent_ok"] = False
                r["independent_note"] = {"t": t, "impl": a, "data": [off, isdst, abbr]}
                break
    _refs[data] = r
    return r


def _differences(tz, z, data):
    """None when zone `z` reports exactly what `data` says, else a JSON-able description of the first difference"""
    r = _ref(data)
    if not isinstance(z, tz.tzfile):
        return {"not_a_tzfile": repr(z)[:120]}
    try:
        dump = Z.impl_dump(z)
    except Exception as ex:
        return {"dump_raised": repr(ex)[:200]}
    if dump != r["dump"]:
        return {"decoded_tables_differ": {"want": r["dump"][:300], "got": dump[:300]}}
    for t, want in zip(r["ups"], r["ans"]):
        got = Z.impl_fromutc_line(z, t)
        if got != want:
            return {"answer_differs_at": t, "want": want, "got": got}
    fresh = tz.tzfile(io.BytesIO(data))
    if not (z == fresh) or (z != fresh) or not (fresh == z):
        return {"not_equal_to_a_fresh_BytesIO_load": True}
    return None


# ====================================================================== the scenarios

class _Env(object):
    """temp directories, the temporarily extended TZPATHS, the rewrite primitive"""

    def __init__(self):
        from dateutil import tz
        self.tz = tz
        self.tzmod = importlib.import_module("dateutil.tz.tz")
        self.cwd0 = None
        self.environ0 = None
        self.tmp = None
        self.added_tzpath = False
        self.cache_size0 = None
        self.serial = 0

    def __enter__(self):
        try:
            self.cwd0 = os.getcwd()
        except OSError:
            self.cwd0 = None
        self.environ0 = dict(os.environ)
        self.tmp = os.path.realpath(tempfile.mkdtemp(prefix="verif-c06-history-"))
        self.root = os.path.join(self.tmp, "tzroot")
        os.makedirs(os.path.join(self.root, "VerifC06"))
        for dname in ("d0", "d1", "d2"):
            os.makedirs(os.path.join(self.tmp, dname))
        paths = getattr(self.tzmod, "TZPATHS", None)
        if isinstance(paths, list):
            paths.append(self.root)
            self.added_tzpath = True
        self.cache_size0 = getattr(self.tz.gettz, "_GettzFunc__strong_cache_size", None)
        return self

    def __exit__(self, *exc):
        try:
            if self.added_tzpath:
                paths = self.tzmod.TZPATHS
                while self.root in paths:
                    paths.remove(self.root)
        finally:
            try:
                if self.cache_size0 is not None and hasattr(self.tz.gettz, "set_cache_size"):
                    self.tz.gettz.set_cache_size(self.cache_size0)
                if hasattr(self.tz.gettz, "cache_clear"):
                    self.tz.gettz.cache_clear()      # nothing that points into the temp directory stays cached
            finally:
                try:
                    os.chdir(self.cwd0 or "/")
                finally:
                    os.environ.clear()
                    os.environ.update(self.environ0)
                    shutil.rmtree(self.tmp, ignore_errors=True)
        return False

    def put(self, path, data, first, rewrite, mtime):
        """create the file (first) or rewrite the SAME path: in place (same inode) or by os.replace of a new file; then
        set the modification time explicitly — `same`: exactly the previous file's (so mtime and, for equal lengths,
        size do not change), `later`: 10 s after it (file timestamps are too coarse to rely on the clock here)"""
        if first or not os.path.exists(path):
            with open(path, "wb") as f:
                f.write(data)
            os.utime(path, ns=(1_600_000_000 * 10**9, 1_600_000_000 * 10**9))
            return
        st = os.stat(path)
        if rewrite == "overwrite":
            with open(path, "r+b") as f:
                f.write(data)
                f.truncate()
        else:
            new = path + ".new"
            with open(new, "wb") as f:
                f.write(data)
            os.replace(new, path)
        bump = 0 if mtime == "same" else 10 * 10**9
        os.utime(path, ns=(st.st_atime_ns, st.st_mtime_ns + bump))

    def evict_gettz(self):
        """make gettz forget without cache_clear(): empty the strong LRU cache, collect what nobody references"""
        g = self.tz.gettz
        size = getattr(g, "_GettzFunc__strong_cache_size", None)
        if size is None or not hasattr(g, "set_cache_size"):
            return False
        g.set_cache_size(0)
        g.set_cache_size(size)
        gc.collect()
        return True

    def gettz_has(self, key):
        inst = getattr(self.tz.gettz, "_GettzFunc__instances", None)
        if inst is None:
            return None
        return inst.get(key, None) is not None


class _Recorder(object):
    """wraps the ctx: one case + one counter per comparison, at most MAX_RECORDED_PER_KIND stored violations per kind"""

    def __init__(self, ctx):
        self.ctx = ctx
        self.per_kind = {}
        self.failures = 0

    def check(self, sc, step, diff, what=None):
        ctx = self.ctx
        ctx.case((sc["kind"], sc["key"], sc["rewrite"], sc["mtime"], step))
        ctx.count("history:" + sc["kind"])
        if diff is None:
            return True
        self.failures += 1
        n = self.per_kind.get(sc["kind"], 0)
        self.per_kind[sc["kind"]] = n + 1
        if n >= MAX_RECORDED_PER_KIND:
            ctx.count("history_failures_counted_not_stored:" + sc["kind"])
            return False
        case = {"kind": sc["kind"], "a": Z.hexs(sc["datas"][0]), "b": Z.hexs(sc["datas"][1]), "step": step,
                "rewrite": sc["rewrite"], "mtime": sc["mtime"], "pair": sc["name"]}
        if len(sc["datas"]) > 2:
            case["c"] = Z.hexs(sc["datas"][2])
        ctx.violation(what or ("%s after rewriting the file reports stale/wrong data" % sc["kind"]), case, diff)
        return False

    def info(self, name):
        self.ctx.count(name)


class _Collector(object):
    """the ctx stand-in of replay_history"""

    def __init__(self):
        self.violations, self.hist, self.cases = [], {}, 0
        self.tier, self.escalated = "quick", False

    def case(self, key=None, nontrivial=True):
        self.cases += 1

    def count(self, k, n=1):
        self.hist[k] = self.hist.get(k, 0) + n

    def violation(self, what, case, detail=None):
        self.violations.append({"what": what, "case": case, "detail": detail})


def _guard(f):
    try:
        return f(), None
    except Exception as ex:       # a load path that raises where a fresh load of the same bytes works is a difference too
        return None, {"raised": "%s: %s" % (type(ex).__name__, str(ex)[:200])}


def _run(rec, env, sc):
    """one scenario: kind × data sequence × rewrite mode × mtime mode"""
    tz, kind, datas = env.tz, sc["kind"], sc["datas"]
    env.serial += 1

    def reports(z, err, data, step, what=None):
        return rec.check(sc, step, err if err is not None else _differences(tz, z, data), what)

    def relation(znew, zold, dnew, dold, step):
        """== between the two objects must be what == between fresh loads of the two byte strings is"""
        want = bool(_ref(dnew)["zone"] == _ref(dold)["zone"])
        try:
            got, gotne = bool(znew == zold), bool(znew != zold)
            diff = None if (got == want and gotne != want) else {"eq": got, "ne": gotne, "fresh_loads_eq": want}
        except Exception as ex:
            diff = {"raised": repr(ex)[:200]}
        rec.check(sc, step, diff, "%s: the zone loaded after the rewrite compares %s to the zone loaded before it" %
                  (kind, "equal" if not want else "unequal"))

    def sequence(path, load, before_load=None, hold=True, place=None):
        """write datas[0], load; rewrite with datas[1], load; … every earlier object must keep its own data"""
        held = []
        for k, data in enumerate(datas):
            (place or env.put)(path, data, k == 0, sc["rewrite"], sc["mtime"])
            if before_load is not None:
                before_load(k)
            z, err = _guard(load)
            reports(z, err, data, "load%d_reports_data%d" % (k, k))
            if err is None and hold:
                for j, zj in enumerate(held):
                    if zj is None:
                        continue
                    reports(zj, None, datas[j], "object%d_still_reports_data%d_after_rewrite%d" % (j, j, k),
                            "%s: an object loaded BEFORE the rewrite changed what it reports" % kind)
                    if j == k - 1:
                        relation(z, zj, data, datas[j], "load%d_vs_object%d_equality" % (k, j))
            held.append(z if (hold and err is None) else None)
            z = None
        return held

    if kind == "tzfile_abs":
        p = os.path.join(env.tmp, "d0", "abs.tzif")
        sequence(p, lambda: tz.tzfile(p))

    elif kind == "tzfile_rel":
        p = os.path.join(env.tmp, "d0", "rel.tzif")

        def load():
            os.chdir(os.path.join(env.tmp, "d0"))
            return tz.tzfile("rel.tzif")
        sequence(p, load)

    elif kind == "tzfile_rel_otherdir":
        # no rewrite at all: the same relative name means another file after os.chdir
        dirs = [os.path.join(env.tmp, "d%d" % k) for k in range(len(datas))]
        for dname, data in zip(dirs, datas):
            env.put(os.path.join(dname, "other.tzif"), data, True, None, None)
        held = []
        order = list(range(len(datas))) + [0]
        for n, k in enumerate(order):
            os.chdir(dirs[k])
            z, err = _guard(lambda: tz.tzfile("other.tzif"))
            reports(z, err, datas[k], "visit%d_dir%d_reports_data%d" % (n, k, k),
                    "tzfile(relative name) in another directory reports the data of the file loaded under that name before")
            for j, zj in held:
                if zj is not None:
                    reports(zj, None, datas[j], "object_of_dir%d_still_reports_data%d_after_visit%d" % (j, j, n))
            held.append((k, z))

    elif kind == "tzfile_stream":
        p = os.path.join(env.tmp, "d0", "stream.tzif")

        def load():
            with open(p, "rb") as f:
                return tz.tzfile(f)
        sequence(p, load)

    elif kind == "tzfile_bytesio_filename":
        p = os.path.join(env.tmp, "d0", "bytesio.tzif")
        cur = {}

        def place(path, data, first, rewrite, mtime):
            cur["data"] = data
            env.put(path, data, first, rewrite, mtime)
        sequence(p, lambda: tz.tzfile(io.BytesIO(cur["data"]), filename=p), place=place)

    elif kind == "gettz_abs":
        p = os.path.join(env.tmp, "d0", "gettz_abs.tzif")

        def before(k):
            if k > 0:      # BY DESIGN (C18), observed and not asserted: while cached, gettz(key) is the object it returned before
                g, _ = _guard(lambda: tz.gettz(p))
                rec.info("history_by_design:gettz_abs_while_cached_returns_%s" % ("the_same_object" if g is last.get("z") else "another_object"))
            tz.gettz.cache_clear()
        last = {}

        def load():
            last["z"] = tz.gettz(p)
            return last["z"]
        sequence(p, load, before_load=before)
        tz.gettz.cache_clear()

    elif kind == "gettz_nocache_abs":
        p = os.path.join(env.tmp, "d0", "nocache_abs.tzif")
        sequence(p, lambda: tz.gettz.nocache(p))

    elif kind == "gettz_env_TZ":
        p = os.path.join(env.tmp, "d0", "env.tzif")

        def load():
            old = os.environ.get("TZ")
            os.environ["TZ"] = (":" if env.serial % 2 else "") + p       # not tzset(): only gettz reads it
            try:
                return tz.gettz() if env.serial % 4 < 2 else tz.gettz.nocache()
            finally:
                if old is None:
                    os.environ.pop("TZ", None)
                else:
                    os.environ["TZ"] = old
        sequence(p, load)

    elif kind in ("gettz_name", "gettz_nocache_name", "gettz_name_evicted"):
        if not env.added_tzpath:
            rec.info("history_skipped:%s(no TZPATHS list)" % kind); return
        name = "VerifC06/%s" % kind
        p = os.path.join(env.root, "VerifC06", kind)
        if kind == "gettz_nocache_name":
            sequence(p, lambda: tz.gettz.nocache(name))
        elif kind == "gettz_name":
            last = {}

            def before(k):
                if k > 0:  # BY DESIGN (C18), observed and not asserted
                    g, _ = _guard(lambda: tz.gettz(name))
                    rec.info("history_by_design:gettz_name_while_cached_returns_%s" % ("the_same_object" if g is last.get("z") else "another_object"))
                tz.gettz.cache_clear()

            def load():
                last["z"] = tz.gettz(name)
                return last["z"]
            sequence(p, load, before_load=before)
            tz.gettz.cache_clear()
        else:
            # no cache_clear() between the loads: no reference to the previous object is kept, the strong cache is emptied
            # through set_cache_size; asserted only when the entry really left both caches (otherwise: by design)
            tz.gettz.cache_clear()
            for k, data in enumerate(datas):
                env.put(p, data, k == 0, sc["rewrite"], sc["mtime"])
                if not env.evict_gettz() or env.gettz_has(name) is not False:
                    rec.info("history_skipped:gettz_name_evicted(entry still cached: staleness by design)")
                    break
                z, err = _guard(lambda: tz.gettz(name))
                reports(z, err, data, "load%d_reports_data%d" % (k, k))
                z = None
            tz.gettz.cache_clear()

    elif kind == "archive_member":
        from dateutil.zoneinfo import ZoneInfoFile
        member, alias = "VerifC06/Member", "VerifC06/Alias"
        held = []
        for k, data in enumerate(datas):
            buf = io.BytesIO()
            with tarfile.open(fileobj=buf, mode="w") as tf:
                ti = tarfile.TarInfo(member); ti.size = len(data); ti.mtime = 1_600_000_000
                tf.addfile(ti, io.BytesIO(data))
                li = tarfile.TarInfo(alias); li.type = tarfile.SYMTYPE if k % 2 == 0 else tarfile.LNKTYPE; li.linkname = member
                tf.addfile(li)
            buf.seek(0)

            def load():
                with warnings.catch_warnings():
                    warnings.simplefilter("ignore")
                    zif = ZoneInfoFile(buf)
                z = zif.get(member)
                if zif.get(alias) is not z:
                    raise ValueError("the link entry does not resolve to its target object")
                return z
            z, err = _guard(load)
            reports(z, err, data, "archive%d_member_reports_data%d" % (k, k),
                    "ZoneInfoFile member of the same name in another archive reports stale/wrong data")
            for j, zj in enumerate(held):
                if zj is not None:
                    reports(zj, None, datas[j], "member_of_archive%d_still_reports_data%d_after_archive%d" % (j, j, k))
                    if j == k - 1 and err is None:
                        relation(z, zj, data, datas[j], "archive%d_vs_archive%d_equality" % (k, j))
            held.append(z)

    elif kind in ("pickle", "copy"):
        p = os.path.join(env.tmp, "d0", kind + ".tzif")
        env.put(p, datas[0], True, None, None)
        z0, err = _guard(lambda: tz.tzfile(p))
        if err is not None:
            reports(None, err, datas[0], "load0_reports_data0"); return
        blobs = [(pr, pickle.dumps(z0, protocol=pr)) for pr in (2, pickle.HIGHEST_PROTOCOL)] if kind == "pickle" else []
        for k in range(1, len(datas)):
            env.put(p, datas[k], False, sc["rewrite"], sc["mtime"])
            if kind == "pickle":
                clones = [("unpickle_protocol%d_dumped_before_rewrite%d" % (pr, k), lambda b=b: pickle.loads(b)) for pr, b in blobs]
                clones.append(("unpickle_dumped_after_rewrite%d" % k, lambda: pickle.loads(pickle.dumps(z0))))
            else:
                clones = [("copy_after_rewrite%d" % k, lambda: copy.copy(z0)), ("deepcopy_after_rewrite%d" % k, lambda: copy.deepcopy(z0))]
            for step, make in clones:
                u, err = _guard(make)
                reports(u, err, datas[0], step + "_reports_data0",
                        "%s of a zone loaded before the rewrite does not report the ORIGINAL object's data" % kind)
            zk, err = _guard(lambda: tz.tzfile(p))
            if err is None:
                u, err = _guard((lambda: pickle.loads(pickle.dumps(zk))) if kind == "pickle" else (lambda: copy.deepcopy(zk)))
            reports(u, err, datas[k], "%s_of_load%d_reports_data%d" % (kind, k, k))
    else:
        raise ValueError("unknown history kind %r" % kind)


def _scenario(kind, name, datas, rewrite, mtime):
    return {"kind": kind, "name": name, "datas": list(datas), "rewrite": rewrite, "mtime": mtime,
            "key": tuple(_digest(x) for x in datas)}


def _same_len(datas):
    return len({len(x) for x in datas}) == 1


def history(ctx):
    """HISTORY stream: every load path on a path / name / filename whose data changes between the loads"""
    pairs = pairs_for(ctx)
    rec = _Recorder(ctx)
    with _Env() as env:
        # the references first: a fresh BytesIO load of each byte string against the independent struct reader, and
        # fresh loads of different data must not report the same zone (the comparisons below lean on the references)
        usable = []
        for name, datas in pairs:
            ok = True
            for x in datas:
                r = _ref(x)
                ctx.case(("reference", _digest(x))); ctx.count("history:reference")
                if r is None:
                    ok = False
                    ctx.violation("a well-formed TZif stream is rejected by a fresh BytesIO load",
                                  {"kind": "reference", "a": Z.hexs(x), "b": Z.hexs(x), "step": "reference_load", "pair": name}, _ref_errors.get(x))
                elif not r["independent_ok"]:
                    ctx.violation("a fresh BytesIO load disagrees with the independent struct reader of the same bytes",
                                  {"kind": "reference", "a": Z.hexs(x), "b": Z.hexs(x), "step": "reference_vs_reader", "pair": name}, r["independent_note"])
            if ok:
                for a, b in zip(datas, datas[1:]):
                    if _ref(a)["dump"] == _ref(b)["dump"]:
                        ctx.violation("fresh BytesIO loads of DIFFERENT data report the same zone",
                                      {"kind": "reference", "a": Z.hexs(a), "b": Z.hexs(b), "step": "reference_distinct", "pair": name}, _ref(a)["dump"][:300])
                usable.append((name, datas))
        pairs = usable
        if not pairs:
            raise RuntimeError("c06 history: no usable data sequence (the stream would pass vacuously)")
        n = 0
        for i, (name, datas) in enumerate(pairs):
            ctx.count("history_sequences:%s" % ("same_length" if _same_len(datas) else "different_length"))
            ctx.count("history_sequences:%s" % ("triple" if len(datas) > 2 else "pair"))
            for k, kind in enumerate(KINDS):
                # rewrite mode × mtime mode rotate over (pair, kind); equal-length data additionally always get the
                # in-place overwrite AND the os.replace with the ORIGINAL mtime put back (what an (mtime, size) key cannot see)
                modes = [REWRITES[(i + k) % len(REWRITES)]]
                if kind in ("tzfile_rel_otherdir", "archive_member"):
                    modes = [(None, None)]
                elif _same_len(datas) and kind not in ("tzfile_bytesio_filename",):
                    modes = sorted(set(modes + [("overwrite", "same"), ("replace", "same")]))
                for rewrite, mtime in modes:
                    _run(rec, env, _scenario(kind, name, datas, rewrite, mtime))
                    n += 1
        ctx.count("history_scenarios", n)
    return rec.failures


def replay_history(case):
    """re-run ONE recorded violation case (of history or of shared_state_audit); True when the property holds now"""
    if "site" in case:
        return replay_audit(case)
    if case.get("kind") == "reference":
        a, b = bytes.fromhex(case["a"]), bytes.fromhex(case["b"])
        ra, rb = _ref(a), _ref(b)
        ok = bool(ra and rb and ra["independent_ok"] and rb["independent_ok"] and (a == b or ra["dump"] != rb["dump"]))
        print("history replay (reference): fresh BytesIO load %s" % ("agrees with the bytes" if ok else "still differs: %r" % (
            _ref_errors.get(a) or (ra or {}).get("independent_note") or "same zone for different data")))
        return ok
    datas = [bytes.fromhex(case[k]) for k in ("a", "b", "c") if case.get(k) and case[k] != "."]
    col = _Collector()
    rec = _Recorder(col)
    with _Env() as env:
        _run(rec, env, _scenario(case["kind"], case.get("pair", "replay"), datas, case.get("rewrite"), case.get("mtime")))
    for v in col.violations:
        print("history replay: %s | step=%s rewrite=%s mtime=%s | %s" % (v["what"], v["case"]["step"], v["case"]["rewrite"],
                                                                        v["case"]["mtime"], json.dumps(v["detail"])[:400]))
    if not col.violations:
        print("history replay: %s holds on %d comparisons" % (case["kind"], col.cases))
    return not col.violations


# ====================================================================== shared-state audit

AUDIT_TARGETS = [
    ("tz/tz.py", ("tzfile", "_tzfile", "_ttinfo")),
    ("zoneinfo/__init__.py", ("ZoneInfoFile", "tzfile")),
]
# methods whose job is to fill in THIS instance: `self.x = …` / setattr(self, …) there is per-object state
INSTANCE_METHODS = {"__init__", "_read_tzfile", "_set_tzdata", "__setstate__"}
MUTABLE_CTORS = {"dict", "list", "set", "bytearray", "OrderedDict", "defaultdict", "Counter", "deque", "ChainMap",
                 "WeakValueDictionary", "WeakKeyDictionary", "WeakSet"}
MUTATORS = {"append", "extend", "insert", "update", "setdefault", "pop", "popitem", "clear", "add", "remove", "discard",
            "move_to_end", "appendleft", "extendleft", "__setitem__", "__delitem__", "sort", "reverse"}
TZIF_NAMES = {"tzfile", "_tzfile", "_ttinfo", "ZoneInfoFile"}
CACHE_WORDS = ("cache", "memo", "registry", "instances", "lru")
BENIGN_DECORATORS = {"staticmethod", "classmethod", "property"}
CONSTRUCTOR_HOOKS = {"__new__", "__init_subclass__", "__class_getitem__", "__set_name__"}


def _src(node, n=160):
    return " ".join(ast.unparse(node).split())[:n]


def _is_constant(v):
    if isinstance(v, ast.Constant):
        return True
    if isinstance(v, ast.Tuple):
        return all(_is_constant(e) for e in v.elts)
    if isinstance(v, ast.UnaryOp) and isinstance(v.operand, ast.Constant):
        return True
    return False


def _is_mutable_value(v):
    if isinstance(v, (ast.Dict, ast.List, ast.Set, ast.ListComp, ast.DictComp, ast.SetComp)):
        return True
    if isinstance(v, ast.Call):
        f = v.func
        name = f.id if isinstance(f, ast.Name) else (f.attr if isinstance(f, ast.Attribute) else "")
        return name in MUTABLE_CTORS
    return False


def _has_cache_word(s):
    s = s.lower()
    return any(w in s for w in CACHE_WORDS)


def _flatten_targets(ts):
    out = []
    for t in ts:
        if isinstance(t, (ast.Tuple, ast.List)):
            out += _flatten_targets(t.elts)
        elif isinstance(t, ast.Starred):
            out += _flatten_targets([t.value])
        elif t is not None:
            out.append(t)
    return out


def _store_targets(n):
    if isinstance(n, ast.Assign):
        return _flatten_targets(n.targets)
    if isinstance(n, (ast.AugAssign, ast.AnnAssign)):
        return _flatten_targets([n.target])
    if isinstance(n, ast.Delete):
        return _flatten_targets(n.targets)
    if isinstance(n, (ast.For, ast.AsyncFor)):
        return _flatten_targets([n.target])
    if isinstance(n, (ast.With, ast.AsyncWith)):
        return _flatten_targets([i.optional_vars for i in n.items])
    if isinstance(n, ast.NamedExpr):
        return [n.target]
    return []


def _base(e):
    depth, via_class = 0, False
    while isinstance(e, (ast.Attribute, ast.Subscript)):
        if isinstance(e, ast.Attribute) and e.attr in ("__class__", "__dict__", "__func__", "__wrapped__"):
            via_class = True
        e = e.value
        depth += 1
    return e, depth, via_class


def _module_names(tree):
    names = set()

    def visit(body):
        for node in body:
            if isinstance(node, (ast.ClassDef, ast.FunctionDef, ast.AsyncFunctionDef)):
                names.add(node.name)
            elif isinstance(node, (ast.Import, ast.ImportFrom)):
                for a in node.names:
                    names.add((a.asname or a.name).split(".")[0])
            elif isinstance(node, (ast.Assign, ast.AugAssign, ast.AnnAssign)):
                for t in _store_targets(node):
                    if isinstance(t, ast.Name):
                        names.add(t.id)
            for fld in ("body", "orelse", "finalbody"):
                if not isinstance(node, (ast.ClassDef, ast.FunctionDef, ast.AsyncFunctionDef)) and isinstance(getattr(node, fld, None), list):
                    visit(getattr(node, fld))
            for h in getattr(node, "handlers", []) or []:
                visit(h.body)
    visit(tree.body)
    return names


def _module_level_statements(tree):
    out = []

    def visit(body):
        for node in body:
            if isinstance(node, (ast.ClassDef, ast.FunctionDef, ast.AsyncFunctionDef)):
                continue
            out.append(node)
            for fld in ("body", "orelse", "finalbody"):
                if isinstance(getattr(node, fld, None), list):
                    visit(getattr(node, fld))
            for h in getattr(node, "handlers", []) or []:
                visit(h.body)
    visit(tree.body)
    return out


def audit_sites(repo=None):
    """[(site, kind, source, lineno, file, cls, needs_allow_list)] for everything the audit looks at, plus the list of
    audited classes that are missing from the tree"""
    repo = repo or os.environ.get("DATEUTIL_REPO", "/repo")
    sites, missing = [], []
    for rel, classes in AUDIT_TARGETS:
        path = os.path.join(repo, "src", "dateutil", rel)
        try:
            text = open(path).read()
        except OSError:
            missing += ["%s:%s" % (rel, c) for c in classes]
            continue
        tree = ast.parse(text)
        modnames = _module_names(tree)
        classnames = set(classes) | {n for n in modnames if n in ("tzfile", "_tzfile", "_ttinfo", "ZoneInfoFile")}

        def add(site, kind, node, cls, needs, src=None):
            sites.append({"site": "%s:%s" % (rel, site), "kind": kind, "source": src if src is not None else _src(node),
                          "line": getattr(node, "lineno", 0), "file": rel, "class": cls, "needs": bool(needs)})

        # ---- the audited classes
        found = {}
        for node in tree.body:
            if isinstance(node, ast.ClassDef) and node.name in classes:
                found[node.name] = node
        for c in classes:
            if c not in found:
                missing.append("%s:%s" % (rel, c))
        for cname, cnode in found.items():
            header = "class %s(%s)" % (cname, ", ".join([_src(b) for b in cnode.bases] + ["%s=%s" % (k.arg, _src(k.value)) for k in cnode.keywords]))
            if cnode.decorator_list:
                header = " ".join("@" + _src(d) for d in cnode.decorator_list) + " " + header
            # a metaclass / class decorator / another base can intercept construction (as _TzSingleton and the factories do)
            add(cname, "class_header", cnode, cname, True, header)
            for n in cnode.body:
                if isinstance(n, (ast.Assign, ast.AnnAssign, ast.AugAssign)):
                    value = n.value
                    for t in _store_targets(n):
                        tname = _src(t)
                        needs = value is not None and not _is_constant(value)
                        add("%s.%s" % (cname, tname), "class_attr" if needs else "class_attr_constant", n, cname, needs)
                elif isinstance(n, (ast.FunctionDef, ast.AsyncFunctionDef)):
                    _scan_method(add, rel, cname, n, modnames, classnames)
                elif isinstance(n, ast.ClassDef):
                    add("%s.%s" % (cname, n.name), "nested_class", n, cname, True, "class %s" % n.name)
                elif isinstance(n, ast.Expr) and isinstance(n.value, ast.Constant):
                    pass                      # docstring
                elif isinstance(n, ast.Pass):
                    pass
                else:
                    add("%s.<body>" % cname, "class_body_statement", n, cname, True)

        # ---- the module around them
        for node in _module_level_statements(tree):
            if isinstance(node, ast.Global):
                add("<module>", "global_stmt", node, None, True)
            if not isinstance(node, (ast.Assign, ast.AnnAssign, ast.AugAssign)):
                continue
            value = node.value
            for t in _store_targets(node):
                tname = _src(t)
                cachey = _has_cache_word(tname) and value is not None and not _is_constant(value)
                needs = (value is not None and _is_mutable_value(value)) or cachey or not isinstance(t, ast.Name)
                add("<module>.%s" % tname, "module_container" if needs else "module_assign", node, None, needs)
        # caching decorators and cache-named stores anywhere else in the file (the gettz factory lives here: C18)
        audited_nodes = set()
        for cnode in found.values():
            for sub in ast.walk(cnode):
                audited_nodes.add(id(sub))

        def visit_other(node, qual, relevant=None):
            for sub in _nested_defs(node):
                if id(sub) in audited_nodes:
                    continue
                q = (qual + "." if qual else "") + sub.name
                for d in sub.decorator_list:            # a caching decorator anywhere in the file is looked at
                    if _has_cache_word(_src(d)):
                        add(q, "caching_decorator", d, None, True, "@" + _src(d))
                # cache-named state is looked at in the top-level functions / classes that mention one of the TZif classes
                # (the gettz factory, the zoneinfo accessors); per-instance caches of unrelated zones (tzical) are not C06's
                rel_here = relevant if relevant is not None else any(
                    isinstance(x, ast.Name) and x.id in TZIF_NAMES or isinstance(x, ast.Attribute) and x.attr in TZIF_NAMES
                    for x in ast.walk(sub))
                if not rel_here:
                    visit_other(sub, q, False)
                    continue
                own = _own_nodes(sub)
                if isinstance(sub, ast.ClassDef):
                    for n in sub.body:
                        if isinstance(n, (ast.Assign, ast.AnnAssign)) and n.value is not None and _is_mutable_value(n.value) \
                                and any(_has_cache_word(_src(t)) for t in _store_targets(n)):
                            add(q, "cache_named_store", n, None, True)
                else:
                    for a in list(sub.args.defaults) + [x for x in sub.args.kw_defaults if x is not None]:
                        if _is_mutable_value(a):
                            add(q, "mutable_default", a, None, True)
                    for n in own:
                        if isinstance(n, (ast.Global, ast.Nonlocal)) and any(_has_cache_word(x) for x in n.names):
                            add(q, "cache_named_store", n, None, True)
                        if not isinstance(n, (ast.For, ast.AsyncFor)):
                            for t in _store_targets(n):
                                b = t.value if isinstance(t, ast.Subscript) else t
                                term = b.attr if isinstance(b, ast.Attribute) else (b.id if isinstance(b, ast.Name) else "")
                                if _has_cache_word(term):
                                    add(q, "cache_named_store", n, None, True)
                        if isinstance(n, ast.Call) and isinstance(n.func, ast.Attribute) and n.func.attr in MUTATORS:
                            b = n.func.value
                            term = b.attr if isinstance(b, ast.Attribute) else (b.id if isinstance(b, ast.Name) else "")
                            if _has_cache_word(term):
                                add(q, "cache_named_mutation", n, None, True)
                visit_other(sub, q, True)
        visit_other(tree, "")
    return sites, missing


_DEFS = (ast.FunctionDef, ast.AsyncFunctionDef, ast.ClassDef)


def _nested_defs(node):
    """def / class nodes nested in `node` with no other def / class in between"""
    out = []

    def rec(n):
        for ch in ast.iter_child_nodes(n):
            if isinstance(ch, _DEFS):
                out.append(ch)
            else:
                rec(ch)
    rec(node)
    return out


def _own_nodes(node):
    """all nodes of a def / class that do not belong to a nested def / class"""
    out = []

    def rec(n):
        for ch in ast.iter_child_nodes(n):
            if isinstance(ch, _DEFS):
                continue
            out.append(ch)
            rec(ch)
    rec(node)
    return out


def _scan_method(add, rel, cname, fn, modnames, classnames):
    q = "%s.%s" % (cname, fn.name)
    add(q, "method", fn, cname, False, "def %s" % fn.name)
    for d in fn.decorator_list:
        s = _src(d)
        if _has_cache_word(s):
            add(q, "caching_decorator", d, cname, True, "@" + s)
        elif s in BENIGN_DECORATORS:
            add(q, "decorator_benign", d, cname, False, "@" + s)
        else:
            add(q, "decorator", d, cname, True, "@" + s)
    if fn.name in CONSTRUCTOR_HOOKS:
        add(q, "constructor_hook", fn, cname, True, "def %s" % fn.name)
    for a in list(fn.args.defaults) + [x for x in fn.args.kw_defaults if x is not None]:
        if not _is_constant(a):
            add(q, "mutable_default", a, cname, True)
    params = {a.arg for a in fn.args.posonlyargs + fn.args.args + fn.args.kwonlyargs}
    if fn.args.vararg:
        params.add(fn.args.vararg.arg)
    if fn.args.kwarg:
        params.add(fn.args.kwarg.arg)
    declared_global = set()
    local_names = set(params)
    for n in ast.walk(fn):
        if isinstance(n, (ast.Global, ast.Nonlocal)):
            declared_global.update(n.names)
        for t in _store_targets(n):
            if isinstance(t, ast.Name):
                local_names.add(t.id)
        if isinstance(n, (ast.Import, ast.ImportFrom)):
            for a in n.names:
                local_names.add((a.asname or a.name).split(".")[0])
    local_names -= declared_global
    first = fn.args.args[0].arg if fn.args.args else None
    is_cm = any(_src(d) == "classmethod" for d in fn.decorator_list)
    is_sm = any(_src(d) == "staticmethod" for d in fn.decorator_list)
    selfname = first if (first and not is_cm and not is_sm) else None
    clsname = first if (first and is_cm) else None

    def owner(e):
        """who owns the object the expression starts from: self / class / module / local"""
        b, depth, via_class = _base(e)
        if isinstance(b, ast.Call):
            f = _src(b.func)
            if f in ("type", "vars", "globals", "getattr", "super", "locals") or f.endswith("__getattribute__"):
                return "class", depth
            if isinstance(b.func, ast.Attribute):          # x.get(k)[…] = v, x.get(k).append(v): still x's object
                who, d2 = owner(b.func.value)
                return who, depth + d2 + 1
            return "local", depth
        if not isinstance(b, ast.Name):
            return "local", depth
        if via_class:
            return "class", depth
        if b.id == selfname:
            return "self", depth
        if b.id == clsname or (b.id == "cls" and b.id in params):
            return "class", depth
        if b.id in local_names:
            return "local", depth
        if b.id in classnames:
            return "class", depth
        if b.id in modnames or b.id in declared_global:
            return "module", depth
        return "local", depth

    for n in ast.walk(fn):
        if isinstance(n, (ast.Global, ast.Nonlocal)):
            add(q, "global_stmt", n, cname, True)
        for t in _store_targets(n):
            if isinstance(t, ast.Name):
                if t.id in declared_global:
                    add(q, "module_store", n, cname, True)
                continue
            if not isinstance(t, (ast.Attribute, ast.Subscript)):
                continue
            who, depth = owner(t)
            if who == "class":
                add(q, "class_store", n, cname, True)
            elif who == "module":
                add(q, "module_store", n, cname, True)
            elif who == "self":
                if depth == 1 and isinstance(t, ast.Attribute):
                    inst = fn.name in INSTANCE_METHODS
                    add(q, "instance_attr" if inst else "self_store_outside_init", n, cname, not inst)
                else:
                    add(q, "self_container_store", n, cname, True)
        if isinstance(n, ast.Call):
            f = _src(n.func)
            if f in ("setattr", "delattr", "object.__setattr__", "object.__delattr__") and n.args:
                who, depth = owner(n.args[0])
                if who == "self" and depth == 0:
                    inst = fn.name in INSTANCE_METHODS
                    add(q, "instance_attr" if inst else "self_store_outside_init", n, cname, not inst)
                elif who in ("class", "module") or (who == "self" and depth > 0):
                    add(q, "class_store" if who == "class" else ("module_store" if who == "module" else "self_container_store"), n, cname, True)
            elif f in ("globals", "vars", "locals") or f.startswith("sys.modules") or f == "sys._getframe":
                add(q, "globals_call", n, cname, True)
            elif isinstance(n.func, ast.Attribute) and n.func.attr in MUTATORS:
                who, depth = owner(n.func.value)
                if who == "class":
                    add(q, "class_mutation", n, cname, True)
                elif who == "module":
                    add(q, "module_mutation", n, cname, True)
                elif who == "self" and depth >= 1:
                    add(q, "self_container_mutation", n, cname, True)


def _load_allow():
    try:
        doc = json.load(open(ALLOW_FILE))
    except (OSError, ValueError):
        return {}
    out = {}
    for e in doc.get("sites", []):
        out[(e["site"], e["kind"], e["source"])] = e
    return out


def audit_findings(repo=None):
    """(sites, new = sites that need an allow-list entry and have none (or occur more often than listed), missing classes,
    allow-list entries that no longer occur)"""
    sites, missing = audit_sites(repo)
    allow = _load_allow()
    seen, new = {}, []
    for s in sites:
        key = (s["site"], s["kind"], s["source"])
        seen[key] = seen.get(key, 0) + 1
        if not s["needs"]:
            continue
        e = allow.get(key)
        if e is None or seen[key] > int(e.get("count", 1)):
            new.append(s)
    gone = [k for k in allow if k not in seen]
    return sites, new, missing, gone


def shared_state_audit(ctx):
    """AST audit: nothing in the TZif classes (or the module around them) through which one load can reach the next,
    beyond the sites committed in c06_shared_state_sites.json"""
    repo = os.environ.get("DATEUTIL_REPO", "/repo")
    sites, new, missing, gone = audit_findings(repo)
    for s in sites:
        ctx.case(("audit", s["site"], s["kind"], s["source"]), nontrivial=False)
        ctx.count("audit:" + s["kind"])
    ctx.count("audit_sites_total", len(sites))
    ctx.count("audit_sites_allow_listed", sum(1 for s in sites if s["needs"]) - len(new))
    lines = {}
    for s in new:
        if s["file"] not in lines:
            try:
                lines[s["file"]] = open(os.path.join(repo, "src", "dateutil", s["file"])).read().splitlines()
            except OSError:
                lines[s["file"]] = []
        ls = lines[s["file"]]
        text = ls[s["line"] - 1].strip() if 0 < s["line"] <= len(ls) else s["source"]
        where = s["class"] if s["class"] else "module dateutil/%s" % s["file"]
        ctx.violation("shared mutable state in %s" % where,
                      {"site": s["site"], "kind": s["kind"], "source": s["source"], "file": s["file"], "line": s["line"]}, text)
    for m in missing:
        ctx.case(("audit", m, "missing"), nontrivial=False)
        ctx.violation("shared-state audit cannot find an audited class", {"site": m, "kind": "audited_class_missing", "source": ""}, None)
    if gone:
        ctx.count("audit_allow_listed_sites_absent_from_tree", len(gone))
    return len(new) + len(missing)


def replay_audit(case):
    sites, new, missing, gone = audit_findings()
    hit = [s for s in new if s["site"] == case.get("site") and s["kind"] == case.get("kind") and s["source"] == case.get("source")]
    if case.get("kind") == "audited_class_missing":
        hit = [m for m in missing if m == case.get("site")]
    print("audit replay: site %s %s" % (case.get("site"), "is still reported" if hit else "is not reported now"))
    return not hit
