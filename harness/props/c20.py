"""C20 — isoparse never misreads: accepted text is an ISO-8601 spelling of the result; everything
else is rejected with ValueError and nothing else."""
import re, datetime
import basecorr, vlib
from props import isocommon as ic

PROP = "C20"
TRUSTED = [
    "Model/IsoParser.lean is a hand model of src/dateutil/parser/isoparser.py (cursor = remaining suffix); tied by the iso.parse / iso.date / iso.time / iso.tz correspondence on the whole mutation stream",
    "Spec/IsoForms.lean (printer `render`, field validity `WFields`, denotation `denote`, template-matching recogniser) is the reference for what an ISO-8601 representation is; written from the parser's documented forms",
    "datetime()/date()/time() construction and date +- timedelta are modelled by validity predicates and ordinal range checks (Base/Calendar.lean, Base/Time.lean)",
    "harness/translate_bytes.py (BytesPy translator): _parse_digits, _parse_tzstr, _parse_isodate_common, _calculate_weekdate, _parse_isodate_uncommon, _parse_isodate, _parse_isotime, the bodies of isoparse, parse_isodate, parse_isotime and parse_tzstr and the inner function of the `_takes_ascii` decorator are RE-TRANSLATED from /repo's isoparser.py into Generated/IsoKernels.lean on every run (159 of the module's 164 statements); anything outside the fragment aborts with a named construct (broken tie)",
    "Proofs/IsoGenEq.lean + Proofs/IsoGenLoop.lean prove EVERY translated function equal to the hand model for all inputs (incl. the `while` loop of _parse_isotime by a simulation lemma: 8 units of fuel suffice), so every audited `_gen` theorem is a statement about the translation of today's source; a behaviour-changing edit breaks a named `_eq`/`sim_*` obligation (or the translation itself)",
    "named primitives of the translator (Model/BytesPy.lean), trusted with their documented Python meaning and exercised by the isogen.* validation on every run: slice/len/`in` on bytes, bytes.isdigit, int(bytes) (whitespace, sign, PEP 515 underscores), the fraction regex as `fractionMatch`, list get/set (in-range), date()/isocalendar()/timedelta arithmetic on ordinals, date(*l)/time(*l)/datetime(*l), try/except on the exception kind, and for `_takes_ascii`: `readAll` = getattr(x,'read',lambda: x)() (a stream delivers EVERYTHING from its current position; str/bytes unchanged), isinstance(x, six.text_type), str.encode('ascii'), and the coercion of the gated value to bytes when the wrapped method is called",
    "still hand-modelled: isoparser.__init__ only (5 of 164 statements: the `sep` check; Model `mkSep`, exercised with valid and invalid `sep` arguments on every run); the oracle compares str, bytes, StringIO, BytesIO and partially consumed streams on every generated text, incl. texts with line breaks and surrounding blanks",
]
ASSUMPTIONS = [
    "inputs are str, bytes or text streams; other argument types are outside the property",
    "a str is ASCII iff every byte of its UTF-8 encoding is < 128 (the model's gate works on the UTF-8 bytes)",
    "the `re` engine matches b'[\\\\.,]([0-9]+)' as: one mark byte followed by the maximal non-empty run of ASCII digits",
]
RULE = ("mutation stream: every string within one edit (delete / substitute / insert / transpose over the 25-symbol alphabet "
        "digits, - : . , T W Z z + space _ t a / and a non-ASCII char) of the rendering of every form x 4 field sets "
        "(quick: a seeded sample of the isoparse one-edit set, all of it for the date / time / offset entry points), seeded two-edit "
        "mutants, plus every string of length <= 4 (quick) / <= 5 (thorough) over the 12-symbol alphabet 01259-:.TWZ+ for each of "
        "the four entry points, with sep=None and configured separators; distinct = distinct (entry, sep, zero_as_utc, input kind, "
        "string); non-trivial = mutants of valid strings (each one decides accept/reject next to the grammar) and any short "
        "string accepted by the implementation or the spec")

WEEK53 = re.compile(r"^(\d{4})-?W53")
OVF_WEEK = re.compile(r"^9999-?W(52-?[67]|53)")
LAST_DAY_24 = re.compile(r"^(9999-12-31|99991231|9999-365|9999365|9999-W52-5|9999W525).24")
DATE_RE = r"(\d{4}-\d\d-\d\d|\d{8}|\d{4}-?W\d\d-?\d|\d{4}-\d{3}|\d{7})"
OFFSET_ONLY = re.compile(r"^[+-]\d\d(:?\d\d)?$")


def has52weeks(y):
    return 1 <= y <= 9999 and datetime.date(y, 12, 28).isocalendar()[1] == 52


def _s(v):
    return v["case"].get("string", "")


def k_b(v):
    c = v["case"]
    return c.get("impl") == "err OverflowError" and c.get("entry") == "isoparse" and bool(LAST_DAY_24.match(_s(v)))


def k_c(v):
    c = v["case"]
    m = WEEK53.match(_s(v))
    return bool(m) and c.get("entry") in ("isoparse", "date") and has52weeks(int(m.group(1))) \
        and c.get("impl", "").startswith("ok ") and c.get("impl") in c.get("lax", [])


def k_d(v):
    c = v["case"]
    return c.get("impl") == "err OverflowError" and c.get("entry") in ("isoparse", "date") and bool(OVF_WEEK.match(_s(v)))


def k_e(v):
    """time portion consisting of an offset only: the value is the one `00` + offset denotes"""
    c = v["case"]
    s = _s(v)
    if c.get("entry") == "time":
        t = s
    elif c.get("entry") == "isoparse":
        m = re.match("^" + DATE_RE + r"(.)([+-].*)$", s, re.S)
        if not m:
            return False
        t = m.group(3)
    else:
        return False
    return bool(OFFSET_ONLY.match(t)) and c.get("impl", "").startswith("ok ") and c.get("impl") in c.get("as_if_00", [])


# D-C20b/c/d/e were fixed in /repo (17b546f, b75c1b5, 4bf5835): the class matchers stay as diagnostics
# only (they label a regression in the evidence histogram) and suppress nothing.
CLASSES = {"D-C20b": k_b, "D-C20c": k_c, "D-C20d": k_d, "D-C20e": k_e}
KNOWN = {}


# ---------------------------------------------------------------------------------------------
def build_stream(ctx):
    """list of (entry, sep, zero, kind, string, nontrivial_by_construction)"""
    if getattr(ctx, "_c20_stream", None) is not None:
        return ctx._c20_stream
    rng = ctx.subrng("c20-stream")
    thorough = ctx.tier == "thorough" or ctx.escalated
    lines, meta = ic.base_render_lines(84)
    resp = ctx.driver(lines)
    bases = {"isoparse": [], "date": set(), "time": set(), "tz": set()}
    for r, (bi, df, tf, of, k) in zip(resp, meta):
        raw, lax, strict, den = ic.parse_render(r)
        s = raw.decode("ascii")
        if not strict:
            continue             # e.g. week forms of a date the form cannot show; not a valid base
        bases["isoparse"].append(s)
        dl = ic.DATE_LEN[df]
        bases["date"].add(s[:dl])
        if tf != 0:
            tl = ic.time_len(tf, k)
            bases["time"].add(s[dl + 1:])
            if of != 0:
                bases["tz"].add(s[dl + 1 + tl:])
    ctx.count("base_strings_isoparse", len(bases["isoparse"]))
    seen = set()
    out = []

    def add(entry, sep, zero, kind, s, nt=True):
        key = (entry, sep, zero, kind, s)
        if key in seen:
            return
        seen.add(key)
        out.append((entry, sep, zero, kind, s, nt))

    # valid strings themselves, every entry point
    for s in bases["isoparse"]:
        add("isoparse", None, True, "str", s)
        add("isoparse", "T", True, "str", s)
    one_budget = None if thorough else ctx.budget(60000, 0)
    # isoparse: one-edit neighbourhood (quick: seeded sample), two-edit sample
    iso_bases = sorted(set(bases["isoparse"]))
    total_est = sum(len(s) * 52 + 30 for s in iso_bases)
    p = 1.0 if one_budget is None else min(1.0, one_budget / float(total_est))
    for s in iso_bases:
        for m in ic.one_edits(s):
            if p >= 1.0 or rng.random() < p:
                add("isoparse", None, True, "str", m)
                ctx.count("mut_one_edit")
        for _ in range(ctx.budget(12, 200)):
            m = ic.random_edit(ic.random_edit(s, rng), rng)
            add("isoparse", rng.choice([None, None, "T", " "]), True, "str", m)
            ctx.count("mut_two_edit")
        # configured separators: the valid string under another configured separator, and with the separator replaced
        for cfg in ("T", " ", "t", "-"):
            add("isoparse", cfg, True, "str", s)
        if len(s) > 10:
            for c in " t_-:Z+W0":
                for pos in (7, 8, 10):
                    if pos < len(s) and s[pos] == "T":
                        m = s[:pos] + c + s[pos + 1:]
                        add("isoparse", None, True, "str", m)
                        add("isoparse", "T", True, "str", m)
                        add("isoparse", c if not c.isdigit() else "T", True, "str", m)
    # bytes / stream kinds and non-ASCII on a sample
    for s in rng.sample(iso_bases, min(len(iso_bases), ctx.budget(120, 10 ** 6))):
        add("isoparse", None, True, "bytes", s)
        add("isoparse", None, True, "stream", s)
        add("isoparse", None, True, "bstream", s)
        add("isoparse", None, True, "stream@7", s)
        add("isoparse", None, True, "bstream@3", s)
        for wv in ic.WHITESPACE_VARIANTS:
            for kd in ("str", "bytes", "stream", "bstream", "stream@7"):
                add("isoparse", None, True, kd, wv(s))
        for _ in range(6):
            m = ic.random_edit(s, rng, ic.ALPHABET + ["é", " ", "１"])
            add("isoparse", None, True, "bytes", m)
            add("isoparse", None, True, "stream", m)
            add("isoparse", None, True, "bstream", m)
        if len(s) > 10:
            i = rng.randrange(len(s))
            add("isoparse", None, True, "str", s[:i] + "１" + s[i + 1:])    # fullwidth digit one
            add("isoparse", None, True, "bytes", s[:i] + "١" + s[i + 1:])
    # the three auxiliary entry points: complete one-edit neighbourhoods + two-edit samples
    for entry in ("date", "time", "tz"):
        for s in sorted(bases[entry]):
            zs = (True, False) if entry == "tz" else (True,)
            for z in zs:
                add(entry, None, z, "str", s)
                add(entry, None, z, "bytes", s)
                for kd in ("stream", "bstream", "stream@7", "bstream@3"):
                    add(entry, None, z, kd, s)
                    add(entry, None, z, kd, s + "\n")
                    add(entry, None, z, kd, " " + s)
                for m in ic.one_edits(s):
                    add(entry, None, z, "str", m)
                for _ in range(ctx.budget(10, 150)):
                    add(entry, None, z, "str", ic.random_edit(ic.random_edit(s, rng), rng))
    # exhaustive short strings
    maxlen = 5 if thorough else 4
    A = ic.SHORT_ALPHABET
    level = [""]
    for n in range(1, maxlen + 1):
        level = [w + c for w in level for c in A]
        for w in level:
            add("isoparse", None, True, "str", w, False)
            add("date", None, True, "str", w, False)
            add("time", None, True, "str", w, False)
            add("tz", None, True, "str", w, False)
            if n <= 3:
                add("tz", None, False, "str", w, False)
    add("isoparse", None, True, "str", "", False)
    for e in ("date", "time", "tz"):
        add(e, None, True, "str", "", False)
    # near-valid strings of the known boundary classes (not valid, so not mutation bases)
    for d in ("9999-12-31", "99991231", "9999-365", "9999365", "9999-W52-5", "9999W525"):
        for tm in ("24", "24:00", "2400", "24:00:00", "240000", "24:00:00.000", "24:00Z", "24:00:00+01:00", "24:01", "23:59"):
            add("isoparse", None, True, "str", d + "T" + tm)
    for y in (2014, 2015, 2016, 2020, 2021, 9999, 1, 4):
        for w in ("W52", "W53", "W54", "W00"):
            for dd in ("", "1", "5", "6", "7", "8", "0"):
                add("isoparse", None, True, "str", "%04d-%s%s" % (y, w, "-" + dd if dd else ""))
                add("isoparse", None, True, "str", "%04d%s%s" % (y, w, dd))
                add("date", None, True, "str", "%04d-%s%s" % (y, w, "-" + dd if dd else ""))
                add("isoparse", None, True, "str", "%04d-%s%sT10:00" % (y, w, "-" + dd if dd else ""))
    for off in ("+01", "-01:00", "+0100", "+00:00", "-00", "+24:00", "+01:60", "Z", "z", "+1", "+01:0"):
        add("time", None, True, "str", off)
        for d in ("2016-11-27", "20161127", "2016-W47-7", "2016332"):
            add("isoparse", None, True, "str", d + "T" + off)
            add("isoparse", "T", True, "str", d + "T" + off)
    # invalid separators given to the constructor
    for cfg in ("", "TT", "9", "é", "0"):
        add("isoparse", cfg, True, "str", "2016-11-27T23:45")
    ctx.count("stream_size", len(out))
    ctx._c20_stream = out
    return out


def run_impl(ctx):
    if getattr(ctx, "_c20_impl", None) is None:
        ctx._c20_impl = [ic.entry_impl(e, s, sep, z, k) for (e, sep, z, k, s, _) in build_stream(ctx)]
    return ctx._c20_impl


def model_input(s, kind):
    """what the model op receives: the str's UTF-8 (gate applied) or the bytes (no gate)"""
    return s.encode("utf-8") if ic.is_bytes_kind(kind) else s


def correspondence(ctx):
    ic.check_fingerprint(ctx)
    basecorr.run(ctx)
    stream = build_stream(ctx)
    impl = run_impl(ctx)
    reqs = [ic.entry_line(e, model_input(s, k), sep, z, k) for (e, sep, z, k, s, _) in stream]
    got = ctx.driver(reqs)
    for item, q, i, g in zip(stream, reqs, impl, got):
        if i != g:
            ctx.mismatch("iso.%s" % item[0], {"entry": item[0], "sep": item[1], "zero_as_utc": item[2], "kind": item[3],
                                              "string": item[4]}, i, g)
    ctx.traces += len(reqs)
    # the translated scanners (Generated/IsoKernels.lean) against the implementation, same stream
    ic.validate_translation(ctx, [it[:5] for it in stream], impl)


def oracle(ctx):
    stream = list(build_stream(ctx))
    impl = list(run_impl(ctx))
    # seed with correspondence differences
    for mm in ctx.mismatches:
        c = mm["input"]
        if isinstance(c, dict) and "string" in c and c.get("entry") in ("isoparse", "date", "time", "tz"):
            stream.append((c["entry"], c["sep"], c["zero_as_utc"], c["kind"], c["string"], True))
            impl.append(ic.entry_impl(c["entry"], c["string"], c["sep"], c["zero_as_utc"], c["kind"]))
    # the spec is asked about every accepted string
    acc = [i for i, r in enumerate(impl) if r.startswith("ok ")]
    def gated(s, kind):
        return s.encode("utf-8")
    reqs = [ic.entry_spec_line(stream[i][0], gated(stream[i][4], stream[i][3]), stream[i][1], stream[i][2], True) for i in acc]
    spec = dict(zip(acc, ctx.driver(reqs)))
    failures = []
    for i, (item, r) in enumerate(zip(stream, impl)):
        entry, sep, zero, kind, s, nt = item
        accepted = r.startswith("ok ")
        ctx.case((entry, sep, zero, kind, s), nontrivial=(nt or accepted))
        ctx.count("entry_" + entry)
        if accepted:
            ctx.count("accepted")
            vals = ic.spec_values(spec[i])
            if r not in vals:
                failures.append((i, "accepted but not an ISO-8601 representation of the value returned", vals))
            elif len(ctx.samples) < 6 and s not in ("",) and ctx.hist.get("accepted", 0) % 97 == 1:
                ctx.sample({"entry": entry, "sep": sep, "string": s, "impl": r, "spec": vals})
        else:
            ctx.count("rejected_" + r[4:])
            if r != "err ValueError":
                failures.append((i, "rejected with %s instead of ValueError" % r[4:], None))
            elif len(ctx.samples) < 12 and nt and ctx.hist.get("rejected_ValueError", 0) % 9973 == 1:
                ctx.sample({"entry": entry, "sep": sep, "string": s, "impl": r})
    # AMBIENT PROCESS STATE: what the ISO parser returns for a text must not depend on calendar.setfirstweekday() (process-wide
    # state read elsewhere in dateutil): every text with a week designator and a slice of the others is parsed again under
    # two non-default first weekdays; a different answer than under the default is a misreading (the default answer was
    # checked against the specification above).
    import calendar
    saved_fwd = calendar.firstweekday()
    try:
        for k in (6, 2):
            calendar.setfirstweekday(k)
            for i, (item, r) in enumerate(zip(stream, impl)):
                entry, sep, zero, kind, s, nt = item
                if not ((("W" in s or "w" in s) and i % 3 == 0) or i % 41 == k):
                    continue
                r2 = ic.entry_impl(entry, s, sep, zero, kind)
                ctx.count("ambient_firstweekday_cases")
                if r2 != r:
                    ctx.count("ambient_firstweekday_differs")
                    ctx.violation("%s(%r) under calendar.setfirstweekday(%d) = %s but %s under the default: the answer depends on process state"
                                  % (entry, s, k, r2, r),
                                  {"entry": entry, "sep": sep, "zero_as_utc": zero, "kind": kind, "string": s, "impl": r2,
                                   "spec": [r], "lax": [], "as_if_00": [], "firstweekday": k}, {"impl": r2, "default": r})
    finally:
        calendar.setfirstweekday(saved_fwd)
    # diagnostics for the failures (lax recognition, the `00`-hour reading) — used by the class matchers
    lax_reqs, alt_reqs = [], []
    for (i, what, vals) in failures:
        entry, sep, zero, kind, s, nt = stream[i]
        lax_reqs.append(ic.entry_spec_line(entry, s.encode("utf-8"), sep, zero, False))
        alt = s
        if entry == "time":
            alt = "00" + s
        elif entry == "isoparse":
            m = re.match("^" + DATE_RE + r"(.)([+-].*)$", s, re.S)
            if m:
                alt = m.group(1) + m.group(2) + "00" + m.group(3)
        alt_reqs.append(ic.entry_spec_line(entry, alt.encode("utf-8"), sep, zero, False))
    lax = ctx.driver(lax_reqs) if lax_reqs else []
    alt = ctx.driver(alt_reqs) if alt_reqs else []
    cases = []
    for (i, what, vals), lx, al in zip(failures, lax, alt):
        entry, sep, zero, kind, s, nt = stream[i]
        case = {"entry": entry, "sep": sep, "zero_as_utc": zero, "kind": kind, "string": s, "impl": impl[i],
                "spec": vals, "lax": ic.spec_values(lx), "as_if_00": ic.spec_values(al)}
        msg = "%s(%r)%s: %s" % (entry, s, "" if sep is None else " sep=%r" % sep, what)
        cls = next((k for k, pred in sorted(CLASSES.items()) if pred({"case": case})), None)
        cases.append((cls, msg, case, {"impl": impl[i], "spec_strict": vals}))
    # failures outside every known class are recorded first, then the known classes round-robin
    # (the violation list kept by the harness is capped)
    rank, order = {}, []
    for c in cases:
        rank[c[0]] = rank.get(c[0], 0) + 1
        order.append((c[0] is not None, rank[c[0]] if c[0] is not None else 0, c))
        ctx.count("failures_unclassified" if c[0] is None else "failures_like_fixed_" + c[0])
    for _, _, (cls, msg, case, det) in sorted(order, key=lambda o: (o[0], o[1])):
        ctx.violation(msg, case, det)


def replay(ctx, payload):
    c = payload["violation"]["case"]
    if "firstweekday" in c:
        import calendar
        calendar.setfirstweekday(c["firstweekday"])
    r = ic.entry_impl(c["entry"], c["string"], c["sep"], c["zero_as_utc"], c["kind"])
    sp = ctx.driver([ic.entry_spec_line(c["entry"], c["string"].encode("utf-8"), c["sep"], c["zero_as_utc"], True)])[0]
    vals = ic.spec_values(sp)
    print("%s(%r) sep=%r: impl=%s spec=%s" % (c["entry"], c["string"], c["sep"], r, vals))
    return (r in vals) if r.startswith("ok ") else (r == "err ValueError")
