"""C14 — parse() is total: a datetime, ParserError or OverflowError, always terminating."""
import os, io, json, time, datetime
import basecorr
from props import _parser_lib as L, _parser_gen as G

PROP = "C14"
TRUSTED = [
    "Model/Lexer.lean + Model/Parser.lean are hand models of _timelex / parserinfo / _ymd / parser; tied by the parser.parse and "
    "parser.lex correspondence ops on the malformed stream, the template stream and call sequences",
    "Gen.convertyear / Gen.adjustAmpm (translated) and the Gen.PI_* word tables (dumped) are regenerated from /repo on every run",
    "Python's str.isalpha/isdigit/isdecimal/isspace answers are sent with every request (character classes are a parameter of the "
    "model and of parse_total); the facts the model builds in (classes disjoint, int/float/Decimal accept exactly the decimal "
    "digits, only U+212A lower-cases into ASCII) are audited over all 1 114 112 code points on every run",
    "AST audit: every Call/Subscript/BinOp/Compare/Raise/Assert node of the 49 functions reachable from parser.parse is compared "
    "with the committed table harness/props/c14_sites.json; a new or changed node escalates to the thorough budget and is named",
]
ASSUMPTIONS = [
    "decimal context is the default one (prec 28, ROUND_HALF_EVEN, InvalidOperation trapped); sys.int_max_str_digits = 4300",
    "C int is 32 bits (datetime.replace raises OverflowError above 2147483647)",
    "word tables of parserinfo subclasses are ASCII (str.lower is modelled for ASCII + KELVIN SIGN); WEEKDAYS has at most 7 entries",
    "tzinfos values are tzinfo | valid TZ string | int | None (a float etc. raises TypeError by design; a bad TZ string raises "
    "tzstr's ValueError; exceptions of a user callable are the user's) — outside the property's domain, modelled anyway",
    "undecodable bytes (UnicodeDecodeError) are not text; MemoryError/RecursionError are not modelled",
]
RULE = ("malformed stream: random concatenations of date-like words, digit runs of length 1..40 (and 27..31 / 4300-digit runs), "
        "separators, signs, Unicode decimal digits / non-decimal digits / letters / spaces / others, NUL, inf/nan words; 1-3 "
        "character edits of valid renderings of 44 templates; valid renderings inside garbage; x dayfirst/yearfirst in "
        "{None,True,False} x fuzzy x fuzzy_with_tokens x ignoretz x 12 tzinfos forms x 10 defaults x {DEFAULTPARSER, 3 stock "
        "parserinfo, 4 subclass instances} x str/bytes/bytearray/StringIO; every call is evaluated three times (in order, "
        "repeated, and in a shuffled interleaving) and must give the same answer; distinct = distinct (text, options, TZ); "
        "non-trivial = the call returned a datetime")

SITES_FILE = os.path.join(os.path.dirname(os.path.abspath(__file__)), "c14_sites.json")
ALLOWED = ("ok ", "err ParserError", "err OverflowError")
NON_TEXT = [None, 5, 5.0, [], (), {}, object(), 1j, True, datetime.datetime(2000, 1, 1), ["2003-09-25"], b"x".__class__]


def gen_calls(ctx, rng, n):
    calls = []
    for _ in range(n):
        c = G.options(rng, G.malformed(rng))
        r = rng.random()
        if r < 0.06:
            try:
                c.text.encode("utf-8")
                c.via = rng.choice(["bytes", "bytearray"])
            except UnicodeEncodeError:
                pass
        elif r < 0.10:
            c.via = "stream"
        calls.append(c)
    # fixed seeds: the D-C14 witnesses, overflow paths, lexer corner cases
    for t in ["10:" + "1" * 30, "1" * 30 + "m", "1" * 29 + "h", "10:" + "9" * 28 + ".5", "10:" + "9" * 28, "10:" + "9" * 29,
              "10:00 +" + "9" * 20 + ":00", "Monday", "1" * 4300, "1" * 4301, "10:" + "1" * 4301, "2003-" + "1" * 4300 + "-01",
              "99999999999999999999 Sep", "Sep 99999999999999999999", "Sep of " + "9" * 12, "1.a", "12,5.3", "a.b.c", "1.2.3.",
              "10.30.", "Jan-", "Jan-01-", "10:30:", "10:", ":", "+", "10:00 +", "10:00 +1:", "10:00 -5 (", "10:00 +03 (BRST",
              "", " ", "\x00", "\x00\x00 2003\x00-09-25", "inf", "nan", "Infinity", "10:nan", "10:inf:00", "snan", "10:snan",
              "2003-09-25T10:49:41.5-03:00", "2147483648 Sep 1", "1 Sep 2147483648", "10h 2147483648m",
              "10:30 2147483648s", "99999999999999999999s", "0.5h", "1.999999999999999999999999999999999m"]:
        for fz in (False, True):
            calls.append(L.Call(t, fuzzy=fz, fwt=fz, tag="seed"))
    calls.append(L.Call("Monday", default=datetime.datetime(9999, 12, 31), tag="seed"))
    calls.append(L.Call("Sunday", default=datetime.datetime(9999, 12, 27), tag="seed"))
    return calls


def correspondence(ctx):
    basecorr.run(ctx)
    # --- assumption audit over all code points
    bad = L.audit_unicode(ctx)
    for b in bad[:5]:
        ctx.mismatch("unicode-audit", str(b), "python", "model assumption")
    # --- AST audit
    sites, missing, extra = L.ast_sites(os.environ.get("DATEUTIL_REPO", "/repo"))
    try:
        committed = json.load(open(SITES_FILE))
    except Exception:
        committed = {}
    new = sorted(k for k in sites if sites[k] != committed.get(k))
    gone = sorted(k for k in committed if k not in sites)
    ctx.count("ast_sites_total", sum(sites.values()))
    ctx.count("ast_sites_distinct", len(sites))
    if new or gone or missing or extra:
        ctx.escalated = True
        ctx.note("AST audit: anchored source differs from the committed site table -> thorough budget; new/changed: %s; removed: %s; "
                 "missing functions: %s; unmapped functions: %s" % (new[:12], gone[:12], missing, extra))
        ctx.count("ast_sites_new_or_changed", len(new) + len(gone) + len(missing) + len(extra))
    # --- lexer alone
    rng = ctx.subrng("lex")
    from dateutil.parser import _parser
    texts = [G.malformed(rng) for _ in range(ctx.budget(6000, 60000))]
    texts += ["1.a", "12,5", "1,5", "12,5.3", "a.b", "a.1", "1.a.1", "Sep.20.2009", "4:30:21.447", "10.", "a.", "1.2.3", "a..b", "1..2",
              "\x00", "a\x00b", "1\x002", " \x00 ", "12,345,678", "1.5,3", "٣.٥", "²", "²³.5", "é.é", "a.²", "1.é"]
    got = ctx.driver(["parser.lex %s %s" % (L.cps(t), L.classes(t)) for t in texts])
    for t, g in zip(texts, got):
        e = "ok [" + ",".join(L.cps(x) for x in _parser._timelex.split(t)) + "]"
        if e != g:
            ctx.mismatch("parser.lex", ascii(t), e, g)
    ctx.traces += len(texts)
    ctx.count("lex_cases", len(texts))
    # --- Decimal kernel alone
    rng = ctx.subrng("dec")
    decs = []
    for _ in range(ctx.budget(3000, 30000)):
        ip = G.digits(rng, rng.choice([1, 2, 3, 5, 10, 27, 28, 29, 30, 40]))
        fp = G.digits(rng, rng.choice([1, 2, 3, 6, 10, 26, 27, 28, 29, 30, 35, 60])) if rng.random() < 0.8 else ""
        if fp and rng.random() < 0.3:
            fp = fp[:rng.randint(0, len(fp))] + "9" * 40
        decs.append(ip + ("." + fp if fp else ""))
    got = ctx.driver(["parser.dec %s %s" % (L.cps(t), L.classes(t)) for t in decs])
    import decimal
    for t, g in zip(decs, got):
        v = decimal.Decimal(t)
        try:
            r = v % 1
            e = "ok %d %d %d" % (int(v), 1 if r else 0, int(60 * r))
        except decimal.InvalidOperation:
            e = "ok %d err InvalidOperation" % int(v)
        if e != g:
            ctx.mismatch("parser.dec", t, e, g)
    ctx.traces += len(decs)
    ctx.count("decimal_cases", len(decs))
    # --- parse: model vs implementation
    rng = ctx.subrng("corr")
    prev = L.set_tz("UTC")
    try:
        for tzenv in (["UTC", "America/New_York", "Europe/London"] if ctx.budget(0, 1) else ["UTC", "Europe/London"]):
            L.set_tz(tzenv)
            calls = gen_calls(ctx, rng, ctx.budget(20000, 120000))
            model = L.model_answers(ctx, calls)
            for c, m in zip(calls, model):
                i, _, _ = L.run_impl(c)
                ctx.count("corr_" + (i.split(" |")[0].split(" ")[1] if i.startswith("err") else "ok"))
                if i != m:
                    ctx.mismatch("parser.parse", c.describe(), i, m)
            ctx.traces += len(calls)
    finally:
        L.set_tz(prev)


def classify(ans):
    return ans.startswith(ALLOWED)


def oracle(ctx):
    from dateutil import parser as P
    rng = ctx.subrng("oracle")
    prev = L.set_tz("UTC")
    worst = (0.0, "")
    worst_per_char = (0.0, "")
    try:
        seeds = []
        for m in ctx.mismatches:
            if m["op"] == "parser.parse" and isinstance(m["input"], dict):
                seeds.append(L.Call(m["input"]["text"], tag="mismatch"))
        for tzenv in ["UTC", "America/New_York"]:
            L.set_tz(tzenv)
            calls = seeds + gen_calls(ctx, rng, ctx.budget(30000, 200000))
            first = []
            for c in calls:
                ans, dt, raw = L.run_impl(c, raw=True)
                first.append(ans)
                ok = classify(ans)
                if ok and ans.startswith("ok "):
                    # the value really is a datetime / (datetime, tuple of str)
                    if c.fwt:
                        ok = (isinstance(raw, tuple) and len(raw) == 2 and isinstance(raw[0], datetime.datetime)
                              and isinstance(raw[1], tuple) and all(isinstance(x, str) for x in raw[1]))
                    else:
                        ok = isinstance(raw, datetime.datetime)
                ctx.case(c.key(), nontrivial=ans.startswith("ok "))
                ctx.count("outcome_" + (ans.split(" ")[1] if ans.startswith("err") else "datetime"))
                ctx.count("via_" + c.via)
                ctx.count("len_%s" % ("0-9" if len(c.text) < 10 else "10-29" if len(c.text) < 30 else "30-99" if len(c.text) < 100 else "100+"))
                if dt > worst[0]:
                    worst = (dt, ascii(c.text)[:80])
                pc = dt / (len(c.text) + 20)
                if pc > worst_per_char[0]:
                    worst_per_char = (pc, ascii(c.text)[:80])
                if not ok:
                    ctx.violation("parse() outcome outside {datetime, (datetime, tuple), ParserError, OverflowError}: %s" % ans[:80],
                                  c.describe(), {"impl": ans})
            # determinism + no state left behind: same calls again, immediately and in a shuffled interleaving
            order = list(range(len(calls)))
            rng.shuffle(order)
            for rnd, idxs in (("repeat", range(len(calls))), ("shuffled", order)):
                for j in idxs:
                    c = calls[j]
                    if c.via == "stream" or rng.random() < 0.5:
                        ans, _, _ = L.run_impl(c)
                        ctx.evaluations += 1
                        ctx.count("determinism_" + rnd)
                        if ans != first[j]:
                            ctx.violation("parse() is not a function of its arguments: %s call differs" % rnd, c.describe(),
                                          {"first": first[j], "again": ans})
        L.set_tz("UTC")
        # non-text input
        for x in NON_TEXT:
            for kw in ({}, {"fuzzy": True}, {"parserinfo": P.parserinfo()}):
                try:
                    P.parse(x, **kw)
                    got = "returned"
                except TypeError:
                    got = "TypeError"
                except BaseException as e:
                    got = L.exc_kind(e)
                ctx.case(("nontext", repr(type(x)), tuple(kw)), nontrivial=False)
                ctx.count("non_text_" + got)
                if got != "TypeError":
                    ctx.violation("non-text input must raise TypeError, got %s" % got, {"text": None, "nontext": repr(x), "kw": sorted(kw)})
        # default=None (datetime.now()): outcome class only
        for t in ["10:30", "Sep 25", "garbage", "2003", "Monday"]:
            try:
                r = P.parse(t)
                got = "ok" if isinstance(r, datetime.datetime) else "other"
            except P.ParserError:
                got = "ok"
            except BaseException as e:
                got = L.exc_kind(e)
            ctx.case(("default-none", t), nontrivial=False)
            if got != "ok":
                ctx.violation("default=None: %s" % got, {"text": t, "default": None})
    finally:
        L.set_tz(prev)
    ctx.hist["max_call_wall_ms"] = round(worst[0] * 1000, 3)
    ctx.hist["max_call_wall_us_per_char"] = round(worst_per_char[0] * 1e6, 2)
    ctx.note("slowest call %.3f ms on %s; prompt-termination budget 2 s per call" % (worst[0] * 1000, worst[1]))
    if worst[0] > 2.0:
        ctx.note("WARNING: a call exceeded the generous 2 s budget (infrastructure, not a violation): %s" % worst[1])
    ctx.sample({"text": "10:" + "1" * 30, "impl": L.run_impl(L.Call("10:" + "1" * 30))[0]})
    ctx.sample({"text": "Monday default=9999-12-31", "impl": L.run_impl(L.Call("Monday", default=datetime.datetime(9999, 12, 31)))[0]})
    ctx.sample({"text": "Today is January 1, 2047 at 8:21:00AM (fuzzy_with_tokens)",
                "impl": L.run_impl(L.Call("Today is January 1, 2047 at 8:21:00AM", fwt=True))[0]})


KNOWN = {}


def replay(ctx, payload):
    c = payload["violation"]["case"]
    if c.get("text") is None:
        print("non-text case: see harness/props/c14.py NON_TEXT")
        return False
    call = L.call_from_case(c)
    prev = L.set_tz(c.get("TZ") or "UTC")
    try:
        a1, _, _ = L.run_impl(call)
        a2, _, _ = L.run_impl(call)
        m = L.model_answers(ctx, [call])[0]
    finally:
        L.set_tz(prev)
    print("parse(%s): impl=%s again=%s model=%s" % (ascii(call.text), a1, a2, m))
    return classify(a1) and a1 == a2
