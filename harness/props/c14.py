"""C14 — parse() is total: a datetime, ParserError or OverflowError, always terminating."""
import os, io, json, time, datetime
import basecorr
from props import _parser_lib as L, _parser_gen as G

PROP = "C14"
TRUSTED = [
    "Model/Lexer.lean + Model/Parser.lean are hand models of _timelex / parserinfo / _ymd / parser; tied by the parser.parse and "
    "parser.lex correspondence ops on the malformed stream, the template stream and call sequences",
    "Gen.convertyear / Gen.adjustAmpm (translated) and the Gen.PI_* word tables (dumped) are regenerated from /repo on every run",
    "Python's str.isalpha/isdigit/isdecimal/isspace answers are sent with every request (character classes are a parameter of the "
    "model and of parse_total); the facts the model builds in (classes disjoint, int/float/Decimal accept exactly the decimal "
    "digits, only U+212A lower-cases into ASCII) are audited over all 1 114 112 code points on every run",
    "AST audit: every Call/Subscript/BinOp/Compare/Raise/Assert node of the 49 functions reachable from parser.parse is compared "
    "with the committed table harness/props/c14_sites.json; a new or changed node escalates to the thorough budget and is named",
    "callee audit: the functions parse() reaches outside _parser.py (tzstr.__init__/_delta, tzrange.transitions, "
    "tzrangebase.tzname/_isdst/is_ambiguous, tzlocal.*, tzoffset.__init__, enfold, relativedelta.__init__/__add__) are listed with the "
    "model primitive that stands for each (histograms.callee_functions_and_model_primitives) and their Call/Raise/Subscript/BinOp/"
    "Compare nodes are compared with harness/props/c14_callee_sites.json; the tables are snapshot diffs (a changed site escalates and "
    "is named), not a proof that every site is modelled",
    "shared-state audit: every class-level / module-level assignment, global, store through cls / type(self) / a module-level name "
    "/ self of the shared DEFAULTPARSER, setattr, caching decorator and mutable default in ALL functions of _parser.py is compared "
    "with harness/props/c14_shared_state_sites.json; a new one escalates the statefulness streams and is named",
    "process-zone family: the reference for a call under zone Z is the model's answer for Z AND the implementation's answer in a "
    "fresh Python process whose only zone is Z (harness/props/_parser_ref.py); a tzlocal result is compared by fold, utcoffset, "
    "dst, tzname at its wall time and by equality with a tzlocal() built at that moment",
]
ASSUMPTIONS = [
    "decimal context is the default one (prec 28, ROUND_HALF_EVEN, InvalidOperation trapped); sys.int_max_str_digits = 4300",
    "C int is 32 bits (datetime.replace raises OverflowError above 2147483647)",
    "word tables of parserinfo subclasses are ASCII (str.lower is modelled for ASCII + KELVIN SIGN); WEEKDAYS has at most 7 entries",
    "tzinfos values are tzinfo | TZ string | int | None; a float etc. raises TypeError by design (modelled: TzData.bad); exceptions of "
    "a user callable or of a user tzinfo object's tzname() are the caller's code, not parse()'s",
    "a MALFORMED TZ-string value and a tzinfos callable that raises ValueError are NOT excluded: they are generated in every stream "
    "and must give ParserError (tz.tzstr's ValueError / IllegalMonthError at tzname() are wrapped since /repo 950345d; before "
    "that fix a plain ValueError escaped — found by review 2, fixed; reverting the fix is caught by these streams)",
    "the model's answer is Lean's alone: a TZ string's names for the wall time come from the Lean model of tz.tzstr "
    "(parser.assignstr); only ENVIRONMENT facts are fed in: time.tzname, the names/offsets a tzlocal() built at that moment "
    "reports, the names a caller-supplied tzinfo object reports, Python's character classes",
    "undecodable bytes (UnicodeDecodeError) are not text; MemoryError/RecursionError are not modelled",
]
RULE = ("process-zone switch family (6 groups of TZ settings sharing time.tzname entries but differing in offset / DST rules / hemisphere / having DST: EST+5EDT vs EST-10EDT vs EST5, AAA0BBB pairs, GMT0BST vs GMT-6BST vs Europe/London, UTC vs UTC+3, IST, CET; texts naming those abbreviations at ordinary, gap and ambiguous wall times, with and without explicit offsets; a -> b -> a switches with time.tzset() on one text, then a shuffled tail; every answer against the model for that zone and a fresh process); aliasing family (texts whose scan writes into the token list: HH:MM NAME+-N / NAME+-HHMM / +-HHMM (NAME), with and without spaces, in fuzzy sentences, random upper-case names <= 5 letters): each parsed 3x in a row as the same str object, as an equal-but-distinct object, after 3 and after 700 unrelated calls, every answer compared with the first and with the model; same text twice in a row over a slice of every family; malformed stream: random concatenations of date-like words, digit runs of length 1..40 (and 27..31 / 4300-digit runs), "
        "separators, signs, Unicode decimal digits / non-decimal digits / letters / spaces / others, NUL, inf/nan words; 1-3 "
        "character edits of valid renderings of 44 templates; valid renderings inside garbage; x dayfirst/yearfirst in "
        "{None,True,False} x fuzzy x fuzzy_with_tokens x ignoretz x 12 tzinfos forms x 10 defaults x {DEFAULTPARSER, 3 stock "
        "parserinfo, 4 subclass instances} x str/bytes/bytearray/StringIO; every call is evaluated three times (in order, "
        "repeated, and in a shuffled interleaving) and must give the same answer; distinct = distinct (text, options, TZ); "
        "non-trivial = the call returned a datetime")

SITES_FILE = os.path.join(os.path.dirname(os.path.abspath(__file__)), "c14_sites.json")
ALLOWED = ("ok ", "err ParserError", "err OverflowError")
NON_TEXT = [None, 5, 5.0, [], (), {}, object(), 1j, True, datetime.datetime(2000, 1, 1), ["2003-09-25"], b"x".__class__]


def gen_calls(ctx, rng, n):
    calls = []
    for _ in range(n):
        c = G.options(rng, G.malformed(rng))
        r = rng.random()
        if r < 0.06:
            try:
                c.text.encode("utf-8")
                c.via = rng.choice(["bytes", "bytearray"])
            except UnicodeEncodeError:
                pass
        elif r < 0.10:
            c.via = "stream"
        calls.append(c)
    # fixed seeds: the D-C14 witnesses, overflow paths, lexer corner cases
    for t in ["10:" + "1" * 30, "1" * 30 + "m", "1" * 29 + "h", "10:" + "9" * 28 + ".5", "10:" + "9" * 28, "10:" + "9" * 29,
              "10:00 +" + "9" * 20 + ":00", "Monday", "1" * 4300, "1" * 4301, "10:" + "1" * 4301, "2003-" + "1" * 4300 + "-01",
              "99999999999999999999 Sep", "Sep 99999999999999999999", "Sep of " + "9" * 12, "1.a", "12,5.3", "a.b.c", "1.2.3.",
              "10.30.", "Jan-", "Jan-01-", "10:30:", "10:", ":", "+", "10:00 +", "10:00 +1:", "10:00 -5 (", "10:00 +03 (BRST",
              "", " ", "\x00", "\x00\x00 2003\x00-09-25", "inf", "nan", "Infinity", "10:nan", "10:inf:00", "snan", "10:snan",
              "2003-09-25T10:49:41.5-03:00", "2147483648 Sep 1", "1 Sep 2147483648", "10h 2147483648m",
              "10:30 2147483648s", "99999999999999999999s", "0.5h", "1.999999999999999999999999999999999m"]:
        for fz in (False, True):
            calls.append(L.Call(t, fuzzy=fz, fwt=fz, tag="seed"))
    # texts in which NOTHING is skipped (no blank, no jump word), with fuzzy_with_tokens: the pair must still come back
    for t in ["10h36m28.5s", "25/09/03", "20030925", "1.5", "2003-09-25T10:49:41", "Sep", "10:36", "20030925T104941", "10:36:28.5",
              "2003-09-25T10:49:41Z", "0930", "Monday", "99", "1/2/3", "10h", "Sep25", "2003-09-25T10:49:41+03:00"]:
        calls.append(L.Call(t, fuzzy=True, fwt=True, tag="seed-noskip"))
        calls.append(L.Call(t, fuzzy=False, fwt=True, tag="seed-noskip"))
        calls.append(L.Call(t, fuzzy=True, fwt=False, tag="seed-noskip"))
    calls.append(L.Call("Monday", default=datetime.datetime(9999, 12, 31), tag="seed"))
    calls.append(L.Call("Sunday", default=datetime.datetime(9999, 12, 27), tag="seed"))
    return calls


ZN = ["GMT", "UTC", "Z", "EST", "EDT", "BST", "BRST", "CET", "ABCDE", "A", "MSK", "IST", "JST", "XY"]


def alias_family(rng, n):
    """texts around every write into the token list: `HH:MM NAME+N`, `NAME-N`, `NAME+HHMM`, `NAME+HH:MM`, `±HHMM (NAME)`, with and
    without spaces, inside fuzzy sentences, random upper-case names of up to 5 letters; plus fixed witnesses"""
    out = []
    def name():
        return rng.choice(ZN) if rng.random() < 0.7 else "".join(rng.choice("ABCDEFGHIJKLMNOPQRSTUVWXYZ") for _ in range(rng.randint(1, 5)))
    def tm():
        r = rng.random()
        h, mi, s = rng.randint(0, 23), rng.randint(0, 59), rng.randint(0, 59)
        if r < 0.4:
            return "%02d:%02d" % (h, mi)
        if r < 0.6:
            return "%02d:%02d:%02d" % (h, mi, s)
        if r < 0.75:
            return "2003-09-25T%02d:%02d:%02d" % (h, mi, s)
        if r < 0.85:
            return "%d %s" % ((h % 12) or 12, "AM" if h < 12 else "PM")
        return "Sep 25 2003 %02d:%02d" % (h, mi)
    def off():
        r = rng.random()
        sg = rng.choice("+-")
        if r < 0.35:
            return "%s%d" % (sg, rng.randint(0, 14))
        if r < 0.55:
            return "%s%02d" % (sg, rng.randint(0, 23))
        if r < 0.8:
            return "%s%02d%02d" % (sg, rng.randint(0, 23), rng.choice([0, 30, 45, 59]))
        return "%s%02d:%02d" % (sg, rng.randint(0, 23), rng.choice([0, 30, 59]))
    for t in ["10:00 GMT+3", "10:00 GMT-3", "10:00 UTC+01:30", "10:00 BRST+3", "10:00 EST-5", "10:00GMT+3", "10:00 GMT +3",
              "10:00 GMT+0300", "10:00 -0300 (BRST)", "10:00 +0100 (GMT)", "10:00 Z+1", "Today 10:00 GMT+3 ok", "10:00 GMT+", "10:00 GMT-",
              "10:00 GMT+3 GMT+3", "GMT+3 10:00", "10:00 ABCDE-7", "10:00 ABCDEF-7", "10:00 gmt+3"]:
        for fz in (False, True):
            out.append(L.Call(t, fuzzy=fz, fwt=fz and rng.random() < 0.5, tag="alias-seed"))
    while len(out) < n:
        k = rng.randint(0, 6)
        sp1 = rng.choice([" ", " ", "", "  "])
        sp2 = rng.choice(["", "", " "])
        if k <= 2:
            t = tm() + sp1 + name() + sp2 + off()
        elif k == 3:
            t = tm() + " " + off() + " (" + name() + ")"
        elif k == 4:
            t = tm() + sp1 + name() + sp2 + off() + " " + rng.choice(["", "(" + name() + ")", name() + off()])
        elif k == 5:
            t = " ".join([rng.choice(G.FILLER), tm() + sp1 + name() + sp2 + off(), rng.choice(G.FILLER)])
        else:
            t = G.edit(rng, tm() + " " + name() + off())
        fz = (k == 5) or rng.random() < 0.25
        c = G.options(rng, t, allow_custom=rng.random() < 0.15)
        c.fuzzy, c.fwt = fz, fz and rng.random() < 0.4
        c.via = "str"
        c.tag = "alias"
        out.append(c)
    return out


def correspondence(ctx):
    basecorr.run(ctx)
    __import__("pgenlib").validate(ctx)      # the functions of _parser.py re-translated from source (Generated/ParserOps.lean) vs the implementation
    # --- assumption audit over all code points
    bad = L.audit_unicode(ctx)
    for b in bad[:5]:
        ctx.mismatch("unicode-audit", str(b), "python", "model assumption")
    # --- AST audit
    sites, missing, extra = L.ast_sites(os.environ.get("DATEUTIL_REPO", "/repo"))
    try:
        committed = json.load(open(SITES_FILE))
    except Exception:
        committed = {}
    new = sorted(k for k in sites if sites[k] != committed.get(k))
    gone = sorted(k for k in committed if k not in sites)
    ctx.count("ast_sites_total", sum(sites.values()))
    ctx.count("ast_sites_distinct", len(sites))
    if new or gone or missing or extra:
        ctx.escalated = True
        ctx.note("AST audit: anchored source differs from the committed site table -> thorough budget; new/changed: %s; removed: %s; "
                 "missing functions: %s; unmapped functions: %s" % (new[:12], gone[:12], missing, extra))
        ctx.count("ast_sites_new_or_changed", len(new) + len(gone) + len(missing) + len(extra))
    # --- writes into argument-derived structures (where aliasing could leak state between calls)
    msites = L.ast_mutation_sites(os.environ.get("DATEUTIL_REPO", "/repo"))
    try:
        mcommitted = json.load(open(os.path.join(os.path.dirname(SITES_FILE), "c14_mutation_sites.json")))
    except Exception:
        mcommitted = {}
    mnew = sorted(k for k in msites if msites[k] != mcommitted.get(k))
    token_list_writes = sorted(k for k in msites if ":subscript-store:l[" in k or ":subscript-store:tokens[" in k
                               or ":method:l." in k or ":method:tokens." in k)
    ctx.hist["token_list_write_sites"] = "; ".join(token_list_writes)
    ctx.count("mutation_sites_total", sum(msites.values()))
    if mnew:
        ctx.escalated = True
        ctx.note("mutation audit: new/changed write or class-level mutable state in the anchored code -> thorough budget: %s" % mnew[:10])
        ctx.count("mutation_sites_new_or_changed", len(mnew))
    # --- state shared between calls: class-level / module-level names, stores through cls / a module-level name / the shared
    #     DEFAULTPARSER instance, caching decorators, mutable defaults — in every function of the file
    ssites = L.ast_shared_state_sites(os.environ.get("DATEUTIL_REPO", "/repo"))
    try:
        scommitted = json.load(open(os.path.join(os.path.dirname(SITES_FILE), "c14_shared_state_sites.json")))
    except Exception:
        scommitted = {}
    snew = sorted(k for k in ssites if ssites[k] != scommitted.get(k))
    ctx.count("shared_state_sites_total", sum(ssites.values()))
    ctx.hist["shared_state_sites"] = "; ".join(sorted(k for k in ssites if ":class-store:" in k or ":module-store:" in k
                                                      or ":shared-instance-store:" in k or ":global:" in k
                                                      or ":caching-decorator:" in k)) or "none"
    if snew:
        ctx.escalated = True
        ctx.note("shared-state audit: new class-level / module-level state or a store into it in the anchored file -> thorough "
                 "budget for the statefulness streams (aliasing, same-text-twice, process-zone switches): %s" % snew[:10])
        ctx.count("shared_state_sites_new_or_changed", len(snew))
    # --- callees outside _parser.py (tz.tzstr / tzrangebase / tzlocal / tzoffset / enfold / relativedelta.__add__)
    csites, cmissing = L.ast_callee_sites(os.environ.get("DATEUTIL_REPO", "/repo"))
    try:
        ccommitted = json.load(open(os.path.join(os.path.dirname(SITES_FILE), "c14_callee_sites.json")))
    except Exception:
        ccommitted = {}
    cnew = sorted(k for k in csites if csites[k] != ccommitted.get(k)) + sorted(k for k in ccommitted if k not in csites)
    ctx.count("callee_sites_total", sum(csites.values()))
    ctx.hist["callee_functions_and_model_primitives"] = "; ".join("%s:%s.%s -> %s" % (r, c or "", f, m) for r, c, f, m in L.CALLEES)
    if cnew or cmissing:
        ctx.escalated = True
        ctx.note("callee audit: a function parse() reaches in tz / relativedelta differs from the committed site table -> thorough "
                 "budget; new/changed/removed: %s; missing functions: %s" % (cnew[:10], cmissing))
        ctx.count("callee_sites_new_or_changed", len(cnew) + len(cmissing))
    # --- lexer alone
    rng = ctx.subrng("lex")
    from dateutil.parser import _parser
    texts = [G.malformed(rng) for _ in range(ctx.budget(6000, 60000))]
    texts += ["1.a", "12,5", "1,5", "12,5.3", "a.b", "a.1", "1.a.1", "Sep.20.2009", "4:30:21.447", "10.", "a.", "1.2.3", "a..b", "1..2",
              "\x00", "a\x00b", "1\x002", " \x00 ", "12,345,678", "1.5,3", "٣.٥", "²", "²³.5", "é.é", "a.²", "1.é"]
    got = ctx.driver(["parser.lex %s %s" % (L.cps(t), L.classes(t)) for t in texts])
    for t, g in zip(texts, got):
        e = "ok [" + ",".join(L.cps(x) for x in _parser._timelex.split(t)) + "]"
        if e != g:
            ctx.mismatch("parser.lex", ascii(t), e, g)
    ctx.traces += len(texts)
    ctx.count("lex_cases", len(texts))
    # --- Decimal kernel alone
    rng = ctx.subrng("dec")
    decs = []
    for _ in range(ctx.budget(3000, 30000)):
        ip = G.digits(rng, rng.choice([1, 2, 3, 5, 10, 27, 28, 29, 30, 40]))
        fp = G.digits(rng, rng.choice([1, 2, 3, 6, 10, 26, 27, 28, 29, 30, 35, 60])) if rng.random() < 0.8 else ""
        if fp and rng.random() < 0.3:
            fp = fp[:rng.randint(0, len(fp))] + "9" * 40
        decs.append(ip + ("." + fp if fp else ""))
    got = ctx.driver(["parser.dec %s %s" % (L.cps(t), L.classes(t)) for t in decs])
    import decimal
    for t, g in zip(decs, got):
        v = decimal.Decimal(t)
        try:
            r = v % 1
            e = "ok %d %d %d" % (int(v), 1 if r else 0, int(60 * r))
        except decimal.InvalidOperation:
            e = "ok %d err InvalidOperation" % int(v)
        if e != g:
            ctx.mismatch("parser.dec", t, e, g)
    ctx.traces += len(decs)
    ctx.count("decimal_cases", len(decs))
    # --- parse: model vs implementation
    rng = ctx.subrng("corr")
    prev = L.set_tz("UTC")
    try:
        for tzenv in (["UTC", "America/New_York", "Europe/London"] if ctx.budget(0, 1) else ["UTC", "Europe/London"]):
            L.set_tz(tzenv)
            calls = gen_calls(ctx, rng, ctx.budget(20000, 120000))
            model = L.model_answers(ctx, calls)
            for c, m in zip(calls, model):
                i, _, _ = L.run_impl(c)
                ctx.count("corr_" + (i.split(" |")[0].split(" ")[1] if i.startswith("err") else "ok"))
                if i != m:
                    ctx.mismatch("parser.parse", c.describe(), i, m)
            ctx.traces += len(calls)
    finally:
        L.set_tz(prev)


# ---- "terminates promptly": how the time of one call grows with the length of the text, per family of long inputs
SCALING = {
    'digits': lambda n: '1' * n, 'dotted-digits': lambda n: '1.' * n, 'comma-digits': lambda n: '1,' * n,
    'letters': lambda n: 'a' * n, 'dotted-letters': lambda n: 'a.' * n, 'words': lambda n: 'ab ' * n,
    'numbers': lambda n: '1 ' * n, 'dashed-numbers': lambda n: '1-' * n, 'colons': lambda n: ':' * n,
    'spaces': lambda n: ' ' * n, 'months': lambda n: 'Jan ' * n, 'signs': lambda n: '+-' * n, 'nul': lambda n: '\x00' * n,
    'fraction': lambda n: '10:00:00.' + '1' * n, 'time-then-words': lambda n: '10:00 ' + 'x ' * n,
    'unicode-digits': lambda n: '\u0663' * n, 'hms-letters': lambda n: '1h' * n,
}
SUPERLINEAR_KNOWN = {'digits', 'unicode-digits', 'dotted-digits', 'dotted-letters'}      # D-C14-superlinear-time
FUZZY_SCALING = {'words', 'time-then-words', 'signs', 'colons', 'months', 'dotted-letters', 'letters'}


def scaling(ctx, cap):
    """doubling experiment per family: CPU time of one call at n, 2n, 4n, ... (until a call costs more than `cap` seconds or
    n reaches 2^18); the growth exponent is log2 of the last ratio whose smaller time is above the noise floor.  Linear
    scanning gives 1; the lexer's `tokenstack.pop(0)` / `Decimal(str)` give 2."""
    import math
    from dateutil import parser as P
    def cost(txt, fz):
        best = None
        for k in range(3):
            t0 = time.process_time()
            try:
                P.parse(txt, fuzzy=fz)
            except BaseException as e:
                if isinstance(e, (KeyboardInterrupt, SystemExit, MemoryError)):
                    raise
            d = time.process_time() - t0
            best = d if best is None else min(best, d)
            if best < 0.003:
                break                        # below the noise floor: not used for the exponent anyway
        return best
    def measure(f, fz):
        n, pts = 2048, []
        while n <= 2 ** 18:
            t = cost(f(n), fz)
            pts.append((n, t))
            ctx.evaluations += 1
            if t > cap:
                break
            n *= 2
        big = [p for p in pts if p[1] >= 0.004][-3:]       # the last (up to) two doublings above the noise floor
        expo = (math.log(big[-1][1] / big[0][1]) / math.log(big[-1][0] / big[0][0])) if len(big) >= 2 else 1.0
        return pts, expo
    for name, f in SCALING.items():
        for fz in ((False, True) if name in FUZZY_SCALING else (False,)):
            pts, expo = measure(f, fz)
            if (expo > 1.7 and name not in SUPERLINEAR_KNOWN) or (name in SUPERLINEAR_KNOWN and expo >= 2.4):
                # a timing measurement: before reporting a family that is not known to be super-linear, measure it twice
                # more and keep the smallest growth seen (a scheduling or GC hiccup inflates one run, never all three)
                for _ in range(2):
                    pts2, expo2 = measure(f, fz)
                    ctx.count("scaling_remeasured")
                    if expo2 < expo:
                        pts, expo = pts2, expo2
            key = "%s%s" % (name, "+fuzzy" if fz else "")
            ctx.hist["scaling_exponent_" + key] = round(expo, 2)
            ctx.hist["scaling_longest_" + key] = "%d chars: %.3f s" % (len(f(pts[-1][0])), pts[-1][1])
            ctx.case(("scaling", key), nontrivial=True)
            if expo > 1.7:
                case = {"text": None, "family": name, "fuzzy": fz, "generator": "harness/props/c14.py SCALING[%r]" % name,
                        "points": [[a, round(b, 4)] for a, b in pts], "exponent": round(expo, 2),
                        "known_class": "D-C14-superlinear-time" if (name in SUPERLINEAR_KNOWN and expo < 2.5) else None}
                ctx.violation("parse() does not terminate promptly: time grows like n^%.1f on the '%s' family" % (expo, name), case,
                              {"impl": "n^%.2f" % expo})


def classify(ans):
    return ans.startswith(ALLOWED)


LONG_RUN = 6000          # several times the interpreter's default recursion limit (1000) and a typical 4096-byte buffer
RUN_CHARS = ["\x00", " ", "\t", ".", ",", "a", "Z", "-", "/", ":", "+", "\u00a0", "\u0660", "7"]


def oracle_long_runs(ctx, rng):
    """long runs (LONG_RUN characters) of every character the lexer skips or loops over — NUL (read-and-discard loop), white space,
    '.', ',', letters, digits, separators — at the front, in the middle and at the end of a valid rendering, through every input kind
    (str, bytes, bytearray, text stream) and strict / fuzzy / fuzzy_with_tokens: the outcome must stay inside
    {datetime, (datetime, tokens), ParserError, OverflowError} (a loop turned into recursion shows as RecursionError), and a run of
    NULs must not change the answer at all (NULs read from the stream are discarded)."""
    base = "2014-05-01 08:00:00"
    vias = ["str", "bytes", "bytearray", "stream"]
    k = 0
    for ch in RUN_CHARS:
        run = ch * LONG_RUN
        for pos, text in (("front", run + base), ("middle", "2014-05-01" + run + " 08:00:00"), ("end", base + run)):
            for opt in ({}, {"fuzzy": True}, {"fwt": True}):
                todo = vias if ch == "\x00" else [vias[k % 4]]
                k += 1
                for via in todo:
                    c = L.Call(text, via=via, tag="long-run", **opt)
                    ans, dt, _ = L.run_impl(c)
                    ctx.case(("long-run", ch, pos, via, tuple(sorted(opt))), nontrivial=ans.startswith("ok "))
                    ctx.count("long_run_calls")
                    ctx.evaluations += 1
                    case = c.describe()
                    case.update({"run_char": ascii(ch), "run_length": LONG_RUN, "position": pos,
                                 "text_repr": "%s: %r x %d around %r" % (pos, ch, LONG_RUN, base)})
                    if not classify(ans):
                        ctx.violation("parse() outcome outside {datetime, (datetime, tuple), ParserError, OverflowError}: %s" % ans[:80],
                                      case, {"impl": ans})
                    elif ch == "\x00":
                        ref, _, _ = L.run_impl(L.Call(text.replace("\x00", ""), via=via, **opt))
                        if ans != ref:
                            ctx.violation("NUL characters must be ignored: the answer differs from the text without them", case,
                                          {"impl": ans, "without_nul": ref})


OVERLAP_TEXTS = ["am 10", "I am 10:30", "10:30 am pm", "Sep 25 2003 10 am", "99 foo 10:30", "10:30 a", "2003-09-25 45 10:49",
                 "today 5 pm ok", "10:49:41 PM", "Sep 2003 32", "a 5", "2003-09-25T10:49:41"]
OVERLAP_OPTS = [{}, {"fuzzy": True}, {"fwt": True}, {"ignoretz": True}, {"dayfirst": True}, {"yearfirst": True, "fuzzy": True}]


def oracle_overlap(ctx, rng):
    """two OVERLAPPING calls on one parser object (no threads): call A is given a text stream whose first read() runs call B to
    completion on the same parser (DEFAULTPARSER), then hands A its text.  Every pair of option sets: A's answer and B's answer must
    be the answers of the same calls run alone ("the outcome is a deterministic function of the arguments"; state kept on the parser
    instance between the start and the end of a call shows here)."""
    import io
    class Overlap(io.StringIO):
        def __init__(self, text, other):
            io.StringIO.__init__(self, text)
            self.other, self.other_answer = other, None
        def read(self, n=-1):
            if self.other is not None:
                o, self.other = self.other, None
                self.other_answer = L.run_impl(o)[0]
            return io.StringIO.read(self, n)
    shown = 0
    for ta in OVERLAP_TEXTS:
        for oa in OVERLAP_OPTS:
            for ob in OVERLAP_OPTS:
                tb = rng.choice(OVERLAP_TEXTS)
                alone_a = L.run_impl(L.Call(ta, via="stream", **oa))[0]
                alone_b = L.run_impl(L.Call(tb, **ob))[0]
                a = L.Call(ta, via="stream", tag="overlap", **oa)
                holder = []
                def factory(ta=ta, tb=tb, ob=ob):
                    st = Overlap(ta, L.Call(tb, **ob)); holder.append(st); return st
                a.arg_factory = factory
                got_a = L.run_impl(a)[0]
                got_b = holder[0].other_answer if holder else None
                ctx.case(("overlap", ta, tuple(sorted(oa)), tb, tuple(sorted(ob))), nontrivial=alone_a.startswith("ok "))
                ctx.count("overlap_pairs")
                ctx.evaluations += 2
                if got_a != alone_a or got_b != alone_b:
                    shown += 1
                    if shown <= 8:
                        case = L.Call(ta, via="stream", tag="overlap", **oa).describe()
                        case.update({"overlapped_with": L.Call(tb, **ob).describe(),
                                     "how": "the stream's first read() runs the other call on the same DEFAULTPARSER"})
                        ctx.violation("parse() is not a function of its arguments: a call overlapped with another call on the same parser "
                                      "object differs from the same call alone", case,
                                      {"alone": alone_a, "overlapped": got_a, "other_alone": alone_b, "other_overlapped": got_b})


def oracle(ctx):
    from dateutil import parser as P
    rng = ctx.subrng("oracle")
    prev = L.set_tz("UTC")
    worst = (0.0, "")
    worst_per_char = (0.0, "")
    try:
        seeds = []
        for m in ctx.mismatches:
            if m["op"] == "parser.parse" and isinstance(m["input"], dict):
                seeds.append(L.Call(m["input"]["text"], tag="mismatch"))
        for tzenv in ["UTC", "America/New_York"]:
            L.set_tz(tzenv)
            calls = seeds + gen_calls(ctx, rng, ctx.budget(22000, 200000))
            # slices of the other checks' generator families (valid renderings x offsets; partial texts x zone texts)
            from props import c15 as _c15
            for _ in range(ctx.budget(2500, 20000)):
                t = rng.choice(G.TEMPLATES)
                txt = G.render(t, G.boundary_dt(rng), rng.choice(G.OFFSETS) if t['time'] else None)
                fw = rng.random() < 0.3             # valid renderings mostly have NO skipped token: the pair must still come back
                calls.append(L.Call(txt, default=rng.choice(G.DEFAULTS), dayfirst=t['flags'].get('dayfirst'),
                                    yearfirst=t['flags'].get('yearfirst'), fuzzy=fw, fwt=fw, tag="template"))
            for _ in range(ctx.budget(2500, 20000)):
                ptxt, fields, _wd = _c15.partial(rng)
                z = rng.choice(_c15.ZONES)[0] if 'hour' in fields else ''
                if rng.random() < 0.3:
                    z = rng.choice(G.TZ_TEXT)
                c = G.options(rng, ptxt + z, allow_custom=False)
                c.tag = "partial"
                calls.append(c)
            first = []
            for c in calls:
                ans, dt, raw = L.run_impl(c, raw=True)
                first.append(ans)
                ok = classify(ans)                  # a value of the wrong shape for the options is "shape …": not allowed
                ctx.case(c.key(), nontrivial=ans.startswith("ok "))
                ctx.count("outcome_" + (ans.split(" ")[1] if ans.startswith("err") else "datetime"))
                ctx.count("via_" + c.via)
                ctx.count("len_%s" % ("0-9" if len(c.text) < 10 else "10-29" if len(c.text) < 30 else "30-99" if len(c.text) < 100 else "100+"))
                if dt > worst[0]:
                    worst = (dt, ascii(c.text)[:80])
                pc = dt / (len(c.text) + 20)
                if pc > worst_per_char[0]:
                    worst_per_char = (pc, ascii(c.text)[:80])
                if not ok:
                    m = L.model_answers(ctx, [c])[0]
                    case = c.describe()
                    ctx.violation("parse() outcome outside {datetime, (datetime, tuple), ParserError, OverflowError}: %s" % ans[:80],
                                  case, {"impl": ans, "model": m})
            # "same text twice": the second call of a slice of every generator family, right after the first
            imm = [(j, c) for j, c in enumerate(calls) if c.via != "stream"]
            for j, c in rng.sample(imm, min(len(imm), ctx.budget(8000, 60000))):
                a1, _, _ = L.run_impl(c)
                a2, _, _ = L.run_impl(c)
                ctx.evaluations += 2
                ctx.count("same_text_twice")
                if a1 != a2 or a1 != first[j]:
                    ctx.violation("parse() is not a function of its arguments: the same call twice in a row differs", c.describe(),
                                  {"first": first[j], "again": a1, "again2": a2})
            # determinism + no state left behind: same calls again, immediately and in a shuffled interleaving
            order = list(range(len(calls)))
            rng.shuffle(order)
            for rnd, idxs in (("repeat", range(len(calls))), ("shuffled", order)):
                for j in idxs:
                    c = calls[j]
                    if c.via == "stream" or rng.random() < 0.5:
                        ans, _, _ = L.run_impl(c)
                        ctx.evaluations += 1
                        ctx.count("determinism_" + rnd)
                        if ans != first[j]:
                            ctx.violation("parse() is not a function of its arguments: %s call differs" % rnd, c.describe(),
                                          {"first": first[j], "again": ans})
        # ---- the aliasing family: texts whose parse WRITES into the token list (`l[i+1] = …`, the GMT+3 sign flip) and
        #      their neighbours; each is parsed 3x in a row with the SAME str object, with an equal-but-distinct object, after
        #      a few and after many unrelated calls; every answer must equal the first and the model's
        for tzenv in ["UTC", "Europe/London"]:
            L.set_tz(tzenv)
            fam = alias_family(rng, ctx.budget(1500, 12000))
            model = L.model_answers(ctx, fam)
            unrelated = [G.options(rng, G.malformed(rng), allow_custom=False) for _ in range(700)]
            pending = []
            for c, m in zip(fam, model):
                answers = []
                for _ in range(3):
                    answers.append(L.run_impl(c)[0])                      # same str object
                c2 = L.call_from_case(c.describe()); c2.text = "".join(list(c.text))     # equal but distinct object
                answers.append(L.run_impl(c2)[0])
                for u in rng.sample(unrelated, 3):
                    L.run_impl(u)
                answers.append(L.run_impl(c)[0])
                pending.append((c, m, answers[0]))
                ctx.case(("alias", c.key()), nontrivial=answers[0].startswith("ok "))
                ctx.count("alias_family_texts")
                ctx.evaluations += len(answers) - 1
                if any(a != answers[0] for a in answers) or answers[0] != m:
                    ctx.violation("parse() is not a function of its arguments: repeated parse of a text whose scan rewrites a token",
                                  c.describe(), {"answers": answers, "model": m})
            for u in unrelated:                                            # more than any small cache holds
                L.run_impl(u)
            for c, m, a0 in pending:
                a = L.run_impl(c)[0]
                ctx.evaluations += 1
                if a != a0:
                    ctx.violation("parse() is not a function of its arguments: parse after many unrelated calls differs",
                                  c.describe(), {"first": a0, "later": a, "model": m})
        # ---- the process-zone switch family: zones that share an abbreviation, time.tzset() between calls and back; every
        #      answer against the model for that zone and against a fresh process whose only zone that was
        L.zone_switch_run(ctx, ctx.subrng("zone-switch"), G.ZONE_GROUPS, ctx.budget(60, 500), "parse() is not a function of its "
                          "arguments and the process time zone")
        L.set_tz("UTC")
        # non-text input
        for x in NON_TEXT:
            for kw in ({}, {"fuzzy": True}, {"parserinfo": P.parserinfo()}):
                try:
                    P.parse(x, **kw)
                    got = "returned"
                except TypeError:
                    got = "TypeError"
                except BaseException as e:
                    got = L.exc_kind(e)
                ctx.case(("nontext", repr(type(x)), tuple(kw)), nontrivial=False)
                ctx.count("non_text_" + got)
                if got != "TypeError":
                    ctx.violation("non-text input must raise TypeError, got %s" % got, {"text": None, "nontext": repr(x), "kw": sorted(kw)})
        # default=None (datetime.now()): outcome class only
        for t in ["10:30", "Sep 25", "garbage", "2003", "Monday"]:
            try:
                r = P.parse(t)
                got = "ok" if isinstance(r, datetime.datetime) else "other"
            except P.ParserError:
                got = "ok"
            except BaseException as e:
                got = L.exc_kind(e)
            ctx.case(("default-none", t), nontrivial=False)
            if got != "ok":
                ctx.violation("default=None: %s" % got, {"text": t, "default": None})
        scaling(ctx, 0.06 if not ctx.budget(0, 1) else 0.6)
        L.set_tz("UTC")
        oracle_long_runs(ctx, ctx.subrng("long-runs"))
        oracle_overlap(ctx, ctx.subrng("overlap"))
        # the two-digit-year pivot the model is given comes from the process clock (review3b F8): a wrong pivot in
        # parserinfo.__init__ is reported with a failing input
        L.set_tz("UTC")
        L.pivot_oracle(ctx)
    finally:
        L.set_tz(prev)
    ctx.hist["max_call_wall_ms"] = round(worst[0] * 1000, 3)
    ctx.hist["max_call_wall_us_per_char"] = round(worst_per_char[0] * 1e6, 2)
    ctx.note("slowest call %.3f ms on %s; prompt-termination budget 2 s per call" % (worst[0] * 1000, worst[1]))
    if worst[0] > 2.0:
        ctx.note("WARNING: a call exceeded the generous 2 s budget (infrastructure, not a violation): %s" % worst[1])
    ctx.sample({"text": "10:" + "1" * 30, "impl": L.run_impl(L.Call("10:" + "1" * 30))[0]})
    ctx.sample({"text": "Monday default=9999-12-31", "impl": L.run_impl(L.Call("Monday", default=datetime.datetime(9999, 12, 31)))[0]})
    ctx.sample({"text": "Today is January 1, 2047 at 8:21:00AM (fuzzy_with_tokens)",
                "impl": L.run_impl(L.Call("Today is January 1, 2047 at 8:21:00AM", fwt=True))[0]})


KNOWN = {"D-C14-superlinear-time": lambda v: v["case"].get("known_class") == "D-C14-superlinear-time"
         and v["case"].get("family") in SUPERLINEAR_KNOWN and v["case"].get("exponent", 0) < 2.5}


def replay(ctx, payload):
    c = payload["violation"]["case"]
    if c.get("text") is None and c.get("family") not in SCALING:
        print("non-text case: see harness/props/c14.py NON_TEXT")
        return False
    if c.get("TZ_sequence") is not None:
        return L.zone_switch_replay(ctx, c)
    if c.get("overlapped_with") is not None:
        import io
        other = L.call_from_case(c["overlapped_with"])
        class Overlap(io.StringIO):
            ran = False
            def read(self, n=-1):
                if not self.ran:
                    self.ran = True
                    L.run_impl(other)
                return io.StringIO.read(self, n)
        base = L.call_from_case(c)
        alone = L.run_impl(base)[0]
        base.arg_factory = lambda: Overlap(c["text"])
        got = L.run_impl(base)[0]
        print("parse(%s) alone = %s; overlapped with parse(%s, …) on the same parser = %s" % (ascii(c["text"]), alone, ascii(other.text), got))
        return alone == got
    if c.get("family") in SCALING:
        import math
        from dateutil import parser as P
        f = SCALING[c["family"]]
        ts = []
        for n in (8192, 16384, 32768):
            t0 = time.process_time()
            try:
                P.parse(f(n), fuzzy=bool(c.get("fuzzy")))
            except Exception:
                pass
            ts.append(time.process_time() - t0)
        expo = math.log2(max(ts[2], 1e-6) / max(ts[1], 1e-6))
        print("family %s: CPU time at 8192/16384/32768 repetitions = %s -> exponent %.2f" % (c["family"], ["%.3f" % t for t in ts], expo))
        return expo <= 1.7
    call = L.call_from_case(c)
    prev = L.set_tz(c.get("TZ") or "UTC")
    try:
        a1, _, _ = L.run_impl(call)
        a2, _, _ = L.run_impl(call)
        m = L.model_answers(ctx, [call])[0]
    finally:
        L.set_tz(prev)
    print("parse(%s): impl=%s again=%s model=%s" % (ascii(call.text), a1, a2, m))
    return classify(a1) and a1 == a2
