"""C09 — relativedelta(dt1, dt2) is the calendar difference that carries dt2 onto dt1."""
import calendar, datetime, time
import basecorr
from props import rdlib as L

PROP = "C09"
TRUSTED = [
    "harness/translate_rd.py (RDPy translator; runtime primitives Model/RDPy.lean) RE-TRANSLATES from /repo's relativedelta.py "
    "into Generated/RDOps.lean on every run: __add__ (three Lean functions: date/datetime, relativedelta and timedelta "
    "operand - isinstance on the declared operand type is decided statically), __radd__, __rsub__, __neg__, __abs__, __sub__, "
    "__mul__ (integer scalar; float() / int() are the identity on the integer domain), __bool__, __eq__, __hash__ (the tuple), "
    "and both branches of __init__ (keyword constructor incl. the unrolled ydayidx scan and the weekday coercion; "
    "relativedelta(dt1, dt2) incl. the while loop as a fuel-bounded recursion); _fix / _set_months as before "
    "(translate.py). Anything outside the fragment aborts with a named construct (broken tie). Proofs/RDGenEq.lean proves "
    "Gen.f = model f for: addDt = applyTo, raddDt, rsubDt, neg, abs, addRd, subRd, addTd, mulInt, bool, eq, hashKey, "
    "initDiff = diffN (out of fuel = NotImplemented), initKw = mk for EVERY keyword set (initKw_eq: yearday / nlyearday "
    "scan, integer / object weekday, the ValueError and IndexError branches); the `_gen` theorems of the Audit file restate the property theorems over the generated definitions",
    "STILL HAND-MODELLED, tied by sampling only: (a) the named primitives of Model/RDPy.lean = CPython behaviour "
    "(calendar.monthrange / isleap, date/datetime.replace incl. its C-int and range errors, datetime.timedelta(...), "
    "x + timedelta, x.weekday(), isinstance(x, datetime), datetime.fromordinal(d.toordinal()), <, > and - between "
    "date/datetime objects incl. the same-object / UTC rule, timedelta.days/.seconds/.microseconds, weekdays[i], "
    "attributes of a weekday object, `a or b`, truthiness of Optional values), exercised by rdgen.* on every run; "
    "(b) __div__, normalized(), __repr__, the `weeks` property, float-valued fields (not translated). The hashed tuple is "
    "translated element by element in source order (hashList) and captured in the same order from the implementation",
    "the translator itself is validated on every run: every correspondence request to a hand-model op (rd.add, rd.rsub, "
    "rd.mk, rd.expr, rd.bool, rd.hash, rd.eq, rd.diff, rd.diffn, rd.diffo) is repeated against the generated definition "
    "(rdgen.*) and compared with the implementation",
    "Model/RelativeDelta.lean `diffN` mirrors relativedelta.__init__(dt1, dt2) (lines 112-169, 229): coercion of a date to a "
    "midnight datetime, initial month estimate, _set_months (generated), dtm = dt2 + self (the C03 model `applyTo`), the "
    "overshoot loop with explicit fuel, residual extraction, _fix (generated); tied by the correspondence op rd.diff "
    "(and rd.diffn with fuel 1: the theorem says one iteration always suffices)",
    "Generated/RDKernels.lean (Gen.fix, Gen.setMonths) re-translated from /repo on every run",
    "aware operands are modelled for one common tzinfo object (CPython then compares and subtracts wall clocks); "
    "naive-vs-aware raises TypeError in model and implementation alike",
]
ASSUMPTIONS = [
    "PEP 495 fold is irrelevant here and not modelled: for one shared tzinfo object (and for naive operands) CPython's < and - "
    "work on the wall clock and ignore fold, the date->datetime coercion yields fold=0, and dt2 + delta ends in "
    "`+ timedelta` (fold reset to 0); checked on every run (oracle clause `fold`, operands with fold=1 are generated)",
    "\"dt2 + relativedelta(dt1, dt2) equals dt1 exactly\" is read as the same calendar instant when exactly one operand is a "
    "date (Python's date == datetime is False by type): the date is promoted to midnight before comparing",
    "aware operands of a common zone come in two flavours, both generated and both modelled: ONE shared tzinfo object "
    "(CPython compares/subtracts wall clocks - the theorems diff_inverse etc.) and two equal-but-distinct objects "
    "(two tzlocal(), two tzfile loads, gettz.nocache twice, tzoffset.instance twice, two tzstr, a tzstr and the equal "
    "tzrange: CPython works in UTC - model `cmpKey`, theorem diff_inverse_distinct_objects_partial, known finding "
    "D-C09-distinct-tzinfo-objects where the offset changes over the span); aware operands of two DIFFERENT zones are "
    "outside the property",
]
RULE = ("seeded random ordered pairs of date / naive / aware (one shared tzinfo object, and two equal-but-distinct tzinfo "
        "objects of 7 kinds across and away from DST changes) operands in years 1..9999, biased to month ends, "
        "Feb 28/29, leap/century years, years 1 and 9999, microseconds 0/1/999999, equal and adjacent instants, both "
        "orders, mixed date/datetime; plus an exhaustive day-of-month grid (every pair of days in a 14-month window around "
        "Feb of a leap and a non-leap year); distinct = distinct canonical pair; non-trivial = the pair is comparable "
        "(no TypeError)")


WATCHDOG_S = 5.0      # a normal call takes ~10 us; the overshoot loop is proved to run at most once
SLOW_S = 0.25         # a call slower than this is counted (and reported in the evidence)
STOP_AFTER = 60       # failing inputs are what the search is for: stop sweeping once this many are in hand


def impl_diff(a, b):
    from dateutil.relativedelta import relativedelta
    return L.run(lambda: relativedelta(a, b), L.rd_wire, watchdog=WATCHDOG_S)


def g_pair(rng):
    kinds = rng.choice([("d", "d"), ("n", "n"), ("a", "a"), ("d", "n"), ("n", "d"), ("n", "n"), ("n", "n"),
                        ("d", "a"), ("a", "n")])
    a = L.g_temporal(rng, (kinds[0],))
    r = rng.random()
    if r < 0.25:
        # near a: same instant, +-1 us, +-1 day, +- k months to the same / clipped day
        b = a
        if isinstance(a, datetime.datetime) and kinds[1] != "d":
            delta = rng.choice([datetime.timedelta(0), datetime.timedelta(microseconds=1), datetime.timedelta(microseconds=-1),
                                datetime.timedelta(days=1), datetime.timedelta(days=-1), datetime.timedelta(seconds=86399)])
            try:
                b = a + delta
            except OverflowError:
                b = a
            if kinds[1] == "n" and b.tzinfo is not None:
                b = b.replace(tzinfo=None)
            if kinds[1] == "a" and b.tzinfo is None:
                b = b.replace(tzinfo=rng.choice(L.zones()))
        else:
            b = L.g_temporal(rng, (kinds[1],))
    else:
        b = L.g_temporal(rng, (kinds[1],))
    if kinds == ("a", "a") and rng.random() < 0.8:
        b = b.replace(tzinfo=a.tzinfo)          # common zone = same object
    if r > 0.6 and rng.random() < 0.5:
        # same year or adjacent months: the overshoot loop's territory
        try:
            y = a.year + rng.choice([0, 0, 1, -1])
            m = rng.randint(1, 12)
            dd = min(rng.choice([28, 29, 30, 31, b.day]), calendar.monthrange(y, m)[1])
            b = b.replace(year=y, month=m, day=dd)
        except ValueError:
            pass
    return a, b


# ---------------------------------------------------------------- equal-but-distinct tzinfo objects
DST_DAYS = [(2020, 3, 8), (2020, 11, 1), (2021, 3, 14), (2021, 3, 28), (2020, 10, 25), (1999, 4, 4), (2024, 3, 10)]


def g_pair_distinct(rng):
    """two aware datetimes of one zone held by two distinct tzinfo objects, across and away from DST changes"""
    zone = L.DISTINCT_ZONE_BASE + rng.randrange(len(L.distinct_factories()))
    z1, z2 = L.distinct_tz(zone, 1), L.distinct_tz(zone, 2)
    r = rng.random()
    if r < 0.55:
        y, m, d = rng.choice(DST_DAYS)
        base = datetime.datetime(y, m, d, 12)
        a = base + datetime.timedelta(days=rng.choice([-1, 0, 0, 1, 2, 30, -30]), hours=rng.randint(-14, 14),
                                      minutes=rng.choice([0, 0, 30, 59]))
        b = base + datetime.timedelta(days=rng.choice([-1, 0, 1, -2, -31, 31, 180, -365]), hours=rng.randint(-14, 14),
                                      microseconds=rng.choice([0, 0, 1, 999999]))
    else:
        a = L.g_temporal(rng, ("n",)); b = L.g_temporal(rng, ("n",))
        if rng.random() < 0.5:
            try:
                b = b.replace(year=a.year + rng.choice([0, 0, 1, -1]))
            except ValueError:
                pass
    a = a.replace(tzinfo=z1, fold=0); b = b.replace(tzinfo=z2, fold=0)
    if rng.random() < 0.5:
        a, b = b.replace(tzinfo=z1), a.replace(tzinfo=z2)
    return a, b


def us(td):
    return (td.days * 86400 + td.seconds) * 10 ** 6 + td.microseconds


def offsets_for(a, b):
    """utcoffsets (in us) the constructor can ask for: at a, and at the whole-month shifts of b's wall time
    around the month estimate; returns (off_a, [(k, off_k)...]) or None if an offset is unavailable"""
    try:
        off_a = us(a.utcoffset())
        b.utcoffset()          # tzlocal raises OverflowError near years 1 / 9999 (time.localtime): not relativedelta's business
        k0 = (a.year - b.year) * 12 + (a.month - b.month)
        ks = []
        for k in range(k0 - 2, k0 + 3):
            s = shift(b, k)
            if s is not None:
                ks.append((k, us(s.replace(fold=0).utcoffset())))
        return off_a, ks
    except Exception:
        return None


def diffo_request(a, b, offs):
    off_a, ks = offs
    return "rd.diffo %s %s %d %s" % (L.t_wire(a), L.t_wire(b), off_a, " ".join("%d %d" % kv for kv in ks))


def distinct_pairs(ctx, rng, n):
    """[(a, b, offsets, model response)] — the model is asked once, in a batch"""
    out, reqs = [], []
    for _ in range(n):
        a, b = g_pair_distinct(rng)
        offs = offsets_for(a, b)
        if offs is None:
            ctx.count("distinct_skipped_no_offset")
            continue
        out.append([a, b, offs, None])
        reqs.append(diffo_request(a, b, offs))
    for rec, resp in zip(out, ctx.driver(reqs)):
        rec[3] = resp
    return out


def correspondence(ctx):
    basecorr.run(ctx)
    rng = ctx.subrng("corr")
    # the UTC branch of the model (distinct tzinfo objects) against the implementation
    with L.process_tz("America/New_York"):
        nd = ctx.budget(6000, 60000)
        genreq, genexp = [], []
        slow_d = 0
        for a, b, offs, model in distinct_pairs(ctx, ctx.subrng("corr-distinct"), nd):
            t0 = time.time()
            r = impl_diff(a, b)
            if time.time() - t0 > SLOW_S or r == "hang":
                slow_d += 1
                ctx.count("corr_slow_calls")
            if slow_d >= 20 or len(ctx.mismatches) >= 50:
                ctx.note("distinct-objects correspondence stopped early (slow calls / enough mismatches)")
                break
            ctx.count("corr_distinct_" + (r.split()[1] if r.startswith("err") else "ok"))
            if len(set([offs[0]] + [o for _, o in offs[1]])) > 1:
                ctx.count("corr_distinct_offset_changes_in_span")
            if r != model:
                ctx.mismatch("rd.diffo", diffo_request(a, b, offs), r, model)
            genreq.append(diffo_request(a, b, offs).replace("rd.diffo", "rdgen.diffo", 1)); genexp.append(r)
            ctx.traces += 1
        for q, e, g in zip(genreq, genexp, ctx.driver(genreq)):
            if e != g:
                ctx.mismatch("rdgen.diffo", q, e, g)
        ctx.traces += len(genreq)
    n = ctx.budget(50000, 400000)
    reqs, exp = [], []
    slow = 0
    for i in range(n):
        a, b = g_pair(rng)
        if L.kind_of(a) == "a?" or L.kind_of(b) == "a?":
            continue
        if L.kind_of(a)[0] == "a" and L.kind_of(b)[0] == "a" and a.tzinfo is not b.tzinfo:
            ctx.count("corr_skipped_different_zones")
            continue
        t0 = time.time()
        r = impl_diff(a, b)
        if time.time() - t0 > SLOW_S:
            ctx.count("corr_slow_calls")
            slow += 1
        reqs.append("rd.diff %s %s" % (L.t_wire(a), L.t_wire(b))); exp.append(r)
        if r == "hang" or slow >= STOP_AFTER:
            # a hang / pathologically slow constructor: enough for the failing-input search, do not spend the budget here
            ctx.note("correspondence generation stopped early after %d cases: %s" % (i + 1, "hang" if r == "hang" else "slow calls"))
            break
        ctx.count("corr_diff_" + (r.split()[1] if r.startswith("err") else "ok"))
        if i % 4 == 0:
            reqs.append("rd.diffn 1 %s %s" % (L.t_wire(a), L.t_wire(b))); exp.append(r)
    # the history of a difference object: relativedelta(dt1, dt2) used / mutated / used again follows its CURRENT fields
    for site in L.write_audit():
        ctx.mismatch("rd.write_audit", site, "a method of relativedelta writes state outside " + "/".join(L.WRITERS_ALLOWED),
                     "model: a use leaves the record alone (RDH.step)")
    hr = ctx.subrng("corr-history")
    from dateutil.relativedelta import relativedelta as _rd
    starts = []
    for _ in range(ctx.budget(150, 1500)):
        try:
            starts.append(_rd(L.g_temporal(hr, ("d", "n")), L.g_temporal(hr, ("d", "n"))))
        except Exception:
            pass
    hq, he = L.history_corr(ctx, hr, starts, 6, "corr_history")
    reqs += hq; exp += he
    reqs, exp = L.with_generated(reqs, exp)
    ctx.count("corr_generated_requests", sum(1 for q in reqs if q.startswith("rdgen.")))
    got = ctx.driver(reqs)
    for q, e, g in zip(reqs, exp, got):
        if e != g:
            ctx.mismatch(q.split()[0], q, e, g)
    ctx.traces += len(reqs)
    ctx.count("corr_requests", len(reqs))


def same_instant(x, y):
    """equality after promoting a date to midnight when exactly one side is a date"""
    xd, yd = isinstance(x, datetime.datetime), isinstance(y, datetime.datetime)
    if xd == yd:
        return x == y and type(x) is type(y)
    if not xd:
        x = datetime.datetime(x.year, x.month, x.day, tzinfo=y.tzinfo)
    if not yd:
        y = datetime.datetime(y.year, y.month, y.day, tzinfo=x.tzinfo)
    return x == y


def shift(b, k):
    """b shifted by k whole months, day clipped (the documented month shift), or None outside 1..9999"""
    M = 12 * b.year + (b.month - 1) + k
    y, m = M // 12, M % 12 + 1
    if not 1 <= y <= 9999:
        return None
    return b.replace(year=y, month=m, day=min(b.day, calendar.monthrange(y, m)[1]))


def as_cmp(x, like):
    """x as something comparable with `like` (promote a date to midnight datetime)"""
    if isinstance(like, datetime.datetime) and not isinstance(x, datetime.datetime):
        return datetime.datetime(x.year, x.month, x.day, tzinfo=like.tzinfo)
    return x


def unknown_failures(ctx):
    return sum(1 for v in ctx.violations if not _distinct_known(v))


KNOWN_KEEP = 25      # instances of the known class kept in the violation buffer (the rest are only counted)


def report(ctx, what, case):
    """ctx.violation, except that the known class does not flood the (capped) violation buffer"""
    v = {"what": what, "case": case}
    if _distinct_known(v):
        ctx.count("known_class_D-C09-distinct-tzinfo-objects")
        if ctx.hist["known_class_D-C09-distinct-tzinfo-objects"] > KNOWN_KEEP:
            return
    ctx.violation(what, case)


def check_pair(ctx, a, b, extra=None):
    from dateutil.relativedelta import relativedelta
    case = {"a": L.t_wire(a), "b": L.t_wire(b)}
    if extra:
        case.update(extra)
    t0 = time.time()
    try:
        try:
            d = L.watched(lambda: relativedelta(a, b), WATCHDOG_S)
        except L.Hang:
            # the watchdog measures real time: give the call one more chance with four times the limit before calling it a hang
            ctx.count("oracle_watchdog_retries")
            d = L.watched(lambda: relativedelta(a, b), WATCHDOG_S * 4)
    except L.Hang:
        ctx.case((case["a"], case["b"]), nontrivial=False); ctx.count("oracle_hang")
        ctx.violation("relativedelta(a, b) did not return within %.0f s, nor within %.0f s when repeated (the overshoot loop does not terminate?)" % (WATCHDOG_S, WATCHDOG_S * 4),
                      dict(case, law="terminates"))
        return
    except TypeError:
        mixed = (isinstance(a, datetime.datetime) and a.tzinfo is not None) != (isinstance(b, datetime.datetime) and b.tzinfo is not None)
        ctx.case((case["a"], case["b"]), nontrivial=False); ctx.count("oracle_TypeError")
        if not mixed:
            ctx.violation("relativedelta(a, b) raised TypeError for comparable operands", case)
        return
    except Exception as ex:
        ctx.case((case["a"], case["b"]), nontrivial=False)
        ctx.violation("relativedelta(a, b) raised %s" % type(ex).__name__, case)
        return
    ctx.case((case["a"], case["b"])); ctx.count("oracle_ok")
    if time.time() - t0 > SLOW_S:
        # a wall-clock reading: the process may simply have been descheduled.  Repeat the call three times and judge by the
        # smallest CPU time; only a call that is slow every time is the implementation's doing.
        ctx.count("oracle_slow_wallclock_readings")
        cpu = []
        for _ in range(3):
            c0 = time.process_time()
            try:
                L.watched(lambda: relativedelta(a, b), WATCHDOG_S * 4)
            except Exception:
                pass
            cpu.append(time.process_time() - c0)
        if min(cpu) > SLOW_S:
            ctx.count("oracle_slow_calls")
            ctx.violation("relativedelta(a, b) took %.2f s of CPU time (smallest of three repetitions): the overshoot loop ran far more than once" % min(cpu),
                          dict(case, law="terminates"))
    # inverse law
    try:
        back = b + d
    except Exception as ex:
        ctx.violation("b + relativedelta(a, b) raised %s" % type(ex).__name__, case)
        return
    if not same_instant(back, a):
        report(ctx, "b + relativedelta(a, b) = %s, not a = %s (delta %r)" % (back, a, d), case)
    # only relative fields
    if any(getattr(d, k) is not None for k in L.ABS) or d.weekday is not None or d.leapdays:
        ctx.violation("result carries an absolute field / weekday / leapdays: %r" % (d,), case)
    # normalised
    if not (abs(d.months) < 12 and abs(d.hours) < 24 and abs(d.minutes) < 60 and abs(d.seconds) < 60
            and abs(d.microseconds) < 10 ** 6):
        ctx.violation("result not normalised: %r" % (d,), case)
    # largest whole-month shift of b that does not pass a
    M = d.years * 12 + d.months
    a2, b2 = as_cmp(a, b), as_cmp(b, a)
    s0, s1 = shift(b2, M), shift(b2, M + (1 if a2 >= b2 else -1))
    if a2 >= b2:
        ok = s0 is not None and s0 <= a2 and (s1 is None or s1 > a2) and M >= 0
    else:
        ok = s0 is not None and s0 >= a2 and (s1 is None or s1 < a2) and M <= 0
    if not ok:
        ctx.violation("years/months (%d months) is not the largest whole-month shift of b not passing a: shift=%s next=%s"
                      % (M, s0, s1), case)
    if M:
        ctx.count("oracle_month_part_nonzero")
    # PEP 495 fold: ignored by <, - for one shared tzinfo object (and for naive operands), reset by + timedelta
    # (for two distinct tzinfo objects utcoffset() is consulted, so fold does matter there; those pairs are generated
    #  with fold=0 and compared with the model's `off`, which has no fold argument)
    if isinstance(a, datetime.datetime) and not (extra and extra.get("distinct_objects")):
        af = a.replace(fold=1 - a.fold)
        try:
            df = relativedelta(af, b)
            same = L.rd_wire(df) == L.rd_wire(d)
        except Exception:
            same = False
        ctx.count("fold_flip_checked")
        if not same:
            ctx.violation("flipping dt1.fold changes relativedelta(dt1, dt2)", dict(case, law="fold"))
        if isinstance(back, datetime.datetime) and back.fold != 0:
            ctx.violation("dt2 + relativedelta(dt1, dt2) has fold=%d" % back.fold, dict(case, law="fold"))
    if a2 == b2:
        ctx.count("oracle_equal_instants")
        if d:
            ctx.violation("relativedelta(x, x) is not empty: %r" % (d,), case)


def oracle(ctx):
    rng = ctx.subrng("oracle")
    pairs = []
    for m in ctx.mismatches:                      # failing-input search starts at the differing inputs
        toks = m["input"].split()
        try:
            off = 2 if toks[0] == "rd.diffn" else 1
            pairs.append((L.parse_t(toks[off:off + 8]), L.parse_t(toks[off + 8:off + 16])))
        except Exception:
            pass
    n = ctx.budget(80000, 1000000)
    while len(pairs) < n:
        pairs.append(g_pair(rng))
    for a, b in pairs:
        if L.kind_of(a)[0] == "a" and L.kind_of(b)[0] == "a" and a.tzinfo is not b.tzinfo:
            continue
        check_pair(ctx, a, b)
        if unknown_failures(ctx) >= STOP_AFTER or ctx.hist.get("oracle_hang", 0) >= 5:
            ctx.note("oracle sweep stopped early: %d failing inputs in hand" % len(ctx.violations))
            return
    # the same two INSTANTS in another zone, later in the same process: aware datetimes of different zones that denote one instant
    # are == and hash alike, so anything remembered per (dt1, dt2) answers for the wrong wall clocks.  relativedelta(a, b) is
    # evaluated first in one zone, then the law is checked on a.astimezone(z), b.astimezone(z) (one tzinfo object for both).
    zs = [z for z in L.zones()]
    for _ in range(ctx.budget(6000, 60000)):
        z1, z2 = rng.sample(zs, 2)
        y = rng.choice([1999, 2000, 2001, 2020, 2023, 2024, 2100, rng.randint(2, 9998)])
        m = rng.randint(1, 12)
        try:
            b = datetime.datetime(y, m, rng.choice([1, 1, 28, 29, 30, 31, 15]), rng.choice([0, 1, 2, 3, 4, 5, 12, 18, 19, 20, 21, 22, 23]),
                                  rng.choice([0, 0, 29, 30, 31, 59]), tzinfo=z1)
        except ValueError:
            continue
        try:
            a = b + datetime.timedelta(days=rng.choice([0, 1, 27, 28, 29, 30, 31, 32, 59, 60, 61, 365, 366, -1, -30, -31, -365,
                                                        rng.randint(-800, 800)]),
                                       hours=rng.randint(-23, 23), minutes=rng.choice([0, 0, 30, 59]))
            a2, b2 = a.astimezone(z2), b.astimezone(z2)
        except (OverflowError, ValueError):
            continue
        if rng.random() < 0.5:
            a, b, a2, b2 = b, a, b2, a2
        check_pair(ctx, a, b)                                   # first sight of the pair of instants
        ctx.count("oracle_same_instants_other_zone")
        if (a2.month, a2.day, b2.month, b2.day) != (a.month, a.day, b.month, b.day):
            ctx.count("oracle_same_instants_other_calendar_day")
        check_pair(ctx, a2, b2, {"primed_by": [L.t_wire(a), L.t_wire(b)]})
        if unknown_failures(ctx) >= STOP_AFTER:
            break
    # the history of a difference object: use -> mutate (weeks setter / attribute assignment) -> use again; every observation
    # (dt2 + d included) equals that of a fresh object with the current fields
    L.history_oracle(ctx, ctx.subrng("oracle-history"),
                     lambda r: ("diff", L.t_wire(L.g_temporal(r, ("d", "n"))), L.t_wire(L.g_temporal(r, ("d", "n")))),
                     ctx.budget(400, 5000), 8, "history_diff")
    # aware operands of one zone held by two distinct tzinfo objects (CPython: UTC comparison / subtraction)
    with L.process_tz("America/New_York"):
        for a, b, offs, model in distinct_pairs(ctx, ctx.subrng("oracle-distinct"), ctx.budget(8000, 100000)):
            offsets = sorted(set([offs[0]] + [o for _, o in offs[1]]))
            ctx.count("oracle_distinct_pairs")
            if len(offsets) > 1:
                ctx.count("oracle_distinct_offset_changes_in_span")
            check_pair(ctx, a, b, {"distinct_objects": True, "offsets_us": offsets, "model": model,
                                   "impl": impl_diff(a, b), "offs": [offs[0], offs[1]]})
            if unknown_failures(ctx) >= STOP_AFTER or ctx.hist.get("oracle_hang", 0) >= 5:
                ctx.note("oracle sweep (distinct objects) stopped early: failing inputs in hand")
                break
    # relativedelta(x, x)
    for _ in range(ctx.budget(500, 20000)):
        x = L.g_temporal(rng)
        check_pair(ctx, x, x)
    # exhaustive day grid around February: every pair of days of two 14-month windows
    for y0 in (2003, 2023):                       # 2004 / 2024 leap
        days = []
        o = datetime.date(y0, 12, 1).toordinal()
        end = datetime.date(y0 + 2, 1, 31).toordinal()
        step = 1 if ctx.budget(0, 1) else 3
        while o <= end:
            days.append(datetime.date.fromordinal(o)); o += step
        for a in days:
            for b in days:
                check_pair(ctx, a, b)
                ctx.count("grid_pairs")
            if unknown_failures(ctx) >= STOP_AFTER:
                return
    for a, b in pairs[:4]:
        ctx.sample({"a": str(a), "b": str(b), "impl": impl_diff(a, b)})


def _distinct_known(v):
    """D-C09-distinct-tzinfo-objects — tight: the operands are aware with two distinct tzinfo objects, the zone's
    utcoffset is not constant over the span the constructor looks at, the failing clause is the inverse law, AND the
    implementation returned exactly what the model of the code (UTC comparison/subtraction) returns on that input."""
    c = v["case"]
    return (bool(c.get("distinct_objects")) and len(c.get("offsets_us", [])) > 1
            and v["what"].startswith("b + relativedelta(a, b) = ")
            and isinstance(c.get("model"), str) and c.get("model", "").startswith("ok ") and c.get("impl") == c.get("model"))


KNOWN = {"D-C09-distinct-tzinfo-objects": _distinct_known}


def replay(ctx, payload):
    c = payload["violation"]["case"]
    sub = L.vlib.Ctx(PROP, "quick", ctx.seed)
    if c.get("law") == "history":
        return L.replay_history(c)
    if c.get("distinct_objects"):
        with L.process_tz("America/New_York"):
            a, b = L.parse_t(c["a"].split()), L.parse_t(c["b"].split())
            offs = offsets_for(a, b)
            model = ctx.driver([diffo_request(a, b, offs)])[0]
            print("a=%s b=%s impl=%s model=%s" % (a, b, impl_diff(a, b), model))
            check_pair(sub, a, b, {"distinct_objects": True, "model": model, "impl": impl_diff(a, b)})
        for v in sub.violations:
            print("still failing:", v["what"])
        return not sub.violations
    a, b = L.parse_t(c["a"].split()), L.parse_t(c["b"].split())
    if c.get("primed_by"):
        from dateutil.relativedelta import relativedelta as _rd0
        pa, pb = L.parse_t(c["primed_by"][0].split()), L.parse_t(c["primed_by"][1].split())
        print("first: relativedelta(%s, %s) = %r" % (pa, pb, _rd0(pa, pb)))
    check_pair(sub, a, b)
    print("a=%s b=%s relativedelta(a,b)=%s model=%s" % (a, b, impl_diff(a, b),
                                                         ctx.driver(["rd.diff %s %s" % (L.t_wire(a), L.t_wire(b))])[0]))
    for v in sub.violations:
        print("still failing:", v["what"])
    return not sub.violations
