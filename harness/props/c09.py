"""C09 — relativedelta(dt1, dt2) is the calendar difference that carries dt2 onto dt1."""
import calendar, datetime, time
import basecorr
from props import rdlib as L

PROP = "C09"
TRUSTED = [
    "Model/RelativeDelta.lean `diffN` mirrors relativedelta.__init__(dt1, dt2) (lines 112-169, 229): coercion of a date to a "
    "midnight datetime, initial month estimate, _set_months (generated), dtm = dt2 + self (the C03 model `applyTo`), the "
    "overshoot loop with explicit fuel, residual extraction, _fix (generated); tied by the correspondence op rd.diff "
    "(and rd.diffn with fuel 1: the theorem says one iteration always suffices)",
    "Generated/RDKernels.lean (Gen.fix, Gen.setMonths) re-translated from /repo on every run",
    "aware operands are modelled for one common tzinfo object (CPython then compares and subtracts wall clocks); "
    "naive-vs-aware raises TypeError in model and implementation alike",
]
ASSUMPTIONS = [
    "PEP 495 fold is irrelevant here and not modelled: for one shared tzinfo object (and for naive operands) CPython's < and - "
    "work on the wall clock and ignore fold, the date->datetime coercion yields fold=0, and dt2 + delta ends in "
    "`+ timedelta` (fold reset to 0); checked on every run (oracle clause `fold`, operands with fold=1 are generated)",
    "\"dt2 + relativedelta(dt1, dt2) equals dt1 exactly\" is read as the same calendar instant when exactly one operand is a "
    "date (Python's date == datetime is False by type): the date is promoted to midnight before comparing",
    "aware operands share the same tzinfo object (the property's 'common zone'); two different tzinfo objects are outside the model",
]
RULE = ("seeded random ordered pairs of date / naive / aware(common zone) operands in years 1..9999, biased to month ends, "
        "Feb 28/29, leap/century years, years 1 and 9999, microseconds 0/1/999999, equal and adjacent instants, both "
        "orders, mixed date/datetime; plus an exhaustive day-of-month grid (every pair of days in a 14-month window around "
        "Feb of a leap and a non-leap year); distinct = distinct canonical pair; non-trivial = the pair is comparable "
        "(no TypeError)")


WATCHDOG_S = 5.0      # a normal call takes ~10 us; the overshoot loop is proved to run at most once
SLOW_S = 0.25         # a call slower than this is counted (and reported in the evidence)
STOP_AFTER = 60       # failing inputs are what the search is for: stop sweeping once this many are in hand


def impl_diff(a, b):
    from dateutil.relativedelta import relativedelta
    return L.run(lambda: relativedelta(a, b), L.rd_wire, watchdog=WATCHDOG_S)


def g_pair(rng):
    kinds = rng.choice([("d", "d"), ("n", "n"), ("a", "a"), ("d", "n"), ("n", "d"), ("n", "n"), ("n", "n"),
                        ("d", "a"), ("a", "n")])
    a = L.g_temporal(rng, (kinds[0],))
    r = rng.random()
    if r < 0.25:
        # near a: same instant, +-1 us, +-1 day, +- k months to the same / clipped day
        b = a
        if isinstance(a, datetime.datetime) and kinds[1] != "d":
            delta = rng.choice([datetime.timedelta(0), datetime.timedelta(microseconds=1), datetime.timedelta(microseconds=-1),
                                datetime.timedelta(days=1), datetime.timedelta(days=-1), datetime.timedelta(seconds=86399)])
            try:
                b = a + delta
            except OverflowError:
                b = a
            if kinds[1] == "n" and b.tzinfo is not None:
                b = b.replace(tzinfo=None)
            if kinds[1] == "a" and b.tzinfo is None:
                b = b.replace(tzinfo=rng.choice(L.zones()))
        else:
            b = L.g_temporal(rng, (kinds[1],))
    else:
        b = L.g_temporal(rng, (kinds[1],))
    if kinds == ("a", "a") and rng.random() < 0.8:
        b = b.replace(tzinfo=a.tzinfo)          # common zone = same object
    if r > 0.6 and rng.random() < 0.5:
        # same year or adjacent months: the overshoot loop's territory
        try:
            y = a.year + rng.choice([0, 0, 1, -1])
            m = rng.randint(1, 12)
            dd = min(rng.choice([28, 29, 30, 31, b.day]), calendar.monthrange(y, m)[1])
            b = b.replace(year=y, month=m, day=dd)
        except ValueError:
            pass
    return a, b


def correspondence(ctx):
    basecorr.run(ctx)
    rng = ctx.subrng("corr")
    n = ctx.budget(50000, 400000)
    reqs, exp = [], []
    slow = 0
    for i in range(n):
        a, b = g_pair(rng)
        if L.kind_of(a) == "a?" or L.kind_of(b) == "a?":
            continue
        if L.kind_of(a)[0] == "a" and L.kind_of(b)[0] == "a" and a.tzinfo is not b.tzinfo:
            ctx.count("corr_skipped_different_zones")
            continue
        t0 = time.time()
        r = impl_diff(a, b)
        if time.time() - t0 > SLOW_S:
            ctx.count("corr_slow_calls")
            slow += 1
        reqs.append("rd.diff %s %s" % (L.t_wire(a), L.t_wire(b))); exp.append(r)
        if r == "hang" or slow >= STOP_AFTER:
            # a hang / pathologically slow constructor: enough for the failing-input search, do not spend the budget here
            ctx.note("correspondence generation stopped early after %d cases: %s" % (i + 1, "hang" if r == "hang" else "slow calls"))
            break
        ctx.count("corr_diff_" + (r.split()[1] if r.startswith("err") else "ok"))
        if i % 4 == 0:
            reqs.append("rd.diffn 1 %s %s" % (L.t_wire(a), L.t_wire(b))); exp.append(r)
    got = ctx.driver(reqs)
    for q, e, g in zip(reqs, exp, got):
        if e != g:
            ctx.mismatch(q.split()[0], q, e, g)
    ctx.traces += len(reqs)
    ctx.count("corr_requests", len(reqs))


def same_instant(x, y):
    """equality after promoting a date to midnight when exactly one side is a date"""
    xd, yd = isinstance(x, datetime.datetime), isinstance(y, datetime.datetime)
    if xd == yd:
        return x == y and type(x) is type(y)
    if not xd:
        x = datetime.datetime(x.year, x.month, x.day, tzinfo=y.tzinfo)
    if not yd:
        y = datetime.datetime(y.year, y.month, y.day, tzinfo=x.tzinfo)
    return x == y


def shift(b, k):
    """b shifted by k whole months, day clipped (the documented month shift), or None outside 1..9999"""
    M = 12 * b.year + (b.month - 1) + k
    y, m = M // 12, M % 12 + 1
    if not 1 <= y <= 9999:
        return None
    return b.replace(year=y, month=m, day=min(b.day, calendar.monthrange(y, m)[1]))


def as_cmp(x, like):
    """x as something comparable with `like` (promote a date to midnight datetime)"""
    if isinstance(like, datetime.datetime) and not isinstance(x, datetime.datetime):
        return datetime.datetime(x.year, x.month, x.day, tzinfo=like.tzinfo)
    return x


def check_pair(ctx, a, b):
    from dateutil.relativedelta import relativedelta
    case = {"a": L.t_wire(a), "b": L.t_wire(b)}
    t0 = time.time()
    try:
        d = L.watched(lambda: relativedelta(a, b), WATCHDOG_S)
    except L.Hang:
        ctx.case((case["a"], case["b"]), nontrivial=False); ctx.count("oracle_hang")
        ctx.violation("relativedelta(a, b) did not return within %.0f s (the overshoot loop does not terminate?)" % WATCHDOG_S,
                      dict(case, law="terminates"))
        return
    except TypeError:
        mixed = (isinstance(a, datetime.datetime) and a.tzinfo is not None) != (isinstance(b, datetime.datetime) and b.tzinfo is not None)
        ctx.case((case["a"], case["b"]), nontrivial=False); ctx.count("oracle_TypeError")
        if not mixed:
            ctx.violation("relativedelta(a, b) raised TypeError for comparable operands", case)
        return
    except Exception as ex:
        ctx.case((case["a"], case["b"]), nontrivial=False)
        ctx.violation("relativedelta(a, b) raised %s" % type(ex).__name__, case)
        return
    ctx.case((case["a"], case["b"])); ctx.count("oracle_ok")
    if time.time() - t0 > SLOW_S:
        ctx.count("oracle_slow_calls")
        ctx.violation("relativedelta(a, b) took %.2f s: the overshoot loop ran far more than once" % (time.time() - t0),
                      dict(case, law="terminates"))
    # inverse law
    try:
        back = b + d
    except Exception as ex:
        ctx.violation("b + relativedelta(a, b) raised %s" % type(ex).__name__, case)
        return
    if not same_instant(back, a):
        ctx.violation("b + relativedelta(a, b) = %s, not a = %s (delta %r)" % (back, a, d), case)
    # only relative fields
    if any(getattr(d, k) is not None for k in L.ABS) or d.weekday is not None or d.leapdays:
        ctx.violation("result carries an absolute field / weekday / leapdays: %r" % (d,), case)
    # normalised
    if not (abs(d.months) < 12 and abs(d.hours) < 24 and abs(d.minutes) < 60 and abs(d.seconds) < 60
            and abs(d.microseconds) < 10 ** 6):
        ctx.violation("result not normalised: %r" % (d,), case)
    # largest whole-month shift of b that does not pass a
    M = d.years * 12 + d.months
    a2, b2 = as_cmp(a, b), as_cmp(b, a)
    s0, s1 = shift(b2, M), shift(b2, M + (1 if a2 >= b2 else -1))
    if a2 >= b2:
        ok = s0 is not None and s0 <= a2 and (s1 is None or s1 > a2) and M >= 0
    else:
        ok = s0 is not None and s0 >= a2 and (s1 is None or s1 < a2) and M <= 0
    if not ok:
        ctx.violation("years/months (%d months) is not the largest whole-month shift of b not passing a: shift=%s next=%s"
                      % (M, s0, s1), case)
    if M:
        ctx.count("oracle_month_part_nonzero")
    # PEP 495 fold: ignored by <, - for one shared tzinfo object (and for naive operands), reset by + timedelta
    if isinstance(a, datetime.datetime):
        af = a.replace(fold=1 - a.fold)
        try:
            df = relativedelta(af, b)
            same = L.rd_wire(df) == L.rd_wire(d)
        except Exception:
            same = False
        ctx.count("fold_flip_checked")
        if not same:
            ctx.violation("flipping dt1.fold changes relativedelta(dt1, dt2)", dict(case, law="fold"))
        if isinstance(back, datetime.datetime) and back.fold != 0:
            ctx.violation("dt2 + relativedelta(dt1, dt2) has fold=%d" % back.fold, dict(case, law="fold"))
    if a2 == b2:
        ctx.count("oracle_equal_instants")
        if d:
            ctx.violation("relativedelta(x, x) is not empty: %r" % (d,), case)


def oracle(ctx):
    rng = ctx.subrng("oracle")
    pairs = []
    for m in ctx.mismatches:                      # failing-input search starts at the differing inputs
        toks = m["input"].split()
        try:
            off = 2 if toks[0] == "rd.diffn" else 1
            pairs.append((L.parse_t(toks[off:off + 8]), L.parse_t(toks[off + 8:off + 16])))
        except Exception:
            pass
    n = ctx.budget(80000, 1000000)
    while len(pairs) < n:
        pairs.append(g_pair(rng))
    for a, b in pairs:
        if L.kind_of(a)[0] == "a" and L.kind_of(b)[0] == "a" and a.tzinfo is not b.tzinfo:
            continue
        check_pair(ctx, a, b)
        if len(ctx.violations) >= STOP_AFTER or ctx.hist.get("oracle_hang", 0) >= 5:
            ctx.note("oracle sweep stopped early: %d failing inputs in hand" % len(ctx.violations))
            return
    # relativedelta(x, x)
    for _ in range(ctx.budget(500, 20000)):
        x = L.g_temporal(rng)
        check_pair(ctx, x, x)
    # exhaustive day grid around February: every pair of days of two 14-month windows
    for y0 in (2003, 2023):                       # 2004 / 2024 leap
        days = []
        o = datetime.date(y0, 12, 1).toordinal()
        end = datetime.date(y0 + 2, 1, 31).toordinal()
        step = 1 if ctx.budget(0, 1) else 3
        while o <= end:
            days.append(datetime.date.fromordinal(o)); o += step
        for a in days:
            for b in days:
                check_pair(ctx, a, b)
                ctx.count("grid_pairs")
            if len(ctx.violations) >= STOP_AFTER:
                return
    for a, b in pairs[:4]:
        ctx.sample({"a": str(a), "b": str(b), "impl": impl_diff(a, b)})


KNOWN = {}


def replay(ctx, payload):
    c = payload["violation"]["case"]
    a, b = L.parse_t(c["a"].split()), L.parse_t(c["b"].split())
    sub = L.vlib.Ctx(PROP, "quick", ctx.seed)
    check_pair(sub, a, b)
    print("a=%s b=%s relativedelta(a,b)=%s model=%s" % (a, b, impl_diff(a, b),
                                                         ctx.driver(["rd.diff %s %s" % (L.t_wire(a), L.t_wire(b))])[0]))
    for v in sub.violations:
        print("still failing:", v["what"])
    return not sub.violations
