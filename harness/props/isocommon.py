"""isocommon.py — shared by c07.py and c20.py: running the real isoparser, canonical forms,
the form tables (indices match Ops/IsoParser.lean) and the string generators."""
import io, re, datetime, calendar, hashlib, inspect, ast
import vlib

# ---- form tables (same indices as dateForm? / timeForm? / offForm? in Ops/IsoParser.lean)
DATE_FORMS = ["calExt", "calBas", "year", "yearMonth", "weekExtD", "weekBasD", "weekExt", "weekBas", "ordExt", "ordBas"]
TIME_FORMS = ["none", "h", "hmExt", "hmBas", "hmsExt", "hmsBas", "hmsfExt.", "hmsfExt,", "hmsfBas.", "hmsfBas,"]
OFF_FORMS = ["naive", "Z", "z", "hh", "hhmm", "hhcmm"]
COMPLETE = {0, 1, 4, 5, 8, 9}
HAS_M = {2, 3, 4, 5, 6, 7, 8, 9}
HAS_S = {4, 5, 6, 7, 8, 9}
HAS_F = {6, 7, 8, 9}


def form_ok(df, tf, of):
    return (tf == 0 and of == 0) or (tf != 0 and df in COMPLETE)


def all_forms():
    return [(df, tf, of) for df in range(10) for tf in range(10) for of in range(6) if form_ok(df, tf, of)]


# ---- canonical forms
def canon_tz(tzi):
    from dateutil import tz
    if tzi is None:
        return "naive"
    if isinstance(tzi, tz.tzutc):
        return "utc"
    if isinstance(tzi, tz.tzoffset):
        return "fixed %d" % int(tzi.utcoffset(None).total_seconds())
    return "other:%r" % (tzi,)


def canon_dt(d):
    return "ok %d %d %d %d %d %d %d %s" % (d.year, d.month, d.day, d.hour, d.minute, d.second,
                                           d.microsecond, canon_tz(d.tzinfo))


def canon_exc(ex):
    # UnicodeDecodeError etc. are ValueErrors; the property names the kind
    if isinstance(ex, ValueError):
        return "err ValueError"
    if isinstance(ex, OverflowError):
        return "err OverflowError"
    return "err %s" % type(ex).__name__


STREAM_PREFIX = "#junk\n  0000-00-00T00:00 \r\n"     # what a partially consumed stream has already delivered


def is_bytes_kind(kind):
    """bytes and byte streams skip the ASCII gate"""
    return kind.startswith("b")


def wrap_input(s, kind):
    """s: str (or bytes); kind: str | bytes | stream | bstream | stream@k | bstream@k
    (`@k`: a stream that has already delivered k characters / bytes: position != 0)"""
    if kind == "str":
        return s
    raw = s.encode("utf-8") if isinstance(s, str) else s
    if kind == "bytes":
        return raw
    base, _, k = kind.partition("@")
    k = int(k) if k else 0
    if base == "stream":
        f = io.StringIO(STREAM_PREFIX[:k] + s)
        f.read(k)
        return f
    if base == "bstream":
        f = io.BytesIO(STREAM_PREFIX[:k].encode("ascii") + raw)
        f.read(k)
        return f
    raise ValueError(kind)


_PARSERS = {}


def get_parser(sep):
    """isoparser(sep) or the exception kind its constructor raises"""
    from dateutil.parser import isoparser
    if sep not in _PARSERS:
        try:
            _PARSERS[sep] = isoparser(sep) if sep is not None else isoparser()
        except Exception as ex:
            _PARSERS[sep] = canon_exc(ex)
    return _PARSERS[sep]


def impl_parse(sep, s, kind="str"):
    p = get_parser(sep)
    if isinstance(p, str):
        return p
    try:
        return canon_dt(p.isoparse(wrap_input(s, kind)))
    except Exception as ex:
        return canon_exc(ex)


def impl_date(s, kind="str"):
    try:
        d = get_parser(None).parse_isodate(wrap_input(s, kind))
        return "ok %d %d %d" % (d.year, d.month, d.day)
    except Exception as ex:
        return canon_exc(ex)


def impl_time(s, kind="str"):
    try:
        t = get_parser(None).parse_isotime(wrap_input(s, kind))
        return "ok %d %d %d %d %s" % (t.hour, t.minute, t.second, t.microsecond, canon_tz(t.tzinfo))
    except Exception as ex:
        return canon_exc(ex)


def impl_tz(s, zero_as_utc=True, kind="str"):
    try:
        return "ok " + canon_tz(get_parser(None).parse_tzstr(wrap_input(s, kind), zero_as_utc=zero_as_utc))
    except Exception as ex:
        return canon_exc(ex)


def sep_arg(sep):
    return "-" if sep is None else vlib.hexs(sep)


def line_parse(sep, s, kind="str"):
    """driver request for the model; s is str (str/stream input) or bytes"""
    return "iso.parse %s %s%s" % (sep_arg(sep), vlib.hexs(s), " b" if is_bytes_kind(kind) or isinstance(s, bytes) else "")


def entry_line(entry, s, sep=None, zero=True, kind="str"):
    b = " b" if is_bytes_kind(kind) or isinstance(s, bytes) else ""
    if entry == "isoparse":
        return line_parse(sep, s, kind)
    if entry == "date":
        return "iso.date %s%s" % (vlib.hexs(s), b)
    if entry == "time":
        return "iso.time %s%s" % (vlib.hexs(s), b)
    if entry == "tz":
        return "iso.tz %d %s%s" % (int(zero), vlib.hexs(s), b)
    raise ValueError(entry)


def entry_impl(entry, s, sep=None, zero=True, kind="str"):
    if entry == "isoparse":
        return impl_parse(sep, s, kind)
    if entry == "date":
        return impl_date(s, kind)
    if entry == "time":
        return impl_time(s, kind)
    if entry == "tz":
        return impl_tz(s, zero, kind)
    raise ValueError(entry)


def entry_spec_line(entry, s, sep=None, zero=True, strict=True):
    """driver request for the spec-side recogniser (on the bytes after the ASCII gate)"""
    if entry == "isoparse":
        return "iso.recognise %d %s %s" % (int(strict), sep_arg(sep), vlib.hexs(s))
    if entry == "date":
        return "iso.recdate %d %s" % (int(strict), vlib.hexs(s))
    if entry == "time":
        return "iso.rectime %s" % vlib.hexs(s)
    if entry == "tz":
        return "iso.rectz %d %s" % (int(zero), vlib.hexs(s))
    raise ValueError(entry)


def spec_values(resp):
    """'none' | 'ok v1|v2' -> list of 'ok v' strings comparable with the impl's canonical form"""
    if resp == "none":
        return []
    assert resp.startswith("ok "), resp
    return ["ok " + v for v in resp[3:].split("|")]


# ---- fields of a datetime for a form
def fields_of(df, dt):
    """(year, a, b) the date form shows for the date of `dt`; None if the form cannot show it"""
    if df in (0, 1):
        return dt.year, dt.month, dt.day
    if df == 2:
        return dt.year, 1, 1
    if df == 3:
        return dt.year, dt.month, 1
    if df in (4, 5, 6, 7):
        ic = dt.isocalendar()
        if not (1 <= ic[0] <= 9999):
            return None
        return ic[0], ic[1], (ic[2] if df in (4, 5) else 1)
    return dt.year, dt.timetuple().tm_yday, 1


def date_shown(df, dt):
    """the date the form denotes when rendering `dt` (truncation to the form's precision)"""
    d = dt.date() if isinstance(dt, datetime.datetime) else dt
    if df == 2:
        return d.replace(month=1, day=1)
    if df == 3:
        return d.replace(day=1)
    if df in (6, 7):
        return d - datetime.timedelta(days=d.isoweekday() - 1)
    return d


def render_line(df, tf, of, sepbyte, year, a, b, hh, mm, ss, neg, oh, om, frac):
    return "iso.render %d %d %d %d %s %s" % (df, tf, of, sepbyte, vlib.ilist([year, a, b, hh, mm, ss, int(neg), oh, om]),
                                             vlib.ilist(frac))


def parse_render(resp):
    """'ok <hex> <lax> <strict> <denotation...>' -> (string bytes, lax, strict, 'ok <denotation>')"""
    parts = resp.split(" ", 4)
    assert parts[0] == "ok", resp
    raw = b"" if parts[1] == "." else bytes.fromhex(parts[1])
    return raw, parts[2] == "1", parts[3] == "1", "ok " + parts[4]


BOUNDARY_DATES = [
    (1, 1, 1), (1, 1, 7), (1, 12, 31), (2, 1, 1), (4, 2, 29), (99, 12, 31), (100, 3, 1), (400, 2, 29), (999, 12, 31), (1000, 1, 1),
    (1582, 10, 15), (1899, 12, 31), (1900, 2, 28), (1900, 3, 1), (1970, 1, 1), (1999, 12, 31), (2000, 1, 1),
    (2000, 2, 29), (2004, 12, 31), (2008, 12, 29), (2009, 12, 31), (2010, 1, 3), (2014, 12, 28), (2014, 12, 29),
    (2015, 12, 31), (2016, 1, 3), (2016, 2, 29), (2016, 12, 31), (2020, 12, 31), (2021, 1, 3), (2024, 12, 30),
    (2026, 12, 31), (2100, 2, 28), (4099, 12, 31), (9998, 12, 31), (9999, 1, 1), (9999, 1, 3), (9999, 12, 26),
    (9999, 12, 27), (9999, 12, 30), (9999, 12, 31),
]
BOUNDARY_TIMES = [
    (0, 0, 0, 0), (0, 0, 0, 1), (0, 0, 0, 999999), (0, 0, 59, 0), (0, 59, 0, 0), (23, 0, 0, 0), (23, 59, 59, 999999),
    (12, 0, 0, 0), (12, 30, 15, 500000), (1, 2, 3, 40506), (9, 9, 9, 9), (10, 10, 10, 100000), (23, 59, 59, 0),
    (0, 0, 0, 100), (19, 7, 0, 123456), (0, 0, 1, 0), (24 - 1, 0, 0, 10),
]


def gen_datetime(rng):
    r = rng.random()
    if r < 0.45:
        y, m, d = rng.choice(BOUNDARY_DATES)
        date = datetime.date(y, m, d)
    elif r < 0.6:
        y = rng.choice([1, 4, 100, 400, 1900, 2000, 2004, 2015, 2020, 2026, 9999, rng.randint(1, 9999)])
        m = rng.choice([1, 2, 12, rng.randint(1, 12)])
        d = rng.choice([1, calendar.monthrange(y, m)[1], rng.randint(1, calendar.monthrange(y, m)[1])])
        date = datetime.date(y, m, d)
    elif r < 0.75:
        # around ISO-year boundaries: last / first week of a year
        y = rng.randint(1, 9999)
        o = datetime.date(y, 1, 1).toordinal() + rng.randint(-7, 7)
        date = datetime.date.fromordinal(min(max(o, 1), 3652059))
    else:
        date = datetime.date.fromordinal(rng.randint(1, 3652059))
    if rng.random() < 0.6:
        h, mi, s, us = rng.choice(BOUNDARY_TIMES)
    else:
        h, mi, s = rng.randint(0, 23), rng.randint(0, 59), rng.randint(0, 59)
        us = rng.choice([0, rng.randint(0, 999999), rng.randint(0, 9) * 10 ** rng.randint(0, 5)])
    return datetime.datetime(date.year, date.month, date.day, h, mi, s, us)


def gen_offset(rng):
    """(neg, oh, om) in -23:59..+23:59, boundary biased"""
    r = rng.random()
    if r < 0.35:
        oh, om = rng.choice([(0, 0), (0, 1), (0, 59), (1, 0), (23, 59), (23, 0), (12, 0), (5, 30), (5, 45), (9, 0), (10, 0), (14, 0)])
    else:
        oh, om = rng.randint(0, 23), rng.randint(0, 59)
    return rng.random() < 0.5, oh, om


SEPARATORS = [84, 32, 116, 95, 45, 58, 90, 43, 87, 46, 44, 122, 47, 64, 0, 127, 65, 200, 10, 13, 9]   # ... é-range byte, LF, CR, TAB   # T space t _ - : Z + W . , z / @ NUL DEL A


def fingerprint():
    """normalised-AST fingerprint of the modelled module"""
    from dateutil.parser import isoparser as mod
    src = inspect.getsource(mod)
    tree = ast.parse(src)
    for node in ast.walk(tree):      # drop docstrings
        if isinstance(node, (ast.FunctionDef, ast.ClassDef, ast.Module)) and node.body and \
                isinstance(node.body[0], ast.Expr) and isinstance(getattr(node.body[0], "value", None), ast.Constant) \
                and isinstance(node.body[0].value.value, str):
            node.body = node.body[1:] or [ast.Pass()]
    return hashlib.sha256(ast.dump(tree).encode()).hexdigest()[:16]


# the fingerprint of the source the model was written against (escalates the budget when it differs)
MODEL_FINGERPRINT = "1168ac62751c2db6"


def check_fingerprint(ctx):
    """a changed source does not raise an alarm but escalates the run to the thorough budget"""
    fp = fingerprint()
    ctx.count("fingerprint_" + fp)
    if fp != MODEL_FINGERPRINT:
        ctx.escalated = True
        ctx.note("isoparser.py fingerprint %s differs from the one the model was written against (%s): thorough budget" % (fp, MODEL_FINGERPRINT))


# ---- mutation stream (C20; a sample of it is reused by C07 for the recognised => parsed direction)
ALPHABET = list("0123456789-:.,TWZz+ _") + ["t", "a", "/", "é", "\n"]
SHORT_ALPHABET = list("01259-:.TWZ+")


def one_edits(s, alphabet=ALPHABET):
    out = []
    n = len(s)
    for i in range(n):
        out.append(s[:i] + s[i + 1:])                       # delete
        for c in alphabet:
            if c != s[i]:
                out.append(s[:i] + c + s[i + 1:])           # substitute
    for i in range(n + 1):
        for c in alphabet:
            out.append(s[:i] + c + s[i:])                   # insert
    for i in range(n - 1):
        if s[i] != s[i + 1]:
            out.append(s[:i] + s[i + 1] + s[i] + s[i + 2:])  # transpose
    return out


def random_edit(s, rng, alphabet=ALPHABET):
    n = len(s)
    k = rng.randrange(4) if n >= 2 else rng.choice([1, 2]) if n else 2
    if k == 0:
        i = rng.randrange(n)
        return s[:i] + s[i + 1:]
    if k == 1:
        i = rng.randrange(n)
        return s[:i] + rng.choice(alphabet) + s[i + 1:]
    if k == 2:
        i = rng.randrange(n + 1)
        return s[:i] + rng.choice(alphabet) + s[i:]
    i = rng.randrange(n - 1)
    return s[:i] + s[i + 1] + s[i] + s[i + 2:]


# field sets the base strings are rendered from: (date, (hh, mm, ss), frac digits, (neg, oh, om))
BASE_FIELDS = [
    (datetime.date(2016, 11, 27), (23, 45, 16), [7, 8, 9, 0, 1, 2], (False, 10, 35)),
    (datetime.date(9999, 12, 30), (23, 59, 59), [9, 9, 9, 9, 9, 9, 9], (True, 23, 59)),
    (datetime.date(2020, 12, 31), (24, 0, 0), [0, 0, 0], (False, 0, 0)),     # 2020-W53-4, day 366, 24:00
    (datetime.date(1, 1, 1), (0, 0, 0), [1], (True, 0, 30)),
]
DATE_LEN = {0: 10, 1: 8, 2: 4, 3: 7, 4: 10, 5: 8, 6: 8, 7: 7, 8: 8, 9: 7}


def time_len(tf, k):
    return {0: 0, 1: 2, 2: 5, 3: 4, 4: 8, 5: 6}.get(tf, (9 if tf in (6, 7) else 7) + k)


def base_render_lines(sepbyte=84):
    """driver requests rendering every form for every BASE_FIELDS entry"""
    lines, meta = [], []
    for bi, (d, (hh, mm, ss), frac, (neg, oh, om)) in enumerate(BASE_FIELDS):
        for (df, tf, of) in all_forms():
            f = fields_of(df, d)
            lines.append(render_line(df, tf, of, sepbyte, f[0], f[1], f[2], hh, mm, ss, neg, oh, om, frac))
            meta.append((bi, df, tf, of, len(frac)))
    return lines, meta


# ---- the translated scanners (Generated/IsoKernels.lean, ops isogen.*) against the implementation
def _canon_comp(c):
    if c is None:
        return "-"
    if isinstance(c, int):
        return str(c)
    return canon_tz(c).replace(" ", ":")


def impl_idate(b):
    """isoparser._parse_isodate on bytes: 'ok y m d pos'"""
    try:
        comps, pos = get_parser(None)._parse_isodate(b)
        return "ok %s %d" % (" ".join(_canon_comp(c) for c in comps), pos)
    except Exception as ex:
        return canon_exc(ex)


def impl_itime(b):
    """isoparser._parse_isotime on bytes: 'ok h m s us tz' (raw components)"""
    try:
        return "ok " + " ".join(_canon_comp(c) for c in get_parser(None)._parse_isotime(b))
    except Exception as ex:
        return canon_exc(ex)


def impl_digits(b, w):
    import importlib
    mod = importlib.import_module("dateutil.parser.isoparser")
    try:
        return "ok %d" % mod._parse_digits(b, w)
    except Exception as ex:
        return canon_exc(ex)


def gen_requests(entry, sep, zero, kind, s):
    """(driver request for the translated function, implementation result) or None"""
    if entry == "isoparse":
        tok = {"str": "", "bytes": " b", "stream": " s", "bstream": " sb"}[kind.partition("@")[0]]
        return "isogen.parse %s %s%s" % (sep_arg(sep), vlib.hexs(s), tok), None
    try:
        b = s.encode("ascii") if isinstance(s, str) else s
    except UnicodeEncodeError:
        return None
    if entry == "tz":
        return "isogen.tz %d %s" % (int(zero), vlib.hexs(b)), impl_tz(b, zero, "bytes")
    if entry == "date":
        return "isogen.idate %s" % vlib.hexs(b), impl_idate(b)
    if entry == "time":
        return "isogen.itime %s" % vlib.hexs(b), impl_itime(b)
    return None


def validate_translation(ctx, items, impl_results):
    """items: (entry, sep, zero, kind, string); impl_results: the public entry's result per item.
    The generated functions must agree with the implementation on every item."""
    gen_report = (ctx.lean.gen_report.get("kernels") or {}).get("IsoKernels") or {}
    if not gen_report.get("ok"):
        ctx.note("IsoKernels not regenerated (%s): translated-function validation skipped" % gen_report.get("error"))
        return
    reqs, exp, tags = [], [], []
    for (entry, sep, zero, kind, s), r in zip(items, impl_results):
        g = gen_requests(entry, sep, zero, kind, s)
        if g is None:
            continue
        reqs.append(g[0]); exp.append(r if g[1] is None else g[1]); tags.append((entry, sep, zero, kind, s))
        # the translated bodies of the three public wrappers, on bytes (the decorator is hand-modelled)
        if entry not in ("date", "time", "tz"):
            continue
        b = s.encode("ascii") if isinstance(s, str) else s
        if entry == "date":
            reqs.append("isogen.edate %s" % vlib.hexs(b)); exp.append(impl_date(b, "bytes")); tags.append((entry, sep, zero, "bytes", s))
        elif entry == "time":
            e = impl_time(b, "bytes")
            if e.startswith("ok "):
                p = e.split(" ", 5)
                e = " ".join(p[:5] + [p[5].replace("naive", "-").replace(" ", ":")])
            reqs.append("isogen.etime %s" % vlib.hexs(b)); exp.append(e); tags.append((entry, sep, zero, "bytes", s))
        elif entry == "tz":
            reqs.append("isogen.etz %d %s" % (int(zero), vlib.hexs(b))); exp.append(impl_tz(b, zero, "bytes")); tags.append((entry, sep, zero, "bytes", s))
    # _parse_digits directly
    seen = set()
    for (entry, sep, zero, kind, s) in items:
        if isinstance(s, str) and s.isascii() and len(s) <= 6 and s not in seen:
            seen.add(s)
            for w in (1, 2, 3, 4):
                b = s.encode("ascii")
                reqs.append("isogen.digits %d %s" % (w, vlib.hexs(b))); exp.append(impl_digits(b, w))
                tags.append(("digits", None, True, "bytes", s))
    got = ctx.driver(reqs)
    for q, e, g, tag in zip(reqs, exp, got, tags):
        if e != g:
            ctx.mismatch(q.split()[0], {"entry": tag[0], "sep": tag[1], "zero_as_utc": tag[2], "kind": tag[3],
                                        "string": tag[4], "request": q}, e, g)
    ctx.traces += len(reqs)
    ctx.count("translator_validation_cases", len(reqs))


ALL_KINDS = ["str", "bytes", "stream", "bstream", "stream@7", "bstream@3", "stream@%d" % len(STREAM_PREFIX)]
WHITESPACE_VARIANTS = [lambda s: s + "\n", lambda s: "\n" + s, lambda s: " " + s, lambda s: s + " ", lambda s: s + "\r\n",
                       lambda s: s.replace("T", "\n", 1), lambda s: s.replace("T", "\r\n", 1), lambda s: "\t" + s + "\t"]


def kinds_agree(entry, s, sep=None, zero=True, kinds=ALL_KINDS):
    """the entry point's result for the same text through every input kind -> (dict kind->result, all equal?)
    (non-ASCII text: the byte kinds legitimately differ, they skip the ASCII gate)"""
    res = {k: entry_impl(entry, s, sep, zero, k) for k in kinds}
    ascii_only = (not isinstance(s, str)) or s.isascii()
    vals = set(res.values()) if ascii_only else \
        (set(v for k, v in res.items() if not is_bytes_kind(k)) | set()) 
    ok = len(vals) == 1
    if not ascii_only:
        ok = ok and len(set(v for k, v in res.items() if is_bytes_kind(k))) == 1
    return res, ok
