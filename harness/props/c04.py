"""C04 — every tzinfo converts UTC -> local -> UTC without loss."""
import os, io, time, datetime, warnings
import basecorr, zonelib as Z

PROP = "C04"
TRUSTED = [
    "Model/Zones.lean: tzfile lookups, fixed zones, RangeZone (tzrangebase), GenericZone/_tzinfo + the tzlocal instance are hand models of tz.py / _common.py, tied by tzfile.* / fixed.* / range.* / local.* correspondence ops",
    "datetime <-> whole seconds since the epoch is CPython arithmetic (modelled in Base, trusted); sub-second parts do not take part in any zone decision (probed with and without microseconds)",
    "tzstr / tzrange / tzical instances enter only through tzrangebase's / _tzinfo's code paths here: their rule parsing (transitions(year)) is tabulated from the implementation and belongs to C08/C17",
    "tzlocal depends on the C library's localtime(); modelled for POSIX-rule TZ settings only",
]
ASSUMPTIONS = [
    "offsets and derived dstoffsets are strictly within ±24 h (CPython raises ValueError from utcoffset()/dst() otherwise; not modelled)",
    "tzfile theorems need WF (Spec.wf): strictly increasing transitions whose set-backs do not overlap; the run reports how many real tables violate it (expected 0)",
    "instants at or after the last version-1 transition are required only when the last transition's type is the zone's ttinfo_std (14 real files end on a DST type; the code answers ttinfo_std there by design)",
    "range zones: theorem roundtrip_range_partial needs 0 < saving and instants whose wall-clock year equals their UTC year (tzrangebase looks transitions up by either); negative saving is the known finding D-C05r",
]
RULE = ("zones = tzfile (as C06: real database + synthetic shapes + random tables), tzutc, tzoffset incl. sub-minute, tzstr/tzrange/tzical "
        "instances, tzlocal under 5 TZ settings; instants = every transition ± {0, 1 s, 30 min, 1 h, 2 h, Δ, Δ±1} (and year ends for range zones); "
        "a case = (zone, UTC instant); non-trivial = inside the required domain (WF, before the last transition or standard tail)")

FIXED = [0, 3600, -18000, 19800, 1172, -1, 86399, -86399, 45296]


def tzfile_streams(ctx):
    syn = Z.synthetic_set(ctx, "c04-syn")
    if not (ctx.tier == "thorough" or ctx.escalated):
        # the 200..256-type / 250-byte-table shapes are decoder shapes (C06); their lookups add nothing here
        syn = [(n, d) for n, d in syn if not n.startswith(("syn:types_2", "syn:abbr_table_2"))]
    return [(n, d) for n, _, d in Z.pick_zones(ctx, "c04-zones")] + syn


def range_instances():
    from dateutil import tz
    from dateutil.relativedelta import relativedelta as rd, SU
    out = [("tzstr:" + s, tz.tzstr(s)) for s in Z.TZSTRS + Z.NEG_SAVING_TZSTRS]
    out.append(("tzrange:EST/EDT", tz.tzrange("EST", -18000, "EDT")))
    out.append(("tzrange:AEST/AEDT", tz.tzrange("AEST", 36000, "AEDT", 39600,
                                                rd(hours=+2, month=10, day=1, weekday=SU(+1)),
                                                rd(hours=+2, month=4, day=1, weekday=SU(+1)))))
    out.append(("tzrange:nodst", tz.tzrange("XST", 7200)))
    return out


class local_tz:
    def __init__(self, s):
        self.s = s
    def __enter__(self):
        self.old = os.environ.get("TZ")
        os.environ["TZ"] = self.s; time.tzset()
        from dateutil import tz
        return tz.tzlocal()
    def __exit__(self, *a):
        if self.old is None:
            os.environ.pop("TZ", None)
        else:
            os.environ["TZ"] = self.old
        time.tzset()


def correspondence(ctx):
    from dateutil import tz
    basecorr.run(ctx)
    reqs, exp, meta = [], [], []
    for name, data in tzfile_streams(ctx):
        z, line = Z.impl_load(data)
        if z is None:
            continue
        ups, wps = Z.probe_points(Z.Timeline(data))
        ups, wps = ups or [0, Z.T0], wps or [0, Z.T0]
        hx = Z.hexs(data)
        reqs.append("tzfile.fromutc %s %s" % (hx, Z.ilist(ups)))
        exp.append("ok " + " ".join(Z.impl_fromutc_line(z, t, us=(t % 2) * 500000) for t in ups)); meta.append((name, ups))
        reqs.append("tzfile.wall %s %s" % (hx, Z.ilist(wps)))
        exp.append("ok " + " ".join(Z.impl_wall_line(z, w, us=(w % 2) * 999999) for w in wps)); meta.append((name, wps))
    for o in FIXED:
        z = tz.tzutc() if o == 0 else tz.tzoffset("X", o)
        pts = [0, 1, -1, 86400 * 365, Z.T0, Z.T0 + 1800, -(2 ** 31)]
        reqs.append("fixed.fromutc %d %s" % (o, Z.ilist(pts)))
        exp.append("ok " + " ".join(Z.impl_fromutc_line(z, t, with_dst_name=False) for t in pts)); meta.append(("fixed%d" % o, pts))
        reqs.append("fixed.wall %d %s" % (o, Z.ilist(pts)))
        exp.append("ok " + " ".join(Z.impl_wall_line(z, t, with_dst_name=False) for t in pts)); meta.append(("fixed%d" % o, pts))
    for name, z in range_instances():
        years = Z.YEARS
        std, dst, has, tbl = Z.range_zone_params(z, range(min(years) - 1, max(years) + 2))
        ups, wps = Z.range_probes(z, years)
        ups += Z.year_edge_probes(years[1:4], (std, dst)); wps += Z.year_edge_probes(years[1:4], (0,))
        hdr = "%d %d %d %s" % (std, dst, has, Z.ilist(tbl))
        reqs.append("range.fromutc %s %s" % (hdr, Z.ilist(ups)))
        exp.append("ok " + " ".join(Z.impl_fromutc_line(z, t, with_dst_name=False) for t in ups)); meta.append((name, ups))
        reqs.append("range.wall %s %s" % (hdr, Z.ilist(wps)))
        exp.append("ok " + " ".join(Z.impl_wall_line(z, w, with_dst_name=False) for w in wps)); meta.append((name, wps))
    for s in Z.LOCAL_TZS:
        ref = tz.tzstr(s)
        years = Z.YEARS[1:]
        std, dst, has, tbl = Z.range_zone_params(ref, range(min(years) - 1, max(years) + 2))
        ups, wps = Z.range_probes(ref, years)
        hdr = "%d %d %d %s" % (std, dst, has, Z.ilist(tbl))
        with local_tz(s) as z:
            e1 = "ok " + " ".join(Z.impl_fromutc_line(z, t, with_dst_name=False) for t in ups)
            e2 = "ok " + " ".join(Z.impl_wall_line(z, w, with_dst_name=False) for w in wps)
        reqs.append("local.fromutc %s %s" % (hdr, Z.ilist(ups))); exp.append(e1); meta.append(("tzlocal:" + s, ups))
        reqs.append("local.wall %s %s" % (hdr, Z.ilist(wps))); exp.append(e2); meta.append(("tzlocal:" + s, wps))
    got = ctx.driver(reqs)
    for q, e, g, (name, pts) in zip(reqs, exp, got, meta):
        op = q.split()[0]
        ctx.count("corr:" + op, len(pts))
        if e != g:
            for p, a, b in Z.diff_lines(pts, e, g)[:3]:
                ctx.mismatch(op, {"zone": name, "point": p}, a, b)
        else:
            ctx.traces += len(pts)


def law(ctx, kind, name, z, ups, required=lambda t: True, inforce=None, extra=None, defer=None, us=0):
    """the round-trip law itself, on the implementation"""
    from dateutil import tz
    seen = {}
    for t in ups:
        case = {"kind": kind, "zone": name, "t": t}
        if us:
            case["us"] = us                      # the instant is t + us microseconds (review seed C04F)
        if extra:
            case.update(extra)
        req = required(t)
        try:
            u = (Z.EPOCH + Z.TD(seconds=t, microseconds=us)).replace(tzinfo=tz.UTC)
            w = u.astimezone(z)
            off = w.utcoffset()
            wall = Z.ts(w)
            back = w.astimezone(tz.UTC)
            prob = None
            if off != (w.replace(tzinfo=None) - u.replace(tzinfo=None)):
                prob = "utcoffset %s != wall - utc = %s" % (off, w.replace(tzinfo=None) - u.replace(tzinfo=None))
            elif back.replace(tzinfo=None) != u.replace(tzinfo=None):
                prob = "converting back gives %s" % back
            elif (wall, w.fold) in seen and seen[(wall, w.fold)] != t:
                prob = "instants %d and %d map to the same (wall, fold)" % (seen[(wall, w.fold)], t)
            elif inforce is not None:
                o, nm = inforce(t)
                if o is not None and (Z.secs(off) != str(o) or w.tzname() != nm):
                    prob = "offset/abbreviation %s/%s but %s/%s is in force" % (off, w.tzname(), o, nm)
            seen[(wall, w.fold)] = t
        except Exception as ex:
            prob = "raised %s: %s" % (type(ex).__name__, ex)
        if not req:
            ctx.case((name, t), nontrivial=False)
            ctx.count("not_required_ok" if prob is None else "not_required_fails")
            continue
        ctx.case((name, t, us)); ctx.count("law:" + kind + (":subsecond" if us else ""))
        if prob is not None:
            if defer is not None:
                defer.append(("%s: UTC %d -> local -> UTC: %s" % (name, t, prob), case, prob))
            else:
                Z.report(ctx, KNOWN, "%s: UTC %d -> local -> UTC: %s" % (name, t, prob), case, prob)


def oracle(ctx):
    from dateutil import tz
    nonwf_real = 0
    for name, data in tzfile_streams(ctx):
        z, line = Z.impl_load(data)
        if z is None:
            continue
        tl = Z.Timeline(data)
        ups, _ = Z.probe_points(tl)
        ups = ups or [0, Z.T0]
        wf = tl.wf()
        if not wf:
            ctx.count("streams_violating_WF")
            if not name.startswith(("syn", "rnd")):
                nonwf_real += 1; ctx.note("real zone violating WF: " + name)
        last = tl.utc[-1] if tl.utc else None
        std_tail = (not tl.utc) or (z._ttinfo_std is z._trans_idx[-1]) or (z._ttinfo_std == z._trans_idx[-1])
        if not std_tail:
            ctx.count("zones_ending_on_dst_type")
        type0 = bool(tl.utc) or tl.first == tl.types[0]      # no transition at all: the file's type 0 applies
        req = (lambda t, wf=wf, last=last, std_tail=std_tail, type0=type0: type0 and wf and (std_tail or t < last))
        def inforce(t, tl=tl):
            ty = tl.type_at(t)
            return ty[0], ty[2]
        law(ctx, "tzfile", name, z, ups, req, inforce if tl.utc else None,
            extra={"stream": Z.hexs(data)} if name.startswith(("syn", "rnd")) else None)
        # sub-second instants in the last second before and the first second after every transition
        # (before and after 1970): `_datetime_to_timestamp` must not round them across the transition
        sub = sorted({T + d for T in tl.utc for d in (-1, 0)})
        for usec in (1, 500000, 999999):
            law(ctx, "tzfile", name, z, sub, req, inforce if tl.utc else None,
                extra={"stream": Z.hexs(data)} if name.startswith(("syn", "rnd")) else None, us=usec)
    ctx.hist["real_zones_violating_WF"] = nonwf_real
    pts = [0, 1, -1, Z.T0, Z.T0 + 1799, 2 ** 31 - 1, -(2 ** 31), 86400 * 365 * 40]
    law(ctx, "tzutc", "tzutc", tz.tzutc(), pts, inforce=lambda t: (0, "UTC"))
    law(ctx, "tzutc", "tz.UTC", tz.UTC, pts)
    for o in FIXED + [-43200, 50400, 30, -59]:
        law(ctx, "tzoffset", "tzoffset(%d)" % o, tz.tzoffset("N%d" % o, o), pts, inforce=lambda t, o=o: (o, "N%d" % o))
        law(ctx, "tzoffset", "tzoffset(td %d)" % o, tz.tzoffset(None, datetime.timedelta(seconds=o)), pts)
    for name, z in range_instances():
        ups, _ = Z.range_probes(z, Z.YEARS)
        std, dst = int(z._std_offset.total_seconds()), int(z._dst_offset.total_seconds())
        ups += Z.year_edge_probes(Z.YEARS[1:4], (std, dst))
        pending = []
        law(ctx, "range", name, z, ups, extra={"near_year_edge": Z.near_year_edge(z, Z.YEARS)}, defer=pending)
        if pending:
            # a failure is a KNOWN finding only if the Lean model of tzrangebase gives the same (wrong)
            # answer at that instant AND the instant lies where the recorded defect lives
            std_, dst_, has_, tbl_ = Z.range_zone_params(z, range(min(Z.YEARS) - 1, max(Z.YEARS) + 2))
            ts_ = [c["t"] for _, c, _ in pending]
            got = ctx.driver(["range.fromutc %d %d %d %s %s" % (std_, dst_, has_, Z.ilist(tbl_), Z.ilist(ts_))])[0].split()[1:]
            for (what, case, prob), g in zip(pending, got):
                case.update(Z.range_case_fields(z, case["t"]))
                case["model_same"] = (g == Z.impl_fromutc_line(z, case["t"], with_dst_name=False))
                Z.report(ctx, KNOWN, what, case, prob)
        law(ctx, "range", name, z, ups[::2], extra={"near_year_edge": False, "hasdst": None}, us=500000) \
            if not Z.near_year_edge(z, Z.YEARS) and int(z._dst_offset.total_seconds()) >= int(z._std_offset.total_seconds()) else None
    # tzrange built from a tzstr zone's abbreviations, offsets and deltas: equal (__eq__, six fields)
    # and identical answers (model: C08.tzrange_eq_tzstr)
    for sname in Z.TZSTRS:
        zs = tz.tzstr(sname)
        if not zs.hasdst:
            continue
        zr = tz.tzrange(zs._std_abbr, zs._std_offset, zs._dst_abbr, zs._dst_offset, zs._start_delta, zs._end_delta)
        ups, wps = Z.range_probes(zs, Z.YEARS)
        same = (zr == zs) and (zs == zr) and not (zr != zs) and zr.hasdst == zs.hasdst \
            and [Z.impl_fromutc_line(zr, t) for t in ups] == [Z.impl_fromutc_line(zs, t) for t in ups] \
            and [Z.impl_wall_line(zr, w) for w in wps[::7]] == [Z.impl_wall_line(zs, w) for w in wps[::7]]
        ctx.case(("tzrange_eq_tzstr", sname)); ctx.count("tzrange_eq_tzstr")
        if not same:
            ctx.violation("tzrange built from the fields of tzstr(%r) is not equal / answers differently" % sname,
                          {"kind": "tzrange_eq", "zone": sname}, None)
    with warnings.catch_warnings():
        warnings.simplefilter("ignore")
        ical = tz.tzical(io.StringIO(Z.VTZ)).get()
    ref = tz.tzstr("EST5EDT,M4.1.0,M10.5.0")
    ups, _ = Z.range_probes(ref, [1990, 2000, 2003, 2020])
    law(ctx, "tzical", "tzical:US-Eastern", ical, ups)
    # tzical zones with finite rules (UNTIL, COUNT), RDATE lists and several eras; non-monotone query
    # histories on ONE zone object against a fresh object per query (history independence; seed C04G)
    for vname, text in Z.FINITE_VTZS:
        shared = Z.load_vtz(text)
        onsets = Z.vtz_onsets_utc(Z.load_vtz(text))
        pts = [t + d for t in onsets for d in (-1, 0, 1, -3600, 3600)]
        rng = ctx.subrng("c04-vtz-" + vname)
        order = list(pts); rng.shuffle(order)
        history = [Z.ts(datetime.datetime(2020, 6, 1, 12))] + order + sorted(pts, reverse=True)[:40] + sorted(pts)[:40]
        for t in history:
            got = Z.impl_fromutc_line(shared, t)
            ref = Z.impl_fromutc_line(Z.load_vtz(text), t)
            ctx.case(("tzical-history", vname, t)); ctx.count("law:tzical-history")
            if got != ref:
                Z.report(ctx, KNOWN, "tzical:%s UTC %d: the zone object answers %s after earlier queries, a fresh object answers %s"
                         % (vname, t, got, ref), {"kind": "tzical-history", "zone": vname, "t": t}, {"shared": got, "fresh": ref})
        law(ctx, "tzical", "tzical:" + vname, shared, sorted(set(pts)))
        law(ctx, "tzical", "tzical:" + vname + "(fresh)", Z.load_vtz(text), sorted(set(pts)))
    for s in Z.LOCAL_TZS + ["Europe/London", "Australia/Lord_Howe"]:
        if os.path.isfile(os.path.join(Z.ROOT, s)):
            data = open(os.path.join(Z.ROOT, s), "rb").read()
            ups, _ = Z.probe_points(Z.Timeline(data))
            ups = [t for t in ups if t > 0][-600:]
        else:
            ups, _ = Z.range_probes(tz.tzstr(s), Z.YEARS[1:])
        with local_tz(s) as z:
            law(ctx, "tzlocal", "tzlocal:" + s, z, ups)
            law(ctx, "tzlocal", "tzlocal:" + s, z, ups[::3], us=999999)
    assert os.environ.get("TZ") == "UTC"
    ctx.sample({"zone": "Europe/Dublin", "t": 1445736600,
                "impl": Z.impl_fromutc_line(tz.gettz("Europe/Dublin"), 1445736600)})
    ctx.sample({"zone": "tzoffset(1172)", "t": 0, "impl": Z.impl_fromutc_line(tz.tzoffset("LMT", 1172), 0)})


KNOWN = {"D-C05r": Z.k_c05r, "D-C04y": Z.k_c04y}


def replay(ctx, payload):
    from dateutil import tz
    c = payload["violation"]["case"]
    if c["kind"] == "tzfile":
        data = bytes.fromhex(c["stream"]) if c.get("stream") else open(os.path.join(Z.ROOT, c["zone"]), "rb").read()
        z = tz.tzfile(io.BytesIO(data))
    elif c["kind"] == "range" and c["zone"].startswith("tzstr:"):
        z = tz.tzstr(c["zone"][6:])
    elif c["kind"] == "tzoffset":
        z = tz.tzoffset(None, int(c["zone"].split("(")[1].split(")")[0].split()[-1]))
    else:
        print("replay supports tzfile / tzstr / tzoffset cases"); return False
    t = c["t"]
    u = (Z.EPOCH + Z.TD(seconds=t, microseconds=c.get("us", 0))).replace(tzinfo=tz.UTC)
    w = u.astimezone(z)
    ok = w.utcoffset() == (w.replace(tzinfo=None) - u.replace(tzinfo=None)) and w.astimezone(tz.UTC) == u
    print("zone=%s t=%d -> %s fold=%d utcoffset=%s back=%s" % (c["zone"], t, w.replace(tzinfo=None), w.fold, w.utcoffset(), w.astimezone(tz.UTC)))
    return ok


# --- appended by the translator tie (wt-iso): the tz lookup functions re-translated from tz/tz.py and tz/_common.py
# (Generated/TzKernels.lean, ops tzgen.*) are compared with the implementation's methods on every run
_correspondence_without_tzgen = correspondence


def correspondence(ctx):
    _correspondence_without_tzgen(ctx)
    import tzgenlib
    tzgenlib.validate(ctx)

TRUSTED = TRUSTED + [
    "translator tie: harness/translate_dt.py (DtPy) re-translates tzfile._find_last_transition/_get_ttinfo/_find_ttinfo/_resolve_ambiguous_time/_offset_before/is_ambiguous/fromutc/utcoffset/dst/tzname, _datetime_to_timestamp and tzrangebase._dst_base_offset/_naive_isdst/is_ambiguous/_isdst/utcoffset/dst/tzname/fromutc from /repo on every run into Generated/TzKernels.lean; Proofs/TzGenEq*.lean prove each equal to the function of Model/Zones.lean (for datetimes with microseconds; tzfile: on every coherent zone, i.e. build of a WF table with a transition), Properties/TzGen.lean lists the obligations gen_eq_model_* and the `_gen` twins in the audit; a behaviour-changing edit breaks the translation or a named obligation",
    "named primitives of the DtPy translator (Model/DtPy.lean), trusted with their documented meaning and exercised by the tzgen.* validation against the implementation's methods on every run: a datetime as (microseconds of the naive reading, fold, tzinfo-is-self), datetime +/- timedelta resets fold, timedelta.total_seconds() as an exact number (float rounding not modelled), int() truncation, bisect.bisect_right as its loop, list indexing with IndexError, attribute of None as AttributeError, unpacking None as TypeError, OverflowError of datetime arithmetic not modelled, `dt is None` tests on datetime parameters statically false; in the `_tzinfo` base-class functions `dt.utcoffset()`/`dt.dst()` are the zone's abstract offset functions applied to (wall seconds, fold) and `self.is_ambiguous(dt)` is dynamic dispatch (DtPy.dispatchAmbiguous: a subclass override if the GenericZone has one, else the translated base method)",
]

# --- appended by the translator tie (wt-iso), tzlocal: _naive_is_dst/is_ambiguous/_isdst/utcoffset/dst/tzname are re-translated
# (Generated/TzObjKernels.lean) and compared with a real tz.tzlocal() under TZ settings (op tzgen.local.wall, in tzgenlib.validate)
TRUSTED = TRUSTED + [
    "tzlocal translator tie: `time.localtime(u).tm_isdst` and `time.timezone` are named primitives (Model/ObjPy.lean: localtimeIsdst = the zone model's yearly-rule predicate localNaiveIsdst at u + stdoffset with the fraction floored, timeTimezone = -stdoffset); `getattr(dt, 'fold', None)` is the fold (Python >= 3.6); exercised against tz.tzlocal() under several TZ settings on every run",
]
TRUSTED = TRUSTED + [
    "the `@_validate_fromutc_inputs` decorator is re-translated too (its inner function, the wrapped method as a parameter; `isinstance(dt, datetime)` statically true) and validated through the public fromutc of range zones on attached / foreign / naive datetimes (op tzgen.range.fromutc_pub)",
]


# --- C04 last clause for tzical zones (wt-tzrule): the reported offset is the one WRITTEN in the definition for the component in force
# (negative non-whole-hour and with-seconds TZOFFSETFROM/TZOFFSETTO values; expected values never pass through tzical._parse_offset)
_oracle_without_ical_stated = oracle
_replay_without_ical_stated = replay


def oracle(ctx):
    _oracle_without_ical_stated(ctx)
    import tzshared
    tzshared.ical_stated_offsets(ctx)


def replay(ctx, payload):
    if payload["violation"]["case"].get("kind") == "ical-stated-offset" and payload["violation"]["case"].get("phase") == "lookup":
        import tzshared
        return tzshared.replay_ical_stated(payload)
    return _replay_without_ical_stated(ctx, payload)
# --- end of the appended block


# --- translator tie for tzutc / tzoffset (wt-tzfile): their methods and tzoffset.__init__ are re-translated from tz/tz.py on every run
# (harness/translate_tzhelp.py -> Generated/TzFixedKernels.lean; obligations in Properties/TzFixedGen.lean) and validated by tzhelp.fixed / tzhelp.utc
_correspondence_without_tzfixed = correspondence


def correspondence(ctx):
    _correspondence_without_tzfixed(ctx)
    import tzhelplib
    tzhelplib.validate_fixed(ctx)


# --- tzical zones built from ONE-OFF components (wt-tzfile, seeded C04J): DTSTART-only and DTSTART + RDATE components (harness/icaloneoff.py)
_oracle_without_ical_one_off = oracle
_replay_without_ical_one_off = replay


def oracle(ctx):
    _oracle_without_ical_one_off(ctx)
    import icaloneoff
    icaloneoff.oracle(ctx)


def replay(ctx, payload):
    if payload["violation"]["case"].get("kind") == "ical-one-off":
        import icaloneoff
        return icaloneoff.replay(payload)
    return _replay_without_ical_one_off(ctx, payload)
