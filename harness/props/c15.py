"""C15 — parse() options: default fill-in, time-zone resolution and fuzzy modes."""
import calendar, datetime, warnings
import basecorr
from props import _parser_lib as L, _parser_gen as G

PROP = "C15"
TRUSTED = [
    "Model/Parser.lean (_build_naive, _build_tzaware, _assign_tzname, fuzzy skipping, _recombine_skipped) tied by the parser.parse "
    "correspondence on partial texts x defaults x zone texts x tzinfos forms x TZ settings x filler words",
    "the zone of a result is compared as a descriptor (naive / warning / tz.UTC / tzoffset(name, seconds) / tzlocal + fold / "
    "the tzinfos object + fold / tzstr(text) + fold); the names tzlocal()/the tzinfos object report for the wall time are read "
    "from the real objects and fed to the model's _assign_tzname (parser.assign / parser.localfinal ops)",
    "oracle specs: expected_naive() below (default.replace + month-end clip + forward weekday shift, written from the property "
    "text) and the Lean cascade buildTzaware/localFinal through the parser.tzcascade op (the functions the C15 row theorems are about)",
]
ASSUMPTIONS = [
    "process zone changed only through os.environ['TZ'] + time.tzset() and restored",
    "tzinfos callables are pure functions of (name, offset)",
    "UnknownTimezoneWarning is observed through warnings.catch_warnings(record=True)",
    "default= is a datetime.datetime, naive (10 values) or AWARE (4 values, ~10 % of the calls): the wall-time clauses are checked "
    "on the default's wall time; the zone clauses on the Lean finalTz (parser.finaltz op): a text without zone information keeps the "
    "default's tzinfo object, ignoretz=True / an unknown abbreviation / a tzinfos entry None give tzinfo None for EVERY default "
    "(D-C15-aware-default-kept is repaired; the stream stays as a regression stream).  default=datetime.date(...) is outside the "
    "documented type ('the default datetime object'): "
    "observed each run (TypeError when the text names a time field, a date object otherwise), reported in the histograms, not judged",
    "a tzinfos value that is a MALFORMED TZ string (or a callable raising ValueError) is not 'a TZ string' in the sense of this "
    "property: such calls are generated, must raise ParserError exactly when the Lean model (C08's tz.tzstr model inside the parser "
    "model) does, and are counted (tzinfos_malformed_value_calls)",
    "a failing oracle case is KNOWN only if the implementation's answer equals the Lean model's answer on it and the observed "
    "result is exactly the listed symptom; anything else inside a known class is a VIOLATION",
]
RULE_SENTENCES = ("sentence stream: 17 templates x boundary datetimes x 0-5 filler words in front x 0-4 behind (words accepted by the Lean "
                  "predicate PM.fillerWord), 10 defaults; ")
RULE = RULE_SENTENCES + ("partial texts built from a KNOWN set of fields (20 shapes: time only, month only, month+year, weekday only, weekday+time, "
        "weekday+month, h/m/s units, MM/DD, day only, full date ...) x 10 defaults incl. day 29/30/31, Feb 29, 0001-01-01, "
        "9999-12-31 x 38 zone texts x 12 tzinfos forms x 9 TZ settings x fuzzy fillers; distinct = distinct (text, options, TZ); "
        "non-trivial = a datetime was returned and compared with the specification")


# ----------------------------------------------------------------------------- structured partial texts
def partial(rng):
    """(text, fields, weekday): a text naming exactly `fields` (and possibly a bare weekday)"""
    y = rng.choice([100, 999, 1000, 1999, 2000, 2003, 2024, 2100, 9999, rng.randint(100, 9999)])
    mo = rng.randint(1, 12)
    dim = calendar.monthrange(y, mo)[1]
    dd = rng.choice([1, 13, 28, dim, rng.randint(1, dim)])
    hh = rng.choice([0, 11, 12, 13, 23, rng.randint(0, 23)]); mi = rng.choice([0, 59, rng.randint(0, 59)])
    ss = rng.choice([0, 59, rng.randint(0, 59)]); us = rng.choice([0, 1, 999999, 500000, rng.randint(0, 999999)])
    wd = rng.randint(0, 6)
    k = rng.randint(0, 19)
    if k == 0: return '%02d:%02d' % (hh, mi), dict(hour=hh, minute=mi), None
    if k == 1: return '%02d:%02d:%02d' % (hh, mi, ss), dict(hour=hh, minute=mi, second=ss, microsecond=0), None   # `_parsems` names both
    if k == 2: return '%02d:%02d:%02d.%06d' % (hh, mi, ss, us), dict(hour=hh, minute=mi, second=ss, microsecond=us), None
    if k == 3: return '%d %s' % (G.h12(hh), G.ap(hh)), dict(hour=hh), None
    if k == 4: return G.MON[mo - 1], dict(month=mo), None
    if k == 5: return '%s %04d' % (G.MONL[mo - 1], y), dict(month=mo, year=y), None
    if k == 6: return '%s %d' % (G.MON[mo - 1], min(dd, 29 if mo == 2 else dd)), dict(month=mo, day=min(dd, 29 if mo == 2 else dd)), None
    if k == 7: return '%04d' % y, dict(year=y), None
    if k == 8: return '%04d-%02d' % (y, mo), dict(year=y, month=mo), None
    if k == 9: return G.WDL[wd], {}, wd
    if k == 10: return G.WD[wd], {}, wd
    if k == 11: return '%s %02d:%02d' % (G.WD[wd], hh, mi), dict(hour=hh, minute=mi), wd
    if k == 12: return '%s %s' % (G.WDL[wd], G.MON[mo - 1]), dict(month=mo), wd
    if k == 13: return '%dh' % hh, dict(hour=hh), None
    if k == 14: return '%dm %ds' % (mi, ss), dict(minute=mi, second=ss, microsecond=0), None
    if k == 15: return '%02d.%06ds' % (ss, us), dict(second=ss, microsecond=us), None   # 2-digit seconds: an 8-character 'S.ffffff' is read as YYYYMMDD
    if k == 16: return '%02d/%02d' % (mo, min(dd, 29 if mo == 2 else dd)), dict(month=mo, day=min(dd, 29 if mo == 2 else dd)), None
    if k == 17: return '%d' % min(dd, 28), dict(day=min(dd, 28)), None
    if k == 18: return '%04d-%02d-%02d' % (y, mo, dd), dict(year=y, month=mo, day=dd), None
    return '%04d-%02d-%02d %s %02dh' % (y, mo, dd, G.WD[wd], hh), dict(year=y, month=mo, day=dd, hour=hh), wd


def expected_naive(default, fields, weekday):
    """the property's statement of the fill-in; None = construction impossible (ParserError / OverflowError expected)"""
    default = default.replace(tzinfo=None)          # the wall-time part; what happens to an aware default's zone is clause (c)/(d)
    repl = dict(fields)
    if 'day' not in repl:
        y = repl.get('year', default.year); m = repl.get('month', default.month)
        dim = calendar.monthrange(y, m)[1]
        if default.day > dim:
            repl['day'] = dim
    try:
        base = default.replace(**repl)
    except ValueError:
        return "err ParserError"
    if weekday is not None and 'day' not in fields:
        try:
            base = base + datetime.timedelta(days=(weekday - base.weekday()) % 7)
        except OverflowError:
            return "err OverflowError"
    return base


# zone texts with the (name, offset) pair the text MEANS (after the documented UTC-alias rules), or None when the
# text is not a well-formed zone designation
ZONES = [
    ('', (None, None)), (' UTC', ('UTC', 0)), (' GMT', ('GMT', 0)), (' Z', ('UTC', 0)), ('Z', ('UTC', 0)), (' z', ('UTC', 0)),
    (' EST', ('EST', None)), (' EDT', ('EDT', None)), (' BST', ('BST', None)), (' CET', ('CET', None)), (' CEST', ('CEST', None)),
    (' IST', ('IST', None)), (' BRST', ('BRST', None)), (' MSK', ('MSK', None)), (' ABCDE', ('ABCDE', None)), (' JST', ('JST', None)),
    (' +0000', ('UTC', 0)), (' -00:00', ('UTC', 0)), (' +03', (None, 10800)), (' -0330', (None, -12600)), (' +05:30', (None, 19800)),
    (' +23:59', (None, 86340)), (' -2359', (None, -86340)), ('+0100', (None, 3600)), ('-03:00', (None, -10800)),
    # "GMT+3" = my time + 3 h is GMT = three hours BEHIND
    (' GMT+3', (None, -10800)), (' GMT-3', (None, 10800)), (' UTC+01:30', (None, -5400)), (' UTC-0530', (None, 19800)),
    (' BRST+3', ('BRST', -10800)), (' EST-5', ('EST', 18000)), (' GMT+0', ('UTC', 0)), (' UTC-0', ('UTC', 0)),
    (' -0300 (BRST)', ('BRST', -10800)), (' +0100 (CET)', ('CET', 3600)), (' +0000 (GMT)', ('GMT', 0)), (' -0500 (EST)', ('EST', -18000)),
    (' +0100 (BST)', ('BST', 3600)),
]


def tzcascade_requests(ctx, items):
    """expected zone descriptors from the Lean cascade (`finalTz`: ignoretz, then buildTzaware) for
    (tzspec, name, off, naive datetime, ignoretz) under the current TZ; `dflt` = the tzinfo of default= is kept"""
    import time
    from dateutil import tz
    tzn = ";".join(L.cps(n) for n in time.tzname)
    first = ctx.driver(["parser.finaltz %d %s %s %s %s" % (int(ig), tzn, spec.wire(), L.optname(name), ("-" if off is None else str(off)))
                        for spec, name, off, _, ig in items])
    out = list(first)
    second, where = [], []
    for i, ((spec, name, off, naive, _ig), r) in enumerate(zip(items, first)):
        if r.startswith("ok local "):
            z = tz.tzlocal()
            nm_, tzoff = r[9:].split(" ")
            try:
                a0, a1 = naive.replace(tzinfo=z), naive.replace(tzinfo=z, fold=1)
                second.append("parser.localfinal %s %s %s %s %s %s" % (L.optname(a0.tzname()), L.optname(a1.tzname()),
                                                                      L._secs(a0.utcoffset()), L._secs(a1.utcoffset()), nm_, tzoff))
            except OverflowError:
                out[i] = "err OverflowError"     # the zone object's own overflow at the edge of the calendar
                continue
            where.append((i, naive))
        elif r.startswith("ok tzi "):
            data, nm = r[7:].split(" ")
            if data == "n":
                out[i] = "ok none"               # tzinfos said None: replace(tzinfo=None), naive whatever the default is
                continue
            if data[0] == "o":
                k = int(data[1:]); z = L.tzobjs()[k]; lab = "obj %d" % k
            else:
                # TZ string: names from the Lean model of tz.tzstr (parser.assignstr), not from the implementation's object
                second.append("parser.assignstr %s [%d,%d,%d,%d,%d,%d,%d] %s" % (data[1:], naive.year, naive.month, naive.day,
                              naive.hour, naive.minute, naive.second, naive.microsecond, nm))
                where.append((i, "str %s" % data[1:]))
                continue
            try:
                second.append("parser.assign %s %s %s" % (L.optname(naive.replace(tzinfo=z).tzname()),
                                                         L.optname(naive.replace(tzinfo=z, fold=1).tzname()), nm))
            except OverflowError:
                out[i] = "err OverflowError"
                continue
            where.append((i, lab))
    if second:
        for (i, lab), r in zip(where, ctx.driver(second)):
            if r.startswith("err "):
                out[i] = r
            elif isinstance(lab, datetime.datetime):      # process zone: "utc" | "local f" -> what a tzlocal built now says
                out[i] = "ok " + (L.local_desc(lab, int(r.split()[2])) if r.startswith("ok local ") else r[3:])
            else:
                out[i] = "ok %s %s" % (lab, r[3:])
    return out


def gen_calls(ctx, rng, n):
    """(call, meta) pairs; meta = (fields, weekday, zone pair) or None for free-form texts"""
    out = []
    for _ in range(n):
        text, fields, wd = partial(rng)
        r = rng.random()
        zt, zp = ('', (None, None))
        if 'hour' in fields and r < 0.7:
            zt, zp = rng.choice(ZONES)
            if zt and not zt.startswith(' ') and text[-1:].isalpha():
                zt = ' ' + zt
        c = G.options(rng, text + zt, allow_custom=False)
        c.default = G.pick_default(rng, 0.1)
        c.fuzzy = c.fwt = False
        c.dayfirst = c.yearfirst = None
        c.info = None
        out.append((c, (fields, wd, zp)))
    return out


def sentence(rng, text, parts=None):
    pre = " ".join(rng.choice(G.FILLER) for _ in range(rng.randint(0, 3)))
    post = " ".join(rng.choice(G.FILLER) for _ in range(rng.randint(0, 3)))
    if parts is not None:
        parts.extend([pre, post])
    return (pre + " " if pre else "") + text + (" " + post if post else "")


TZ_NAMED = ["UTC+3", "GMT-2", "UTC0", "XXX0UTC,M3.5.0,M10.5.0"]     # zones CALLED UTC / GMT by a POSIX string, at any offset


SENTENCE_WORDS = sorted({w for f in G.FILLER for w in f.split()} | {
    "Today", "meeting", "approximately", "sharp", "exactly", "hello", "World", "Zulu", "x", "ok", "inf", "nan", "infinity", "EST", "at",
    "on", "T", "am", "Monday", "of", "and", "Sept", "h", "UTC", "z", "a", "pm", "around", "room", "Date", "ABCDEF", "mon", "sec"})


def oracle_sentences(ctx, rng, year_now):
    """'Fuzzy parsing of a sentence containing one date returns that date; fuzzy_with_tokens returns the same datetime together
    with the skipped text in order' — on the class the sentence theorems are about (C15.sentence_templates_have_theorems): filler
    words the LEAN predicate PM.fillerWord accepts (parser.filler op), each followed by a space; one rendering of a template in
    PT.sentenceTemplates (parser.sentences op); filler words, each after a space.  The Lean text of every sentence
    (parser.sentence op) is compared with the oracle's; then on the implementation: fuzzy = fuzzy_with_tokens[0] = the strict parse
    of the rendering alone, and the tokens, read one after the other, start with the words in front, end with the words behind and
    are a subsequence of the sentence."""
    ids = [i for i in ctx.driver(["parser.sentences"])[0][3:].split(",") if i in G.T]
    flags = ctx.driver(["parser.filler " + ";".join(L.cps(w) for w in SENTENCE_WORDS)])[0][3:]
    fill = [w for w, f in zip(SENTENCE_WORDS, flags) if f == "1"]
    ctx.hist["sentence_templates"] = ", ".join(ids)
    ctx.hist["sentence_filler_words_accepted"] = " ".join(fill)
    ctx.hist["sentence_filler_words_rejected_by_the_class"] = " ".join(w for w, f in zip(SENTENCE_WORDS, flags) if f != "1")
    if not ids or len(fill) < 5:
        ctx.mismatch("parser.sentences", "sentence class", "ids=%d filler=%d" % (len(ids), len(fill)), "expected 17 ids and a non-trivial class")
        return
    cases = []
    for _ in range(ctx.budget(700, 7000)):
        t = G.T[rng.choice(ids)]
        d = G.boundary_dt(rng, rng.randint(year_now - 50, year_now + 49) if t['yy'] else None)
        if t['ydec'] and d.year < 100:
            continue                                    # the month-name theorems need year >= 100 (D-C02-monthname-century)
        lead = [rng.choice(fill) for _ in range(rng.choice([0, 0, 1, 2, 3, 5]))]
        trail = [rng.choice(fill) for _ in range(rng.choice([0, 1, 1, 2, 4]))]
        cases.append((t, d, lead, trail))
    lean = ctx.driver(["parser.sentence %s [%d,%d,%d,%d,%d,%d,%d] %s %s" % (
        t['name'], d.year, d.month, d.day, d.hour, d.minute, d.second, d.microsecond,
        ";".join(L.cps(w) for w in lead) or "-", ";".join(L.cps(w) for w in trail) or "-") for t, d, lead, trail in cases])
    for (t, d, lead, trail), lt in zip(cases, lean):
        inner = G.render(t, d, None)
        front = "".join(w + " " for w in lead); back = "".join(" " + w for w in trail)
        text = front + inner + back
        if lt != "ok " + L.cps(text):
            ctx.mismatch("parser.sentence", {"template": t['name'], "datetime": d.isoformat(), "lead": lead, "trail": trail}, L.cps(text), lt)
            continue
        dflt = rng.choice(G.DEFAULTS)
        kw = dict(default=dflt, dayfirst=t['flags'].get('dayfirst'), yearfirst=t['flags'].get('yearfirst'))
        strict, _, _ = L.run_impl(L.Call(inner, **kw))
        fz, _, _ = L.run_impl(L.Call(text, fuzzy=True, **kw))
        ft, _, rt = L.run_impl(L.Call(text, fwt=True, **kw), raw=True)
        ctx.case(("sentence", t['name'], text, dflt.isoformat()), nontrivial=strict.startswith("ok "))
        ctx.count("sentence_cases")
        ctx.count("sentence_lead_%d_trail_%d" % (min(len(lead), 3), min(len(trail), 3)))
        case = L.Call(text, fuzzy=True, **kw).describe()
        case.update({"template": t['name'], "date": inner, "lead": lead, "trail": trail})
        if not strict.startswith("ok "):
            ctx.violation("the rendering alone must parse (C02)", case, {"strict": strict})
            continue
        if fz != strict:
            ctx.violation("fuzzy parse of a sentence containing one date must return that date", case, {"date": inner, "strict": strict, "fuzzy": fz})
        if not ft.startswith("ok ") or ft.split(" | ")[:2] != strict.split(" | ")[:2]:
            ctx.violation("fuzzy_with_tokens must return the same datetime as the date alone", case, {"strict": strict, "with_tokens": ft})
            continue
        joined = "".join(rt[1])
        pos, sub = 0, True
        for ch in joined:
            j = text.find(ch, pos)
            if j < 0:
                sub = False
                break
            pos = j + 1
        if not (joined.startswith(front) and joined.endswith(back) and sub):
            ctx.violation("fuzzy_with_tokens: the skipped text (every filler word, in order) must come back", case,
                          {"tokens": list(rt[1]), "front": front, "back": back})


def correspondence(ctx):
    basecorr.run(ctx)
    rng = ctx.subrng("corr")
    prev = L.set_tz("UTC")
    try:
        envs = (G.TZ_ENVS + TZ_NAMED) if ctx.budget(0, 1) else ["UTC", "America/New_York", "Europe/London", "Australia/Lord_Howe",
                                                                  "UTC+3", "XXX0UTC,M3.5.0,M10.5.0"]
        for tzenv in envs:
            L.set_tz(tzenv)
            named = tzenv in TZ_NAMED               # a zone merely CALLED UTC / GMT: the local_zero_offset rows of localFinal
            calls = [c for c, _ in gen_calls(ctx, rng, ctx.budget(800 if named else 2500, 6000 if named else 20000))]
            # fuzzy variants and free-form zone texts
            for _ in range(ctx.budget(400 if named else 1500, 3000 if named else 12000)):
                text, _, _ = partial(rng)
                t = sentence(rng, text + rng.choice(G.TZ_TEXT))
                c = G.options(rng, t, allow_custom=rng.random() < 0.2)
                c.fuzzy = rng.random() < 0.7
                calls.append(c)
            model = L.model_answers(ctx, calls)
            for c, m in zip(calls, model):
                i, _, _ = L.run_impl(c)
                ctx.count("corr_" + ("err" if i.startswith("err") else "ok"))
                if i != m:
                    ctx.mismatch("parser.parse", c.describe(), i, m)
            ctx.traces += len(calls)
    finally:
        L.set_tz(prev)



def two_markers(case):
    """D-C15 class: at least two AM/PM words after an hour (decidable on the text, stock tables)"""
    from dateutil.parser import _parser
    info = _parser.parserinfo()
    toks = _parser._timelex.split(case["text"])
    n = 0
    seen_digit = False
    for t in toks:
        if t[:1].isdigit():
            seen_digit = True
        elif seen_digit and info.ampm(t) is not None:
            n += 1
    return n >= 2


def second_marker_exact(case, strict, fuzzy, model_strict, model_fuzzy):
    """exactly D-C15-second-ampm-marker: the model says the same as the implementation in both modes, the text has a second
    AM/PM word after an hour, and the two results differ in nothing but the hour, by the 12 h the second marker explains"""
    if strict != model_strict or fuzzy != model_fuzzy or not two_markers(case):
        return False
    if not (strict.startswith("ok ") and fuzzy.startswith("ok ")):
        return False
    a, b = strict.split(" | "), fuzzy.split(" | ")
    fa, fb = a[0].split()[1:], b[0].split()[1:]
    if a[1:] != b[1:] or fa[:3] != fb[:3] or fa[4:] != fb[4:]:
        return False
    return (int(fa[3]) - int(fb[3])) % 24 == 12


def oracle(ctx):
    from dateutil import parser as P, tz
    rng = ctx.subrng("oracle")
    prev = L.set_tz("UTC")
    try:
        envs = (G.TZ_ENVS + TZ_NAMED) if ctx.budget(0, 1) else ["UTC", "America/New_York", "Europe/London", "Asia/Kolkata",
                                                                  "Australia/Lord_Howe", "UTC+3", "GMT-2", "UTC0"]
        for tzenv in envs:
            L.set_tz(tzenv)
            pairs = gen_calls(ctx, rng, ctx.budget(1500 if tzenv in TZ_NAMED else 3000, 30000))
            answers = []
            for c, meta in pairs:
                ans, _, raw = L.run_impl(c, raw=True)
                answers.append((ans, raw))
            # ---- (a)(b) default fill-in, clip, weekday shift
            items = []
            for (c, (fields, wd, zp)), (ans, raw) in zip(pairs, answers):
                exp = expected_naive(c.default, fields, wd)
                ctx.case(c.key(), nontrivial=ans.startswith("ok "))
                ctx.count("fields_" + ("+".join(sorted(fields)) or "none") + ("+weekday" if wd is not None else ""))
                if 'day' not in fields and c.default.day > 28:
                    ctx.count("default_day_29_31")
                if isinstance(exp, str):
                    ok = ans == exp
                    ctx.count("expected_" + exp.split()[1])
                else:
                    ok = ans.startswith("ok ") and raw.replace(tzinfo=None, fold=0) == exp
                if not ok and ans == "err ParserError" and isinstance(exp, datetime.datetime) and c.tz.kind != "none" \
                        and not c.ignoretz and L.model_answers(ctx, [c])[0] == ans:
                    # the TEXT is fine; a tzinfos value is a MALFORMED TZ string / the callable raised ValueError (the Lean model of
                    # tz.tzstr rejects it too): ParserError is the documented outcome ("if the provided tzinfo is not in a valid format")
                    ctx.count("tzinfos_malformed_value_calls")
                    continue
                # an OverflowError where the fill-in spec has a datetime is excused only when the Lean model raises it too (the
                # zone object's own overflow next to 0001-01-01 / 9999-12-31, tzoffset beyond timedelta's range)
                if not ok and not (ans == "err OverflowError" and isinstance(exp, datetime.datetime)
                                   and L.model_answers(ctx, [c])[0] == ans):
                    ctx.violation("default fill-in / clip / weekday shift: expected %s" % (exp if isinstance(exp, str) else exp.isoformat()),
                                  c.describe(), {"impl": ans, "fields": fields, "weekday": wd})
                    continue
                if ans.startswith("ok ") and isinstance(exp, datetime.datetime):
                    items.append((c, zp, exp, ans, raw))
            # ---- (c) zone cascade against the Lean cascade
            exp_z = tzcascade_requests(ctx, [(c.tz, zp[0], zp[1], exp, c.ignoretz) for c, zp, exp, _, _ in items])
            for (c, zp, exp, ans, raw), ez in zip(items, exp_z):
                got = "ok " + ans.split(" | ")[1]
                aware_dflt = c.default.tzinfo is not None
                if not aware_dflt and ez == "ok dflt":      # the default's tzinfo is kept: None for a naive default
                    ez = "ok naive"
                if ez == "ok none":
                    ez = "ok naive"
                ctx.evaluations += 1
                ctx.count("zone_" + ez.split(" ")[1] if ez.startswith("ok ") else "zone_err")
                if aware_dflt:
                    ctx.count("aware_default_calls")
                if ez.startswith("err "):
                    continue        # tzoffset overflow etc.: the call raised before; not reached here
                if got != ez:
                    ctx.violation("zone resolution order: expected %s" % ez, c.describe(), {"impl": ans, "meaning": zp})
                # the property, stated directly (regression stream of the repaired D-C15-aware-default-kept): "an unresolvable
                # abbreviation yields a NAIVE result with a warning", "ignoretz returns the same wall time WITHOUT a zone" —
                # for EVERY default, also an aware one
                if (c.ignoretz or got.startswith("ok warn ")) and raw.tzinfo is not None:
                    ctx.violation("ignoretz / an unknown abbreviation must give a naive datetime", c.describe(),
                                  {"impl": got, "model": ez, "meaning": zp,
                                   "tzinfo_is_the_default's": raw.tzinfo is c.default.tzinfo})
                # a text without zone information keeps the default's tzinfo OBJECT
                if aware_dflt and not c.ignoretz and zp == (None, None) and c.tz.kind == "none" and raw.tzinfo is not c.default.tzinfo:
                    ctx.violation("a text without zone information must keep the tzinfo of default=", c.describe(), {"impl": got})
                # documented consequences, stated directly
                if raw.tzinfo is not None and zp[1] is not None and c.tz.kind == "none" and not c.ignoretz:
                    name_is_local = zp[0] is not None and zp[0] in __import__("time").tzname
                    if not name_is_local and raw.utcoffset() != datetime.timedelta(seconds=zp[1]):
                        ctx.violation("numeric offset / GMT+h meaning", c.describe(), {"impl": ans, "meaning": zp})
                    # "UTC designators and zero offsets as UTC": whatever the process zone is called, the result must be at
                    # offset zero (regression stream of the repaired D-C15-local-zone-named-utc: TZ_NAMED calls zones UTC / GMT
                    # at other offsets)
                    if zp[1] == 0:
                        ctx.count("zero_offset_texts" + ("_local_name" if name_is_local else ""))
                        if raw.utcoffset() != datetime.timedelta(0):
                            ctx.violation("a UTC designator / zero offset must give offset zero", c.describe(),
                                          {"impl": "ok " + ans.split(" | ")[1], "model": ez, "meaning": zp,
                                           "utcoffset": str(raw.utcoffset())})
                        elif name_is_local and isinstance(raw.tzinfo, tz.tzlocal):
                            ctx.count("zero_offset_texts_kept_tzlocal")       # the local zone IS at offset zero there
            # ---- (d) ignoretz: same wall time, no zone
            for (c, meta), (ans, raw) in zip(pairs, answers):
                if rng.random() < 0.3 and not c.ignoretz:
                    c2 = L.Call(c.text, default=c.default, tz=c.tz, ignoretz=True)
                    a2, _, r2 = L.run_impl(c2, raw=True)
                    ctx.evaluations += 1
                    ctx.count("ignoretz_pairs")
                    if ans.startswith("ok "):
                        # for EVERY default (naive or aware): same wall time, tzinfo None
                        if not (a2.startswith("ok ") and r2.tzinfo is None and r2 == raw.replace(tzinfo=None, fold=0)):
                            ctx.violation("ignoretz must return the same wall time without a zone", c.describe(),
                                          {"impl": ans, "ignoretz": a2, "default_aware": c.default.tzinfo is not None})
                    elif ans == "err ParserError" and a2 != ans:
                        # unless the failure came from the tzinfos VALUE (malformed TZ string / raising callable), which
                        # ignoretz never consults — the model must say exactly the same in both calls
                        mm = L.model_answers(ctx, [c, c2]) if c.tz.kind != "none" else None
                        if mm is not None and mm[0] == ans and mm[1] == a2:
                            ctx.count("tzinfos_malformed_value_calls")
                        else:
                            ctx.violation("ignoretz changed a failing parse", c.describe(), {"impl": ans, "ignoretz": a2})
            # ---- (f) fuzzy relations
            for _ in range(ctx.budget(1500, 15000)):
                text, fields, wd = partial(rng)
                zt = rng.choice(['', '', ' UTC', ' +03', ' -0330', ' EST']) if 'hour' in fields else ''
                inner = text + zt
                d = rng.choice(G.DEFAULTS)
                strict, _, rs = L.run_impl(L.Call(inner, default=d), raw=True)
                parts = []
                s = sentence(rng, inner, parts)
                fz, _, rf = L.run_impl(L.Call(s, default=d, fuzzy=True), raw=True)
                ft, _, rt = L.run_impl(L.Call(s, default=d, fwt=True), raw=True)
                f2, _, _ = L.run_impl(L.Call(inner, default=d, fuzzy=True))
                key = ("fuzzy", s, d.isoformat(), tzenv)
                ctx.case(key, nontrivial=strict.startswith("ok "))
                ctx.count("fuzzy_sentences")
                case = L.Call(s, default=d, fuzzy=True).describe()
                if strict.startswith("ok "):
                    if fz != strict:
                        ctx.violation("fuzzy parse of a sentence containing one date must return that date", case, {"date": inner, "strict": strict, "fuzzy": fz})
                    if f2 != strict:
                        c2 = L.Call(inner, default=d, fuzzy=True).describe()
                        ms, mf = L.model_answers(ctx, [L.Call(inner, default=d), L.Call(inner, default=d, fuzzy=True)])
                        c2["known_class"] = "D-C15-second-ampm-marker" if second_marker_exact(c2, strict, f2, ms, mf) else None
                        ctx.violation("text accepted without fuzzy must give the same result with fuzzy", c2,
                                      {"strict": strict, "fuzzy": f2, "model_strict": ms, "model_fuzzy": mf})
                if fz.startswith("ok ") != ft.startswith("ok ") or (fz.startswith("ok ") and fz.split(" | ")[:2] != ft.split(" | ")[:2]):
                    ctx.violation("fuzzy_with_tokens must return the same datetime as fuzzy", case, {"fuzzy": fz, "with_tokens": ft})
                if ft.startswith("ok "):
                    pos = 0
                    for tok in rt[1]:
                        j = s.find(tok, pos)
                        if j < 0:
                            ctx.violation("fuzzy_with_tokens: skipped text must appear in order", case, {"tokens": list(rt[1])})
                            break
                        pos = j + len(tok)
                    # the filler around the date is skipped text: all of it must come back
                    joined = "|".join(rt[1])
                    for part in parts:
                        if part and part not in joined:
                            ctx.violation("fuzzy_with_tokens: skipped text is missing from the tokens", case,
                                          {"tokens": list(rt[1]), "missing": part})
                            break
            # strict ⊆ fuzzy on the malformed stream (and the D-C15 witness family)
            for _ in range(ctx.budget(4000, 40000)):
                t = G.malformed(rng) if rng.random() < 0.985 else \
                    "%d:%02d %s %s" % (rng.randint(0, 12), rng.randint(0, 59), rng.choice(["am", "pm", "a", "p", "AM"]), rng.choice(["am", "pm", "PM", "p"]))
                d = rng.choice(G.DEFAULTS)
                strict, _, _ = L.run_impl(L.Call(t, default=d))
                if not strict.startswith("ok "):
                    ctx.case(("sf", t), nontrivial=False)
                    continue
                f2, _, _ = L.run_impl(L.Call(t, default=d, fuzzy=True))
                ctx.case(("sf", t, d.isoformat(), tzenv))
                ctx.count("strict_accepted_texts")
                if f2 != strict:
                    case = L.Call(t, default=d, fuzzy=True).describe()
                    ms, mf = L.model_answers(ctx, [L.Call(t, default=d), L.Call(t, default=d, fuzzy=True)])
                    exact = second_marker_exact(case, strict, f2, ms, mf)
                    case["known_class"] = "D-C15-second-ampm-marker" if exact else None
                    if exact:
                        ctx.count("known_class_D-C15_hits")
                        if ctx.hist["known_class_D-C15_hits"] > 25:
                            continue                     # every one of them was verified to be exactly the listed symptom
                    ctx.violation("text accepted without fuzzy must give the same result with fuzzy", case,
                                  {"strict": strict, "fuzzy": f2, "model_strict": ms, "model_fuzzy": mf})
        # ---- (c') the local-name rows after process-zone switches: zones sharing an abbreviation, time.tzset() between calls
        #      and back; every answer against the model for that zone and a fresh process whose only zone that was
        L.zone_switch_run(ctx, ctx.subrng("zone-switch"), G.ZONE_GROUPS, ctx.budget(40, 400),
                          "zone resolution (an abbreviation of the process zone)")
        # ---- (e) unknown abbreviation: naive + warning (TZ-independent)
        L.set_tz("UTC")
        # … on EVERY call: the same name three times in a row, and again after the others (a "warn once per name" memo would show)
        unk = ["BRST", "JST", "ABCDE", "XYZ", "PDT"]
        for rnd in range(2):
            for nm in unk:
                for rep in range(3):
                    c = L.Call("10:30 " + nm)
                    ans, _, raw = L.run_impl(c, raw=True)
                    ctx.case(("unknown", nm, rnd, rep))
                    ctx.evaluations += 1
                    if ans != "ok 2003 9 25 10 30 0 0 | warn %s | -" % L.cps(nm):
                        case = c.describe()
                        case["call_number_for_this_name"] = rnd * 3 + rep + 1
                        ctx.violation("unknown abbreviation must give a naive datetime and UnknownTimezoneWarning on every call", case,
                                      {"impl": ans, "expected": "warn " + nm})
        # default=date(...): outside the documented type; observed, not judged
        for txt in ["10:00", "Sep 5", "2003-09-25", "Monday"]:
            try:
                r = P.parse(txt, default=datetime.date(2003, 9, 25))
                got = type(r).__name__
            except Exception as e:
                got = L.exc_kind(e)
            ctx.hist["date_default_%s" % txt.replace(" ", "_")] = got
        # the D-C15 witness, re-confirmed on every run
        w = L.Call("10:30 am pm")
        a1, _, _ = L.run_impl(w)
        a2, _, _ = L.run_impl(L.Call("10:30 am pm", fuzzy=True))
        ctx.case(("witness", "10:30 am pm"))
        if a1 != a2:
            wc = L.Call("10:30 am pm", fuzzy=True).describe()
            ms, mf = L.model_answers(ctx, [w, L.Call("10:30 am pm", fuzzy=True)])
            wc["known_class"] = "D-C15-second-ampm-marker" if second_marker_exact(wc, a1, a2, ms, mf) else None
            ctx.violation("text accepted without fuzzy must give the same result with fuzzy", wc,
                          {"strict": a1, "fuzzy": a2, "model_strict": ms, "model_fuzzy": mf})
        ctx.sample({"text": "10:30 am pm", "strict": a1, "fuzzy": a2})
        ctx.sample({"text": "Feb (default 2001-01-31)", "impl": L.run_impl(L.Call("Feb", default=datetime.datetime(2001, 1, 31)))[0]})
        ctx.sample({"text": "10:00 GMT+3", "impl": L.run_impl(L.Call("10:00 GMT+3"))[0]})
        ctx.sample({"text": "Friday (default 2003-09-25, a Thursday)", "impl": L.run_impl(L.Call("Friday"))[0]})
        # a sentence containing one date, on the class of the sentence theorems
        L.set_tz("UTC")
        oracle_sentences(ctx, ctx.subrng("sentences"), L.model_pivot(P._parser.DEFAULTPARSER.info)[0])
        # the two-digit-year pivot the model is given comes from the process clock (review3b F8)
        L.set_tz("UTC")
        L.pivot_oracle(ctx)
    finally:
        L.set_tz(prev)


KNOWN = {
    # known only if the implementation's answers equal the model's (both modes) and the symptom is exactly the listed one
    "D-C15-second-ampm-marker": lambda v: v["what"].startswith("text accepted without fuzzy")
    and v["case"].get("known_class") == "D-C15-second-ampm-marker"
    and v["detail"].get("strict") == v["detail"].get("model_strict") and v["detail"].get("fuzzy") == v["detail"].get("model_fuzzy"),
}


def replay(ctx, payload):
    import copy
    c = payload["violation"]["case"]
    if c.get("TZ_sequence") is not None:
        return L.zone_switch_replay(ctx, c)
    base = L.call_from_case(c)
    def variant(**kw):
        x = copy.copy(base)
        x.fuzzy = x.fwt = x.ignoretz = False
        for k, v in kw.items():
            setattr(x, k, v)
        return x
    prev = L.set_tz(c.get("TZ") or "UTC")
    try:
        a0, _, _ = L.run_impl(base)
        a0b, _, _ = L.run_impl(base)                # again: state left by the first call (a warn-once memo) shows here
        a1, _, _ = L.run_impl(variant())
        a2, _, _ = L.run_impl(variant(fuzzy=True))
        a3, _, _ = L.run_impl(variant(fwt=True))
        a4, _, _ = L.run_impl(variant(ignoretz=True))
        m = L.model_answers(ctx, [base])[0]
    finally:
        L.set_tz(prev)
    print("parse(%s) [tzinfos=%s parserinfo=%s TZ=%s]: as recorded=%s model=%s | strict=%s fuzzy=%s fuzzy_with_tokens=%s ignoretz=%s"
          % (ascii(c["text"]), c.get("tzinfos"), c.get("parserinfo"), c.get("TZ"), a0, m, a1, a2, a3, a4))
    if a0b != a0:
        print("the same call again: %s" % a0b)
    return ((not a1.startswith("ok ")) or a1 == a2) and a0 == m and a0b == m
