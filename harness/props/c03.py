"""C03 — date + relativedelta follows the documented replace / shift / clip / weekday order."""
import calendar, datetime
import basecorr
from props import rdlib as L

PROP = "C03"
TRUSTED = [
    "harness/translate_rd.py (RDPy translator; runtime primitives Model/RDPy.lean) RE-TRANSLATES from /repo's relativedelta.py "
    "into Generated/RDOps.lean on every run: __add__ (three Lean functions: date/datetime, relativedelta and timedelta "
    "operand - isinstance on the declared operand type is decided statically), __radd__, __rsub__, __neg__, __abs__, __sub__, "
    "__mul__ (integer scalar; float() / int() are the identity on the integer domain), __bool__, __eq__, __hash__ (the tuple), "
    "and both branches of __init__ (keyword constructor incl. the unrolled ydayidx scan and the weekday coercion; "
    "relativedelta(dt1, dt2) incl. the while loop as a fuel-bounded recursion); _fix / _set_months as before "
    "(translate.py). Anything outside the fragment aborts with a named construct (broken tie). Proofs/RDGenEq.lean proves "
    "Gen.f = model f for: addDt = applyTo, raddDt, rsubDt, neg, abs, addRd, subRd, addTd, mulInt, bool, eq, hashKey, "
    "initDiff = diffN (out of fuel = NotImplemented), initKw = mk for EVERY keyword set (initKw_eq: yearday / nlyearday "
    "scan, integer / object weekday, the ValueError and IndexError branches); the `_gen` theorems of the Audit file restate the property theorems over the generated definitions",
    "STILL HAND-MODELLED, tied by sampling only: (a) the named primitives of Model/RDPy.lean = CPython behaviour "
    "(calendar.monthrange / isleap, date/datetime.replace incl. its C-int and range errors, datetime.timedelta(...), "
    "x + timedelta, x.weekday(), isinstance(x, datetime), datetime.fromordinal(d.toordinal()), <, > and - between "
    "date/datetime objects incl. the same-object / UTC rule, timedelta.days/.seconds/.microseconds, weekdays[i], "
    "attributes of a weekday object, `a or b`, truthiness of Optional values), exercised by rdgen.* on every run; "
    "(b) __div__, normalized(), __repr__, the `weeks` property, float-valued fields (not translated). The hashed tuple is "
    "translated element by element in source order (hashList) and captured in the same order from the implementation",
    "the translator itself is validated on every run: every correspondence request to a hand-model op (rd.add, rd.rsub, "
    "rd.mk, rd.expr, rd.bool, rd.hash, rd.eq, rd.diff, rd.diffn, rd.diffo) is repeated against the generated definition "
    "(rdgen.*) and compared with the implementation",
    "Model/RelativeDelta.lean `applyTo` mirrors relativedelta.__add__ (lines 362-402) line by line incl. its error branches "
    "(assert, IllegalMonthError, replace() ValueError/TypeError, OverflowError of datetime+timedelta); tied by the "
    "correspondence ops rd.add / rd.rsub on (delta, operand) pairs (date, naive, aware operands; in- and out-of-range fields)",
    "Generated/RDKernels.lean (Gen.fix) re-translated on every run; `Normalised` (its post-condition, theorem C16.fix_bounds) "
    "is the hypothesis under which the piecewise month carry equals the total-month formula",
    "history of one object: Model/RDHistory.lean (`run`: a use leaves the record alone) + theorems C16.use_after_set_eq_fresh / "
    "same_mutations_same_answer; that no method writes state outside __init__/_fix/_set_months/weeks.setter is read off the source on "
    "every run (rdlib.write_audit -> correspondence mismatch rd.write_audit); the `weeks` setter is a hand model (rd.setweeks / rd.hist)",
    "Spec/RelativeDelta.lean is written from the class docstring (replace, total-month shift with clip, exact duration, "
    "nth weekday by search); the oracle compares the implementation with it through rd.spec",
    "CPython datetime: replace() validation, datetime + timedelta (wall-clock for aware operands, tzinfo kept, fold reset), "
    "date + timedelta (days only), calendar.monthrange — modelled in Base/Time.lean + Model, validated by base.* and rd.add",
]
ASSUMPTIONS = [
    "PEP 495 fold is not part of the model because it cannot influence or survive x + delta: the last step of __add__ is "
    "always `datetime + timedelta` (a new object with fold=0), nothing in __add__ reads other.fold, and for one shared "
    "tzinfo object CPython compares/subtracts wall clocks ignoring fold; checked on every run (oracle clause `fold`: "
    "result.fold == 0 and flipping the operand's fold leaves the result unchanged, incl. ambiguous America/New_York times)",
    "aware operands: arithmetic is on the wall clock and the tzinfo object is carried through unchanged (CPython semantics); "
    "the zone is an opaque tag in the model",
    "asserts enabled (python without -O): the model has the AssertionError branch of line 369; it is unreachable for "
    "normalised deltas (theorem C03.errors_only_out_of_range)",
    "absolute year/month/day equal to 0 are outside the property's domain (falsy => ignored by the code); the model follows the code there",
]
RULE = ("seeded random (delta, operand): delta from keyword arguments (every combination of absolute fields, signed relative "
        "fields incl. multi-level carries, leapdays, yearday/nlyearday, weekday int / wd / wd(n) with n in -5..5), operand a "
        "date / naive / aware datetime biased to month ends, Feb 28/29, leap and century years, years 1 and 9999; "
        "distinct = distinct canonical (delta fields, operand); non-trivial = the implementation returned a value; plus the "
        "history of one object (use -> weeks setter / attribute assignment -> use: model on the CURRENT record after every step, fresh "
        "clone and relativedelta(**fields) in the oracle), fractional-float deltas on the negation / subtraction / promotion path "
        "against an expectation independent of the operators, and the yearday_366 regression stream")


def impl_add(x, d):
    return L.run(lambda: x + d, L.t_show)


def correspondence(ctx):
    basecorr.run(ctx)
    rng = ctx.subrng("corr")
    n = ctx.budget(40000, 400000)
    reqs, exp = [], []
    for i in range(n):
        profile = "wild" if rng.random() < 0.35 else "c03"
        kw = L.g_kw(rng, profile)
        try:
            d = L.mkrd(kw)
        except (ValueError, IndexError):
            ctx.count("corr_mk_error")
            continue
        if not L.is_int_valued(d):
            continue
        if abs(d.days) > 10 ** 15 or abs(d.years) > 10 ** 15:
            ctx.count("corr_huge_delta")
        x = L.g_temporal(rng)
        if getattr(x, "fold", 0):
            ctx.count("corr_operand_fold1")
        w, t = L.rd_wire(d), L.t_wire(x)
        r = impl_add(x, d)
        reqs.append("rd.add %s %s" % (w, t)); exp.append(r)
        ctx.count("corr_add_" + (r.split()[1] if r.startswith("err") else "ok_" + r.split()[1][0]))
        if i % 3 == 0:
            reqs.append("rd.rsub %s %s" % (w, t)); exp.append(L.run(lambda: x - d, L.t_show))
        if i % 5 == 0:
            reqs.append("rd.add %s %s" % (w, t)); exp.append(L.run(lambda: d + x, L.t_show))
    # the constructor's yearday / nlyearday conversion (used by yearday_spec, nlyearday_spec, yearday366_nonleap_clips)
    reqs.append("rd.ydayidx"); exp.append("ok " + L.vlib.ilist(L.source_ydayidx() or []))
    for key in ("yearday", "nlyearday"):
        for v in list(range(-2, 370)) + [400, 10 ** 6]:
            kw = {key: v}
            if rng.random() < 0.3:
                kw["days"] = rng.randint(-40, 40)
            reqs.append("rd.mk " + L.kw_wire(kw)); exp.append(L.run(lambda: L.mkrd(kw), L.rd_wire))
            ctx.count("corr_mk_yearday")
    # the history of one object: after use -> mutate -> use, `x + d` follows the CURRENT fields (model on the current record)
    for site in L.write_audit():
        ctx.mismatch("rd.write_audit", site, "a method of relativedelta writes state outside " + "/".join(L.WRITERS_ALLOWED),
                     "model: a use leaves the record alone (RDH.step)")
    hr = ctx.subrng("corr-history")
    starts = []
    while len(starts) < ctx.budget(200, 2000):
        st = L.g_start_kw(hr)
        if st:
            starts.append(L.mkrd(st[1]))
    hq, he = L.history_corr(ctx, hr, starts, 8, "corr_history")
    reqs += hq; exp += he
    reqs, exp = L.with_generated(reqs, exp)
    got = ctx.driver(reqs)
    for q, e, g in zip(reqs, exp, got):
        if e != g:
            ctx.mismatch(q.split()[0], q, e, g)
        if q.startswith("rdgen."):
            ctx.count("corr_generated_requests")
    ctx.traces += len(reqs)
    ctx.count("corr_requests", len(reqs))


def has_time_info(d):
    return bool(d.hours or d.minutes or d.seconds or d.microseconds or d.hour is not None or d.minute is not None
                or d.second is not None or d.microsecond is not None)


def without_weekday(d):
    from dateutil.relativedelta import relativedelta
    kw = {k: getattr(d, k) for k in L.REL + L.ABS}
    return relativedelta(**kw)


def spec_responses(ctx, pairs):
    """the documented result of `x + relativedelta(**kw)` for each (kw, x): the Lean constructor model on the KEYWORDS
    (rd.mk: carries proved to preserve the month and microsecond totals, C16.fix_preserves_total), then the Lean spec (rd.spec).
    The implementation's own constructor is NOT consulted (a defect of its carries must not leak into the expectation);
    only when the model cannot take the keywords (non-integer values) are the implementation's fields used."""
    mk = ctx.driver(["rd.mk " + L.kw_wire(kw) if kw_is_int(kw) else "rd.ydayidx" for kw, _ in pairs])
    reqs = []
    for (kw, x), m in zip(pairs, mk):
        if kw_is_int(kw) and m.startswith("ok ") and len(m.split()) == 19:
            reqs.append("rd.spec %s %s" % (m[3:], L.t_wire(x)))
        else:
            reqs.append("rd.spec %s %s" % (L.rd_wire(L.mkrd(kw)), L.t_wire(x)))
            ctx.count("spec_from_implementation_fields")
    return ctx.driver(reqs)


def kw_is_int(kw):
    return all(isinstance(v, int) and not isinstance(v, bool) or k == "weekday" or v is None for k, v in kw.items())


def check_pair(ctx, kw, x, spec_resp):
    """all clauses of the property for one (delta, operand); returns nothing, records violations"""
    d = L.mkrd(kw)
    case = {"law": "spec", "kw": L.kw_json(kw), "x": L.t_wire(x)}
    if not L.weekday_ok(d.weekday):
        ctx.case((repr(kw), L.t_wire(x)))
        ctx.violation("relativedelta(%s).weekday is %r, not a weekday object" % (
            ", ".join("%s=%r" % kv for kv in kw.items()), d.weekday), dict(case, law="weekday_attr"))
        return
    r = impl_add(x, d)
    ctx.case((L.rd_wire(d), L.t_wire(x)), nontrivial=r.startswith("ok"))
    ctx.count("oracle_" + (r.split()[1] if r.startswith("err") else "ok"))
    if r != spec_resp:
        ctx.violation("x + delta = %s but the documented result is %s (x=%s, delta=%r)" % (r, spec_resp, x, d), case,
                      {"impl": r, "spec": spec_resp})
        return
    # operand order and subtraction
    r2 = L.run(lambda: d + x, L.t_wire)
    if r2 != r:
        ctx.violation("delta + x = %s differs from x + delta = %s" % (r2, r), dict(case, law="radd"))
    r3 = L.run(lambda: x - d, L.t_wire)
    r4 = L.run(lambda: x + (-d), L.t_wire)
    if r3 != r4:
        ctx.violation("x - delta = %s differs from x + (-delta) = %s" % (r3, r4), dict(case, law="rsub"))
    if not r.startswith("ok"):
        return
    res = x + d
    # promotion exactly when the delta carries time information
    if not isinstance(x, datetime.datetime):
        promoted = isinstance(res, datetime.datetime)
        if promoted != has_time_info(d):
            ctx.violation("date operand promoted=%s but delta has time info=%s" % (promoted, has_time_info(d)),
                          dict(case, law="promotion"))
        ctx.count("date_promoted" if promoted else "date_stays_date")
    else:
        if not isinstance(res, datetime.datetime) or res.tzinfo is not x.tzinfo:
            ctx.violation("datetime operand changed type / tzinfo", dict(case, law="promotion"))
    # PEP 495 fold: __add__ always ends in `datetime + timedelta`, which builds a fresh datetime with fold=0,
    # and never reads the operand's fold (wall-clock arithmetic) -> the model carries no fold bit.
    if isinstance(res, datetime.datetime):
        if res.fold != 0:
            ctx.violation("result has fold=%d" % res.fold, dict(case, law="fold"))
        if isinstance(x, datetime.datetime):
            other = x.replace(fold=1 - x.fold)
            r_other = impl_add(other, d)
            ctx.count("fold_flip_checked" if x.fold == 0 else "fold1_operand_checked")
            if r_other != r:
                ctx.violation("the operand's fold changes the result: fold=%d -> %s, fold=%d -> %s"
                              % (x.fold, r, other.fold, r_other), dict(case, law="fold"))
    # weekday clause, checked independently of the Lean spec: count the days with that weekday
    if d.weekday is not None:
        try:
            base = x + without_weekday(d)
        except Exception:
            return
        wd, nth = d.weekday.weekday, (d.weekday.n or 1)
        bd = base.date() if isinstance(base, datetime.datetime) else base
        rd_ = res.date() if isinstance(res, datetime.datetime) else res
        lo, hi = (bd, rd_) if nth > 0 else (rd_, bd)
        ok = rd_.weekday() == wd and lo <= hi
        if ok:
            cnt = sum(1 for o in range(lo.toordinal(), hi.toordinal() + 1) if (o + 6) % 7 == wd)
            ok = cnt == abs(nth)
        if ok and isinstance(res, datetime.datetime):
            ok = res.timetz() == base.timetz()
        if not ok:
            ctx.violation("weekday clause: base %s, %s(%+d) -> %s" % (base, "MTWTFSS"[wd], nth, res), dict(case, law="weekday"))
        if abs(nth) == 1 and bd.weekday() == wd:
            ctx.count("weekday_fixed_point")
            if res != base:
                ctx.violation("weekday fixed point moved: %s -> %s" % (base, res), dict(case, law="weekday"))
        ctx.count("weekday_n_%+d" % nth)


def oracle(ctx):
    from dateutil.relativedelta import relativedelta
    rng = ctx.subrng("oracle")
    n = ctx.budget(40000, 500000)
    pairs = []
    # failing-input search starts from inputs on which model and implementation differ
    for m in ctx.mismatches:
        toks = m["input"].split()
        if toks[0] in ("rd.add", "rd.rsub") and len(toks) == 27:
            try:
                pairs.append((fields_to_kw(toks[1:19]), L.parse_t(toks[19:27])))
            except Exception:
                pass
    while len(pairs) < n:
        kw = L.g_kw(rng, "c03")
        try:
            L.mkrd(kw)
        except (ValueError, IndexError):
            continue
        pairs.append((kw, L.g_temporal(rng)))
    # deltas whose ONLY time information is one field (relative or absolute, incl. absolute 0), mostly on date operands:
    # the promotion clause must see each source of `_has_time` on its own
    for _ in range(ctx.budget(1500, 20000)):
        fld = rng.choice(["hours", "minutes", "seconds", "microseconds", "hour", "minute", "second", "microsecond"])
        if fld.endswith("s"):
            val = rng.choice([1, -1, 5, -7, 250000 if fld == "microseconds" else 3])
        else:
            val = rng.choice([0, 0, 1, {"hour": 23, "minute": 59, "second": 59, "microsecond": 999999}[fld]])
        kw = {fld: val}
        if rng.random() < 0.5:
            kw.update({k: v for k, v in L.g_kw(rng, "c03").items()
                       if k in ("years", "months", "days", "weeks", "year", "month", "day", "weekday", "leapdays")})
        try:
            L.mkrd(kw)
        except (ValueError, IndexError):
            continue
        pairs.append((kw, L.g_temporal(rng, ("d", "d", "n"))))
        ctx.count("single_time_source_" + fld)
    # integer weekdays (calendar.MONDAY .. SUNDAY), alone and with a day, on a few operands each
    for w in range(7):
        for extra in ({}, {"day": 1}, {"days": 3}, {"hour": 0}):
            for _ in range(3):
                pairs.append((dict(extra, weekday=w), L.g_temporal(rng)))
                ctx.count("int_weekday_cases")
    # un-normalised keyword deltas: years together with months beyond +-11, every lower field beyond its carry threshold, all
    # signs, on every operand kind (the documented result is computed from the KEYWORDS, see spec_responses)
    for _ in range(ctx.budget(4000, 50000)):
        kw = {"years": rng.choice([1, -1, 2, -3, 5, rng.randint(-40, 40)]) or 1,
              "months": rng.choice([12, -12, 13, -13, 23, 24, 25, -25, 36, rng.randint(12, 70), -rng.randint(12, 70)])}
        for k, lo, hi in (("days", 0, 800), ("hours", 24, 200), ("minutes", 60, 5000), ("seconds", 60, 200000),
                          ("microseconds", 10 ** 6, 5 * 10 ** 6), ("weeks", 0, 60)):
            if rng.random() < 0.45:
                kw[k] = rng.choice([1, -1]) * rng.randint(lo, hi)
        if rng.random() < 0.3:
            kw.update({k: v for k, v in L.g_kw(rng, "c03").items() if k in ("year", "month", "day", "weekday", "leapdays", "hour")})
        try:
            L.mkrd(kw)
        except (ValueError, IndexError):
            continue
        pairs.append((kw, L.g_temporal(rng)))
        ctx.count("unnormalised_keyword_deltas")
    spec = spec_responses(ctx, pairs)
    for (kw, x), s in zip(pairs, spec):
        check_pair(ctx, kw, x, s)
    for kw, x in pairs[:4]:
        ctx.sample({"kw": L.kw_json(kw), "x": str(x), "impl": impl_add(x, L.mkrd(kw))})
    # month-end clip, exhaustively on a small grid: every day of month x month x shift -40..40 in 4 years
    for y in (1999, 2000, 2100, 2400):
        for m in range(1, 13):
            for dd in (1, 28, 29, 30, 31):
                if dd > calendar.monthrange(y, m)[1]:
                    continue
                for k in range(-40, 41):
                    x = datetime.date(y, m, dd)
                    res = L.run(lambda: x + relativedelta(months=k), L.t_wire)
                    M = 12 * y + (m - 1) + k
                    ey, em = M // 12, M % 12 + 1
                    ed = min(dd, calendar.monthrange(ey, em)[1])
                    ctx.case(("clip", y, m, dd, k)); ctx.count("clip_grid")
                    if res != "ok d %d %d %d 0 0 0 0" % (ey, em, ed):
                        ctx.violation("month shift spilled / mis-clipped: %s + %d months = %s" % (x, k, res),
                                      {"law": "clip", "x": L.t_wire(x), "kw": {"months": k}})
    # yearday / nlyearday: the documented meaning, independently of the conversion table
    for y in (1900, 1999, 2000, 2004, 2100, 2400, 9999, 1):
        leap = calendar.isleap(y)
        x = datetime.date(y, rng.randint(1, 12), rng.randint(1, 28))
        for nday in range(1, 367):
            ctx.case(("yearday", y, nday)); ctx.count("yearday_cases")
            res = L.run(lambda: x + relativedelta(yearday=nday), L.t_wire)
            if nday == 366 and not leap:
                # no day 366 in this year: the day is clipped to the end of December (theorem yearday366_nonleap_clips)
                e = datetime.date(y, 12, 31)
            else:
                e = datetime.date(y, 1, 1) + datetime.timedelta(days=nday - 1)
            if res != "ok " + L.t_wire(e):
                ctx.violation("yearday=%d in %d gives %s, day %d of that year is %s" % (nday, y, res, nday, e),
                              {"law": "yearday", "year": y, "yearday": nday, "leap": leap, "x": L.t_wire(x), "res": res})
        for nday in range(1, 366):
            ctx.case(("nlyearday", y, nday)); ctx.count("nlyearday_cases")
            res = L.run(lambda: x + relativedelta(nlyearday=nday), L.t_wire)
            nl = datetime.date(2001, 1, 1) + datetime.timedelta(days=nday - 1)     # a non-leap year
            e = datetime.date(y, nl.month, nl.day)
            if res != "ok " + L.t_wire(e):
                ctx.violation("nlyearday=%d in %d gives %s, expected %s" % (nday, y, res, e),
                              {"law": "nlyearday", "year": y, "nlyearday": nday, "x": L.t_wire(x)})

    # regression stream for the repaired D-C03-yearday366: the LAST day of the year through yearday=365/366 in every kind of
    # year, on date / naive / aware operands (time of day and kind kept), together with a relative part
    for _ in range(ctx.budget(600, 6000)):
        y = rng.choice([4, 400, 1600, 1896, 1900, 1904, 2000, 2004, 2023, 2024, 2096, 2100, 2104, 2400, 9996, 9999,
                        rng.randint(1, 9999)])
        leap = calendar.isleap(y)
        x = L.g_temporal(rng)
        try:
            x = x.replace(year=y)
        except ValueError:
            x = x.replace(year=y, day=28)
        nday = rng.choice([366, 366, 365, 60, 59])
        ctx.case(("yearday_366", L.t_wire(x), nday)); ctx.count("yearday_366_cases" + ("_leap" if leap else "_nonleap"))
        res = L.run(lambda: x + relativedelta(yearday=nday), L.t_wire)
        ed = datetime.date(y, 12, 31) if (nday == 366 and not leap) else datetime.date(y, 1, 1) + datetime.timedelta(days=nday - 1)
        e = x.replace(year=ed.year, month=ed.month, day=ed.day)
        if isinstance(e, datetime.datetime):
            e = e.replace(fold=0)
        if res != "ok " + L.t_wire(e):
            ctx.violation("yearday=%d on %s gives %s, expected %s" % (nday, x, res, e),
                          {"law": "yearday", "year": y, "yearday": nday, "leap": leap, "x": L.t_wire(x), "res": res})

    # the history of one object (use -> mutate via the weeks setter / attribute assignment -> use again): `x + d`, `d + x`, `x - d`
    # and every other observation must be those of a fresh object with the current fields
    L.history_oracle(ctx, ctx.subrng("oracle-history"), L.g_start_kw, ctx.budget(500, 6000), 10, "history")

    check_fractional_sub(ctx, ctx.subrng("oracle-fractional"))
    check_promotion_history(ctx, ctx.subrng("oracle-promotion-history"))


def check_promotion_history(ctx, rng):
    """the promotion clause on an object with a HISTORY: after every mutation (weeks setter, attribute assignment) a date
    operand is promoted to a datetime exactly when the delta's CURRENT fields carry time information.  The implementation
    decides by the flag `_has_time`, which only `_fix` (the constructor) computes: attribute assignment leaves it stale
    (known finding D-C03-stale-has-time; the `weeks` setter cannot change the time information and is always fine)."""
    from dateutil.relativedelta import relativedelta
    for i in range(ctx.budget(400, 5000)):
        st = L.g_start_kw(rng)
        if st is None:
            continue
        d = L.build_start(st)
        steps = []
        x = L.g_temporal(rng, ("d",))
        for _ in range(rng.randint(1, 5)):
            r = rng.random()
            if r < 0.25:
                step = ["weeks", rng.randint(-5, 5)]
            elif r < 0.75:
                k = rng.choice(["hours", "minutes", "seconds", "microseconds", "hour", "minute", "second", "microsecond"])
                step = ["set", k, rng.choice([0, 0, 1, -1, 5, None] if not k.endswith("s") else [0, 0, 0, 1, -1, 5, 30])]
            else:
                step = ["set", rng.choice(["days", "months", "years"]), rng.randint(-5, 5)]
            steps.append(step)
            L.apply_step(d, step)
            carries = has_time_info(d)
            res = L.run(lambda: x + d, L.t_wire)
            ctx.case(("promotion_history", i, len(steps))); ctx.count("promotion_history_states")
            if not res.startswith("ok"):
                continue
            promoted = res.split()[1] != "d"
            if promoted != carries:
                ctx.violation("after %r a date operand is %s although the delta %r %s time information"
                              % (steps, "promoted" if promoted else "NOT promoted", d, "carries" if carries else "carries no"),
                              {"law": "stale_has_time", "start": L.start_json(st), "steps": list(steps), "x": L.t_wire(x),
                               "flag": int(d._has_time), "carries": int(carries), "promoted": int(promoted), "res": res})
                break


DYADIC = [0.5, -0.5, 1.5, -1.5, 0.25, 2.25, -2.75, 0.125, 10.5, -36.5, 100.75]


def check_fractional_sub(ctx, rng):
    """fractional (float) relative fields on the NEGATION / SUBTRACTION path (they are allowed for days..microseconds and
    weeks; C16 covers them as values, this stream covers `x - d`, `-d` and the promotion of a date).  Expectations are
    independent of the implementation's operators:
      (1) -d carries exactly the negated relative fields and the same absolute fields / weekday / leapdays;
      (2) x - d == (x moved by the negated integer years/months, absolute fields replaced, promoted to a datetime iff d
          carries time information) - the negated timedelta(days, hours, minutes, seconds, microseconds of d) added   [dyadic fractions: exact];
      (3) x - d == x + (-d), and (x + d) - d == x when no month arithmetic / clipping is involved."""
    from dateutil.relativedelta import relativedelta
    for i in range(ctx.budget(3000, 40000)):
        kw = {}
        dyadic = rng.random() < 0.8
        for k in ("days", "hours", "minutes", "seconds", "microseconds", "weeks"):
            if rng.random() < 0.45:
                r = rng.random()
                if r < 0.6:
                    kw[k] = rng.choice(DYADIC) + rng.choice([0, 0, 1, -3, 7, 40])
                elif r < 0.75 and not dyadic:
                    kw[k] = rng.choice([0.1, -0.3, 1 / 3.0, 2.7, -19.99])
                else:
                    kw[k] = rng.randint(-50, 50)
        if not any(isinstance(v, float) for v in kw.values()):
            kw[rng.choice(["days", "hours", "minutes", "seconds", "weeks"])] = rng.choice(DYADIC)
        if rng.random() < 0.4:
            kw["years"] = rng.randint(-3, 3)
        if rng.random() < 0.4:
            kw["months"] = rng.randint(-14, 14)
        for k, hi in (("month", 12), ("day", 28), ("hour", 23), ("minute", 59)):
            if rng.random() < 0.12:
                kw[k] = rng.randint(1, hi)
        x = L.g_temporal(rng)
        if "hour" in kw or "minute" in kw:
            if not isinstance(x, datetime.datetime):
                x = datetime.datetime(x.year, x.month, x.day, 7, 30)
        case = {"law": "fractional", "kw": kw, "x": L.t_wire(x)}
        ctx.case(("fractional", repr(sorted(kw.items())), L.t_wire(x))); ctx.count("fractional_cases")
        bad = fractional_failure(kw, x, dyadic)
        if bad:
            ctx.violation("fractional delta %r, operand %s: %s" % (relativedelta(**kw), x, bad), case)


def fractional_failure(kw, x, dyadic=True):
    from dateutil.relativedelta import relativedelta
    d = relativedelta(**kw)
    try:
        nd = -d
    except Exception as ex:
        return "-d raised %s" % type(ex).__name__
    for k in L.REL:
        want = getattr(d, k) if k == "leapdays" else -getattr(d, k)
        if getattr(nd, k) != want:
            return "(-d).%s = %r, expected %r" % (k, getattr(nd, k), want)
    for k in L.ABS + ["weekday"]:
        if getattr(nd, k) != getattr(d, k):
            return "(-d).%s = %r, expected %r" % (k, getattr(nd, k), getattr(d, k))
    r_sub = L.run(lambda: x - d, L.t_show)
    r_addneg = L.run(lambda: x + nd, L.t_show)
    if r_sub != r_addneg:
        return "x - d = %s but x + (-d) = %s" % (r_sub, r_addneg)
    # independent expectation
    def expected():
        base = x + relativedelta(years=-d.years, months=-d.months, **{k: getattr(d, k) for k in L.ABS if getattr(d, k) is not None})
        if not isinstance(base, datetime.datetime) and has_time_info(d):
            base = datetime.datetime.fromordinal(base.toordinal())
        # `date + (-td)` (floored days of the NEGATED duration), which is what "move back by d" means for a date operand
        return base + (-datetime.timedelta(days=d.days, hours=d.hours, minutes=d.minutes, seconds=d.seconds,
                                           microseconds=d.microseconds))
    r_exp = L.run(expected, L.t_show)
    if dyadic and r_sub != r_exp and not (r_sub.startswith("err") and r_exp.startswith("err")):
        return "x - d = %s, expected %s" % (r_sub, r_exp)
    if dyadic and not d.years and not d.months and all(getattr(d, k) is None for k in L.ABS) and r_sub.startswith("ok"):
        # pure duration: adding it back returns the operand (as a datetime when the delta carries time information)
        back = L.run(lambda: (x - d) + d, L.t_show)
        xx = x
        if not isinstance(x, datetime.datetime) and has_time_info(d):
            xx = datetime.datetime.fromordinal(x.toordinal())
        if isinstance(x, datetime.datetime) and back != "ok " + L.t_wire(xx) and back.startswith("ok"):
            return "(x - d) + d = %s, expected %s" % (back, L.t_wire(xx))
    return None


def fields_to_kw(tok):
    """18 RD tokens -> keyword arguments reproducing that state"""
    from dateutil._common import weekday
    names = L.REL + ["year", "month", "day"]
    kw = {}
    for nme, t in zip(names, tok[:11]):
        kw[nme] = None if t == "-" else int(t)
    if tok[11] != "-":
        kw["weekday"] = weekday(int(tok[11]), None if tok[12] == "-" else int(tok[12]))
    for nme, t in zip(["hour", "minute", "second", "microsecond"], tok[13:17]):
        kw[nme] = None if t == "-" else int(t)
    return {k: v for k, v in kw.items() if v is not None}


def _stale_has_time_known(v):
    """D-C03-stale-has-time: the class (the cached flag differs from what the current fields say - only attribute assignment
    after construction can do that) AND the observed symptom (the promotion followed the stale flag; the value is otherwise
    the model's on the current record: Lean theorem C03.promotion_follows_flag)"""
    c = v["case"]
    return c.get("law") == "stale_has_time" and c.get("flag") != c.get("carries") and c.get("promoted") == c.get("flag") \
        and any(st[0] == "set" and st[1] in ("hours", "minutes", "seconds", "microseconds", "hour", "minute", "second", "microsecond")
                for st in c.get("steps", []))


# D-C03-yearday366 was repaired in /repo (see known_findings.d/00-fixed.json); the yearday streams above report it again
KNOWN = {"D-C03-stale-has-time": _stale_has_time_known}


def replay(ctx, payload):
    c = payload["violation"]["case"]
    law = c.get("law")
    from dateutil.relativedelta import relativedelta
    if law == "history":
        return L.replay_history(c)
    if law == "stale_has_time":
        d = L.build_start(L.start_unjson(c["start"]))
        for st in c["steps"]:
            L.apply_step(d, st)
        x = L.parse_t(c["x"].split())
        res = x + d
        print("after %r: %r (_has_time=%r); %s + delta = %r" % (c["steps"], d, d._has_time, x, res))
        return isinstance(res, datetime.datetime) == has_time_info(d)
    if law == "fractional":
        x = L.parse_t(c["x"].split())
        bad = fractional_failure(c["kw"], x)
        print("delta=%r x=%s: %s" % (relativedelta(**c["kw"]), x, bad or "holds"))
        return bad is None
    if law == "yearday":
        x = L.parse_t(c["x"].split())
        res = x + relativedelta(yearday=c["yearday"])
        if c["yearday"] == 366 and not calendar.isleap(c["year"]):
            ed = datetime.date(c["year"], 12, 31)
        else:
            ed = datetime.date(c["year"], 1, 1) + datetime.timedelta(days=c["yearday"] - 1)
        e = x.replace(year=ed.year, month=ed.month, day=ed.day)
        print("%s + relativedelta(yearday=%d) = %s; day %d of the year is %s" % (x, c["yearday"], res, c["yearday"], e))
        return res == e
    if law == "nlyearday":
        x = L.parse_t(c["x"].split())
        print(x + relativedelta(nlyearday=c["nlyearday"]))
        return False
    kw = L.kw_unjson(c["kw"])
    x = L.parse_t(c["x"].split())
    d = L.mkrd(kw)
    s = spec_responses(ctx, [(kw, x)])[0]
    sub = L.vlib.Ctx(PROP, "quick", ctx.seed)
    check_pair(sub, kw, x, s)
    print("x=%s delta=%r impl=%s spec=%s" % (x, d, impl_add(x, d), s))
    for v in sub.violations:
        print("still failing:", v["what"])
    return not sub.violations
