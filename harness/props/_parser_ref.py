"""
_parser_ref.py — fresh-process reference for the process-zone families of C14 / C15.

Run as a script: reads {"steps": [{"TZ": ..., "case": <Call.describe()>}, ...]} from stdin, sets the process zone (os.environ
+ time.tzset) whenever it differs from the previous step's, calls dateutil.parser.parse through the same `run_impl` the checks
use, and prints {"answers": [...], "tznames": [...]}.  With every step under ONE zone this is "the implementation's answer in
a process where that zone was the first and only one used"; with several zones it replays a recorded zone sequence.
"""
import sys, os, json, time

HERE = os.path.dirname(os.path.abspath(__file__))


def main():
    sys.path.insert(0, os.path.dirname(HERE))
    sys.path.insert(0, os.path.join(os.environ.get("DATEUTIL_REPO", "/repo"), "src"))
    from props import _parser_lib as L
    req = json.load(sys.stdin)
    cur = object()
    answers, names = [], []
    for st in req["steps"]:
        if st["TZ"] != cur:
            L.set_tz(st["TZ"])
            cur = st["TZ"]
        answers.append(L.run_impl(L.call_from_case(st["case"]))[0])
        names.append(list(time.tzname))
    json.dump({"answers": answers, "tznames": names}, sys.stdout)


if __name__ == "__main__":
    main()
