"""C01 — rrule yields exactly the RFC 5545 recurrence set, in order.

correspondence: Model/RRule.lean (`construct`, `iter`) vs dateutil.rrule.rrule on seeded rules
oracle:         dateutil.rrule.rrule vs Spec/RRule.lean (`window`, `byOk`, `onGrid`) + intrinsic laws
"""
import sys, datetime, signal, json, itertools
import os
import basecorr
import vlib
from props import c01_hist as H

PROP = "C01"
TRUSTED = [
    "Model/RRule.lean is a hand transcription of rrule.__init__, _iterinfo.rebuild, the day/time sets, the BY filter, "
    "BYSETPOS selection, emission and the period advance of rrule._iter; tied to /repo by the rrule.construct / rrule.iter / "
    "rrule.orig correspondence ops on every run (normalised state, _original_rule = the kwargs replace() passes again, yielded "
    "prefix and terminal status / exception kind)",
    "the month / month-day / negative month-day / weekday / range tables are dumped from the imported module on every run "
    "(Generated/Tables.lean); the table theorems are re-checked against Base/Calendar.lean by the build",
    "Spec/RRule.lean (periodIndex, byOk, cand, sel, occ; written from the RFC text with calendar functions only) is the "
    "reference; its executable window enumeration is cross-checked against the plain definition `occ` on every run (rrule.occ)",
    "Easter in the spec is Spec.mjb (Meeus/Jones/Butcher), in the model the translated easter.easter (C19 proves them equal on 1583..4099)",
    "proved for the model: every table entry vs the calendar; masks = dates for every year; start/until/count/whole seconds and strict "
    "monotonicity for ALL rules and all seven frequencies; period day sets and advance of the calendar frequencies; the BY filter in calendar "
    "terms; iter = Spec.occ for the 41 families of SupportedBy (all seven frequencies; BYWEEKNO outside D-C01c and BYEASTER outside D-C01d under every "
    "frequency; nth weekdays alone and with BYWEEKNO / BYEASTER; MINUTELY / SECONDLY with every combination of BYHOUR / BYMINUTE / BYSECOND under decidable "
    "reachability hypotheses); the constructed rule depends only on the member SETS of the BY lists; INTERVAL < 1 is a ValueError; interleaved iterators of one "
    "object do not interfere on the model's state machine.  NOT proved (correspondence + oracle only): BYEASTER with BYWEEKNO below YEARLY, nth BYDAY + BYWEEKNO + "
    "BYEASTER, nth mixed with plain BYDAY (D-C01a) and the other known-defect classes",
    "one object / several iterators: the code is tied to the per-iterator state of the model by the AST audit c01_shared_state_sites.json (attributes "
    "rrule._iter / _iterinfo read and write, where _iterinfo is built) and by the interleaved-history stream",
]
ASSUMPTIONS = [
    "aware starts: the model carries tzinfo as an opaque tag; `until` is compared in the frame of dtstart.tzinfo "
    "(exact for the same tzinfo object and for fixed-offset zones, which is what the generators use)",
    "calendar.firstweekday() is pinned to 0 (wkst=None means Monday)",
    "datetime comparison / date.fromordinal / datetime.time range checks are CPython's (modelled in Base, tied by base.* ops)",
    "outside the quantifier (not required): empty BY tuples, members outside the RFC ranges, dtstart=None; these are "
    "exercised by the correspondence only.  INTERVAL < 1 must be refused by the constructor with ValueError (oracle class; fix D-C01-interval)",
    "an exception raised after the last representable instant of year 9999 counts as the end of the sequence",
]
RULE = ("seeded rules over freq 0..6 x interval 1..400 (and large sub-daily intervals) x wkst None/0..6 x subsets of "
        "BYSETPOS/BYMONTH/BYMONTHDAY/BYYEARDAY/BYWEEKNO/BYDAY(plain, nth, mixed)/BYEASTER/BYHOUR/BYMINUTE/BYSECOND with positive and "
        "negative members x starts (date / naive / tzutc / tzoffset / tzfile-aware; years 1..9999 biased to leap, century and boundary "
        "years, month ends) x COUNT / UNTIL (incl. exactly on an occurrence, +-1 s, microseconds, other fixed-offset zone, date) / "
        "unbounded prefix of 12..40 items; plus an exhaustive sweep of single-part rules (every BYWEEKNO number x week start, every nth "
        "weekday, every BYEASTER offset -80..250, BYSETPOS +-1..+-23) over start years 1996..2011 in the thorough tier (thin slice in quick); distinct = distinct canonical rule + prefix length; non-trivial = the implementation "
        "yielded at least one instant (or ended normally) and the case was compared against the Lean spec; cap hits are skipped cases")

from datetime import date, datetime as DTm, timedelta

YEARS_COMMON = [1996, 1997, 1999, 2000, 2003, 2004, 2008, 2015, 2020, 2021, 2024, 2026, 2032, 2033]
YEARS_EDGE = [1, 2, 4, 100, 400, 1582, 1583, 1600, 1700, 1900, 2096, 2100, 2104, 2400, 4099, 4100, 9990, 9997, 9998, 9999]
BYKEYS = ["bysetpos", "bymonth", "bymonthday", "byyearday", "byeaster", "byweekno", "byweekday", "byhour", "byminute", "bysecond"]


class _Timeout(BaseException):
    pass


def _alarm(signum, frame):
    raise _Timeout()


# ---------------------------------------------------------------------------------- generation

def some(rng, pool, kmax=3):
    k = rng.randint(1, min(kmax, len(pool)))
    return rng.sample(pool, k)


def gen_case(rng, malformed=False, freqs=None):
    freq = rng.choice(freqs or [0, 1, 2, 3, 4, 5, 6])
    c = {"freq": freq}
    u = rng.random()
    if u < 0.45:
        c["interval"] = 1
    elif u < 0.8:
        c["interval"] = rng.choice([2, 3, 4, 5, 6, 7, 8, 10, 12, 13, 14, 24, 30, 36, 48, 60, 90, 100, 120, 365, 366, 400])
    else:
        c["interval"] = rng.randint(1, 400)
    if freq >= 4 and rng.random() < 0.12:
        c["interval"] = rng.choice([720, 1000, 1440, 3600, 7200, 86400, 86401, 100000, 604800])
    c["wkst"] = None if rng.random() < 0.3 else rng.randint(0, 6)
    # start
    y = rng.choice(YEARS_COMMON) if rng.random() < 0.6 else rng.choice(YEARS_EDGE + [rng.randint(1, 9999)])
    m = rng.randint(1, 12)
    if rng.random() < 0.3:
        m = rng.choice([1, 2, 12])
    import calendar
    dim = calendar.monthrange(y, m)[1]
    d = rng.choice([1, 2, 3, dim - 2, dim - 1, dim]) if rng.random() < 0.4 else rng.randint(1, dim)
    kind = rng.choice(["date", "naive", "naive", "naive", "aware1", "aware2", "aware3"])
    if kind == "date":
        hh = mi = ss = us = 0
    else:
        hh, mi, ss = rng.choice([(0, 0, 0), (23, 59, 59), (9, 0, 0)] + [(rng.randint(0, 23), rng.randint(0, 59), rng.randint(0, 59))] * 3)
        us = rng.choice([0, 0, 123456])
    if y in (1, 9999) and kind.startswith("aware"):
        kind = "naive"               # utcoffset arithmetic at the ends of datetime's range is not the subject
    c["dtstart"] = [y, m, d, hh, mi, ss, us]
    c["kind"] = kind
    # BY parts: 0..3 date-level parts (more than two rarely intersect), then BYSETPOS and the time parts
    def want(p):
        return rng.random() < p
    nparts = rng.choice([0, 0, 0, 1, 1, 1, 1, 1, 2, 2, 2, 3])
    parts = []
    pool = ["bymonth"] * 4 + ["bymonthday"] * 4 + ["byyearday"] * 2 + ["byweekno"] * 3 + ["byweekday"] * 6 + ["byeaster"]
    while len(parts) < nparts:
        k = rng.choice(pool)
        if k not in parts:
            parts.append(k)
    if "byeaster" in parts and len(parts) > 1 and want(0.7):
        parts = ["byeaster"] + [k for k in parts if k == "bymonth"]
    if "bymonth" in parts:
        c["bymonth"] = some(rng, list(range(1, 13)), 4)
    if "bymonthday" in parts:
        c["bymonthday"] = some(rng, list(range(1, 32)) + list(range(-31, 0)) + [1, 15, 28, 29, 30, 31, -1, -2, -29, -30, -31], 3)
    if "byyearday" in parts:
        c["byyearday"] = some(rng, [1, 2, 31, 32, 59, 60, 61, 100, 200, 364, 365, 366, -1, -2, -306, -307, -364, -365, -366]
                               + [rng.randint(1, 366), -rng.randint(1, 366)], 4)
    if "byweekno" in parts:
        c["byweekno"] = some(rng, [1, 2, 10, 26, 50, 51, 52, 53, -1, -2, -3, -26, -51, -52, -53, rng.randint(1, 53), -rng.randint(1, 53)], 3)
    if "byweekday" in parts:
        wds = []
        mode = rng.choice(["plain", "plain", "plain", "nth", "nth", "mixed"])
        monthscope = freq == 1 or (freq == 0 and "bymonth" in c)
        for _ in range(rng.randint(1, 3)):
            w = rng.randint(0, 6)
            nth = mode == "nth" or (mode == "mixed" and rng.random() < 0.5)
            if nth:
                npool = [1, 2, 3, 4, 5, -1, -2, -3, -4, -5, 6] if monthscope else [1, 2, 3, 5, 10, 26, 52, 53, -1, -2, -5, -26, -52, -53, 54]
                wds.append([w, rng.choice(npool)])
            else:
                wds.append([w, 0])
        c["byweekday"] = wds
    if "byeaster" in parts:
        epool = list(range(-60, 61)) + [0, 0, -2, -46, 49, 39] * 3
        if rng.random() < 0.15:
            epool = [-120, -100, -90, -82, -81, -80, -76, -75, 249, 250, 251, 255, 258, 270, 300]
        c["byeaster"] = some(rng, epool, 2)
    if want(0.25 if freq >= 4 else 0.12):
        c["byhour"] = some(rng, list(range(24)), 3)
    if want(0.25 if freq >= 5 else 0.1):
        c["byminute"] = some(rng, list(range(60)) + [0, 59, 30], 3)
    if want(0.25 if freq >= 6 else 0.08):
        c["bysecond"] = some(rng, list(range(60)) + [0, 59], 3)
    if want(0.2):
        # positions that can exist: a period of a sub-daily/daily rule holds only its time set
        ntimes = 1
        for k, f in (("byhour", 4), ("byminute", 5), ("bysecond", 6)):
            if k in c and freq <= f:
                ntimes *= len(c[k])
        if freq >= 3 and want(0.85):
            c["bysetpos"] = some(rng, [p for p in [1, 2, 3, -1, -2, -3] if abs(p) <= ntimes] + [1, -1], 2)
        else:
            c["bysetpos"] = some(rng, [1, 2, 3, 4, 5, -1, -2, -3, -4, 7, 20, -20, 366, -366], 3)
    if malformed:
        k = rng.choice(["bymonth", "bymonthday", "byyearday", "byweekno", "byhour", "byminute", "bysecond", "bysetpos", "byweekday", "empty", "byeaster"])
        bad = {"bymonth": [0, 13, -1, -12, -11, -2, 14, -13], "bymonthday": [0, 32, -32], "byyearday": [0, 367, -367],
               "byweekno": [0, 54, -54], "byhour": [24, 25, -1], "byminute": [60, -1, 61], "bysecond": [60, 61, -1],
               "bysetpos": [0, 367, -367], "byeaster": [400, -400, 365, -365]}
        if k == "empty":
            c[rng.choice(BYKEYS)] = []
        elif k == "byweekday":
            c["byweekday"] = c.get("byweekday", []) + [[rng.randint(0, 6), rng.choice([54, -54, 60, 100, -100, 6, -6])]]
        else:
            c[k] = c.get(k, []) + [rng.choice(bad[k])]
        c["malformed"] = True
    if rng.random() < 0.3:
        respell(rng, c)
    # termination
    t = rng.random()
    if t < 0.33:
        c["count"] = rng.choice([0, 1, 2, 3, 5, 7, 10, 12, 20, 30])
    elif t < 0.66:
        c["until_plan"] = rng.choice(["span", "span", "on", "on+1", "on-1", "on+us", "date", "othertz"])
    c["n"] = rng.randint(12, 40)
    c["scalars"] = rng.random() < 0.3
    return c


_TZ = {}


def tzobj(kind):
    from dateutil import tz
    if kind not in _TZ:
        _TZ[kind] = {"aware1": tz.tzutc(), "aware2": tz.tzoffset("X", 5 * 3600 + 1800),
                     "aware3": tz.gettz("America/New_York") or tz.tzoffset("NY", -5 * 3600)}[kind]
    return _TZ[kind]


def dtstart_obj(c):
    y, m, d, hh, mi, ss, us = c["dtstart"]
    if c["kind"] == "date":
        return date(y, m, d)
    if c["kind"] == "naive":
        return DTm(y, m, d, hh, mi, ss, us)
    return DTm(y, m, d, hh, mi, ss, us, tzinfo=tzobj(c["kind"]))


def until_obj(c):
    """the `until` argument; c['until'] holds its naive fields in the frame of dtstart.tzinfo"""
    if c.get("until") is None:
        return None
    u = DTm(*c["until"])
    if c["kind"] in ("date", "naive"):
        if c.get("until_isdate"):
            return u.date()
        return u
    z = tzobj(c["kind"])
    a = u.replace(tzinfo=z)
    if c.get("until_othertz") and c["kind"] in ("aware1", "aware2"):
        from dateutil import tz
        try:
            return a.astimezone(tz.tzoffset("O", -3 * 3600))
        except (OverflowError, ValueError):
            return a
    return a


def kwargs_of(c):
    from dateutil import rrule as R
    kw = {"dtstart": dtstart_obj(c), "interval": c["interval"]}
    if c["wkst"] is not None:
        kw["wkst"] = R.weekdays[c["wkst"]] if (c.get("scalars") or c.get("wkst_obj")) else c["wkst"]
    if c.get("count") is not None:
        kw["count"] = c["count"]
    u = until_obj(c)
    if u is not None:
        kw["until"] = u
    for k in BYKEYS:
        if c.get(k) is None:
            continue
        v = c[k]
        if k == "byweekday":
            v = [(R.weekdays[w] if (c.get("scalars") and (w + n) % 2 == 0) else w) if n == 0 else R.weekdays[w](n) for w, n in v]
        else:
            v = list(v)
        if c.get("bools") and k != "byweekday":
            v = [bool(x) if x in (0, 1) else x for x in v]            # True == 1, False == 0: the same member
        if c.get("scalars") and len(v) == 1:
            v = v[0]
        else:
            v = _container(v, (c.get("container") or {}).get(k))
        kw[k] = v
    return kw


def _container(v, how):
    """the same members in another spelling of the argument: tuple / set / frozenset / a generator or iterator that can be
    consumed only once / a dict's keys view"""
    if how in (None, "list"):
        return v
    if how == "tuple":
        return tuple(v)
    if how == "gen":
        return (x for x in v)
    if how == "iter":
        return iter(list(v))
    if how == "set":
        return set(v)
    if how == "frozenset":
        return frozenset(v)
    if how == "keys":
        return dict.fromkeys(v).keys()
    return v


CONTAINERS = ["list", "tuple", "gen", "iter", "set", "frozenset", "keys"]


def respell(rng, c, p_key=0.6):
    """repeat and shuffle the members of the BY lists of `c` (the lists in the case ARE the arguments: the model gets them
    with the repetitions) and pick a container spelling per part"""
    cont = {}
    for k in BYKEYS:
        l = c.get(k)
        if not l or rng.random() >= p_key:
            continue
        l2 = list(l) + [rng.choice(l) for _ in range(rng.randint(1, 3))]
        rng.shuffle(l2)
        c[k] = l2
        # bysetpos / byeaster are kept as given (tuple(bysetpos), tuple(sorted(byeaster))): only spellings that keep
        # order and repetitions say the same thing there
        cont[k] = rng.choice(CONTAINERS[:4] if k in ("bysetpos", "byeaster") else CONTAINERS)
    if cont:
        c["container"] = cont
    if rng.random() < 0.25:
        c["bools"] = True
    return c


def spelling_cases():
    """EVERY BY part x every frequency with repeated + unsorted members, in every container spelling (and once with
    BYSETPOS on top): the constructor normalises by SET (C01.construct_perm_dup_invariant), so the rule, and the strictly
    increasing duplicate-free sequence, do not depend on the spelling"""
    members = {"bymonth": [3, 11, 3], "bymonthday": [15, -1, 15, -1], "byyearday": [100, -100, 61, 100], "byweekno": [20, -10, 20, 9],
               "byweekday": [[1, 0], [3, 0], [1, 0]], "byeaster": [1, -2, 1], "byhour": [17, 9, 17, 9], "byminute": [30, 0, 30],
               "bysecond": [40, 10, 40, 10], "bysetpos": [1, -1, 1]}
    out = []
    i = 0
    for freq in range(7):
        for k in BYKEYS:
            for extra in (None, "bysetpos", "nth"):
                if extra == "bysetpos" and k == "bysetpos":
                    continue
                if extra == "nth" and not (k == "byweekday" and freq <= 1):
                    continue
                c = {"freq": freq, "interval": 1, "wkst": None, "dtstart": [2024, 3, 1, 9, 0, 10, 0], "kind": "naive", "n": 8,
                     k: [list(x) if isinstance(x, list) else x for x in members[k]]}
                if extra == "nth":
                    c["byweekday"] = [[4, 1], [4, -1], [4, 1], [2, 2]]
                if k == "bysetpos" or extra == "bysetpos":
                    c["bysetpos"] = list(members["bysetpos"])
                    if freq <= 2 and k in ("bysetpos", "byhour", "byminute", "bysecond"):
                        c.setdefault("byweekday", [[0, 0], [2, 0], [4, 0]])
                    if freq >= 3 and k not in ("byhour", "byminute", "bysecond"):
                        c["bysecond"] = [50, 20, 50]            # several candidates per period for the positions to select from
                if freq >= 5 and k in ("bymonth", "byyearday", "byweekno", "byeaster", "bymonthday"):
                    c["interval"] = 3600 if freq == 5 else 86400 * 3 + 7           # reach the matching days within the work cap
                cont = CONTAINERS[i % len(CONTAINERS)]
                c["container"] = {kk: (cont if kk not in ("bysetpos", "byeaster") else CONTAINERS[i % 4]) for kk in BYKEYS if c.get(kk)}
                if i % 5 == 0:
                    c["bools"] = True
                i += 1
                out.append(c)
    return out


def build(c):
    """construct the rule; with c["fwd"] = k the constructor runs while the PROCESS-WIDE calendar.firstweekday() is k
    (it is read by rrule.__init__ when wkst is None) and the previous value is restored afterwards"""
    from dateutil import rrule as R
    import warnings, calendar
    fwd = c.get("fwd")
    old = calendar.firstweekday()
    with warnings.catch_warnings():
        warnings.simplefilter("ignore")
        try:
            if fwd is not None:
                calendar.setfirstweekday(fwd)
            return R.rrule(c["freq"], **kw_clean(kwargs_of(c)))
        finally:
            calendar.setfirstweekday(old)


def kw_clean(kw):
    return kw


def wire(c):
    def ol(v):
        return "-" if v is None else vlib.ilist(v)
    wd = c.get("byweekday")
    toks = [str(c["freq"]), str(c["interval"]),
            vlib.oint(c["wkst"]) + ("" if c.get("fwd") is None else "@%d" % c["fwd"]), vlib.oint(c.get("count")),
            ol(c.get("until")), vlib.ilist(c["dtstart"]), str({"date": 0, "naive": 0, "aware1": 1, "aware2": 2, "aware3": 3}[c["kind"]]),
            ol(c.get("bysetpos")), ol(c.get("bymonth")), ol(c.get("bymonthday")), ol(c.get("byyearday")), ol(c.get("byeaster")),
            ol(c.get("byweekno")), "-" if wd is None else vlib.ilist([x for p in wd for x in p]),
            ol(c.get("byhour")), ol(c.get("byminute")), ol(c.get("bysecond"))]
    return " ".join(toks)


RULEKEYS = ["freq", "interval", "wkst", "fwd", "wkst_obj", "count", "until", "dtstart", "kind", "n", "until_isdate", "until_othertz", "scalars",
            "container", "bools", "text"]


def canon(c):
    return json.dumps({k: c.get(k) for k in ["freq", "interval", "wkst", "fwd", "wkst_obj", "count", "until", "dtstart", "kind", "n", "container", "bools", "text"] + BYKEYS}, sort_keys=True)


def item(x):
    return "%d.%d.%d.%d.%d.%d" % (x.year, x.month, x.day, x.hour, x.minute, x.second)


FUEL = {0: 700, 1: 4000, 2: 6000, 3: 20000, 4: 40000, 5: 40000, 6: 40000}


class _TurnCap(BaseException):
    pass


WORKCAP = 400000               # executed source lines of dateutil.rrule allowed per rule run (about 0.1 s)
_WORK = [0, 1 << 62]           # lines executed / allowed
TIME_FAILSAFE = [0]            # rule runs stopped by the wall-clock failsafe (expected: 0)
_CAP_KIND = ["lines"]


def _install_work_counter():
    """deterministic cap on one rule run: the number of source lines of dateutil/rrule.py executed while iterating
    (sys.monitoring LINE events on the code objects of rrule / rrulebase / _iterinfo), so which rules are cut off
    is a function of the rule and of the source, not of the machine load.  Covers the turns of the generator's
    loop, the BY-filter loop over the days, the reachability loops of MINUTELY / SECONDLY and the result loops."""
    from dateutil import rrule as R
    if getattr(R, "_verif_work_counter", False):
        return
    R._verif_work_counter = True
    mon = getattr(sys, "monitoring", None)
    if mon is None:                                   # Python < 3.12: count the turns of the loop instead
        _CAP_KIND[0] = "turns"
        for name in ("ydayset", "mdayset", "wdayset", "ddayset"):
            f = getattr(R._iterinfo, name)

            def g(self, *a, _f=f):
                _WORK[0] += 10
                if _WORK[0] > _WORK[1]:
                    raise _TurnCap()
                return _f(self, *a)
            setattr(R._iterinfo, name, g)
        return
    import types
    tool = next(t for t in (4, 3, 5) if mon.get_tool(t) is None)
    mon.use_tool_id(tool, "verif-c01-work")

    def cb(code, line):
        _WORK[0] += 1
        if _WORK[0] > _WORK[1]:
            raise _TurnCap()
    mon.register_callback(tool, mon.events.LINE, cb)
    for cls in (R.rrule, R.rrulebase, R._iterinfo):
        for f in vars(cls).values():
            if isinstance(f, types.FunctionType):
                mon.set_local_events(tool, f.__code__, mon.events.LINE)


def run_impl(c, n, work=None, failsafe=10.0):
    """(status, items, rule-or-None): status in ctor_<Kind> | more | stop | err_<Kind> | cap
    cap = the generator executed WORKCAP source lines without delivering `n` items"""
    _install_work_counter()
    try:
        r = build(c)
    except _Timeout:
        raise
    except Exception as ex:
        return "ctor_" + type(ex).__name__, [], None
    items, status = [], "more"
    old = signal.signal(signal.SIGALRM, _alarm)
    _WORK[0], _WORK[1] = 0, (WORKCAP if work is None else work)
    try:
        signal.setitimer(signal.ITIMER_REAL, failsafe)
        try:
            it = iter(r)
            while len(items) < n:
                try:
                    items.append(next(it))
                except StopIteration:
                    status = "stop"
                    break
        except _TurnCap:
            status = "cap"
        except _Timeout:
            status = "cap"
            TIME_FAILSAFE[0] += 1
        except Exception as ex:
            status = "err_" + type(ex).__name__
        finally:
            signal.setitimer(signal.ITIMER_REAL, 0)
    except _Timeout:
        status = "cap"
        TIME_FAILSAFE[0] += 1
    finally:
        _WORK[1] = 1 << 62
        signal.signal(signal.SIGALRM, old)
    return status, items, r


def plan_until(c, rng):
    """turn c['until_plan'] into concrete naive until fields (frame of dtstart.tzinfo)"""
    plan = c.pop("until_plan", None)
    if plan is None:
        return
    y, m, d, hh, mi, ss, us = c["dtstart"]
    start = DTm(y, m, d, hh, mi, ss)
    span_days = {0: 366 * 12 * c["interval"], 1: 31 * 14 * c["interval"], 2: 7 * 15 * c["interval"], 3: 20 * c["interval"],
                 4: max(3, c["interval"] * 30 // 24), 5: max(2, c["interval"] * 40 // 1440), 6: max(2, c["interval"] * 60 // 86400)}[c["freq"]]
    u = None
    if plan in ("on", "on+1", "on-1", "on+us"):
        c2 = dict(c); c2.pop("count", None)
        st, items, _ = run_impl(c2, rng.randint(1, 8))
        if items:
            x = items[-1].replace(tzinfo=None)
            try:
                u = {"on": x, "on+1": x + timedelta(seconds=1), "on-1": x - timedelta(seconds=1),
                     "on+us": x + timedelta(microseconds=rng.choice([1, 999999]))}[plan]
            except OverflowError:
                u = x
    if u is None:
        try:
            u = start + timedelta(days=rng.randint(0, span_days), seconds=rng.randint(0, 86399),
                                  microseconds=rng.choice([0, 0, 500000]))
        except OverflowError:
            u = DTm(9999, 12, 31, 23, 59, 59)
    if plan == "date" and c["kind"] in ("date", "naive"):
        u = DTm(u.year, u.month, u.day)
        c["until_isdate"] = True
    if plan == "othertz":
        c["until_othertz"] = True
    c["until"] = [u.year, u.month, u.day, u.hour, u.minute, u.second, u.microsecond]


def impl_rule_dump(r):
    def ol(v):
        return "-" if v is None else vlib.ilist(sorted(v) if isinstance(v, (set, frozenset)) else list(v))
    nw = r._bynweekday
    ts = r._timeset
    return " ".join([str(r._freq), str(r._interval), str(r._wkst), ol(r._bysetpos), ol(r._bymonth), ol(r._bymonthday), ol(r._bynmonthday),
                     ol(r._byyearday), ol(r._byeaster), ol(r._byweekno), ol(r._byweekday),
                     "-" if nw is None else vlib.ilist([x for p in nw for x in p]),
                     ol(r._byhour), ol(r._byminute), ol(r._bysecond),
                     "-" if ts is None else vlib.ilist([x for t in ts for x in (t.hour, t.minute, t.second)])])


def impl_orig_dump(c, r):
    """the keyword arguments rrule.replace() (no overrides) would pass, in the 17-token wire form"""
    o = r._original_rule
    def ol(k):
        v = o.get(k)
        return "-" if v is None else vlib.ilist(list(v))
    wd = o.get("byweekday")
    ds = r._dtstart
    u = r._until
    return " ".join([str(r._freq), str(r._interval), str(r._wkst), vlib.oint(r._count),
                     "-" if u is None else ("-" if c.get("until") is None else vlib.ilist(c["until"])),
                     vlib.ilist([ds.year, ds.month, ds.day, ds.hour, ds.minute, ds.second, ds.microsecond]),
                     str({"date": 0, "naive": 0, "aware1": 1, "aware2": 2, "aware3": 3}[c["kind"]]),
                     ol("bysetpos"), ol("bymonth"), ol("bymonthday"), ol("byyearday"), ol("byeaster"), ol("byweekno"),
                     "-" if wd is None else vlib.ilist([x for w in wd for x in (w.weekday, w.n or 0)]),
                     ol("byhour"), ol("byminute"), ol("bysecond")])


# ---------------------------------------------------------------------------------- correspondence

def ambient_cases(ctx, tag, n_random):
    """rules built while calendar.firstweekday() is k = 0..6 (process-wide state, read by the constructor when wkst is
    None): every k x wkst in {None, explicit 0 = MO, another int, a weekday object} x the week-start-sensitive
    families (WEEKLY interval 2-3 with several BYDAY, YEARLY BYWEEKNO incl. 1 / 52 / 53 / -1, with and without
    BYDAY), plus generated rules under a random k"""
    rng = ctx.subrng(tag)
    out = []
    fams = [
        {"freq": 2, "interval": 2, "dtstart": [1997, 8, 5, 9, 0, 0, 0], "byweekday": [[1, 0], [6, 0]], "count": 6, "n": 8},
        {"freq": 2, "interval": 3, "dtstart": [2021, 3, 10, 8, 30, 0, 0], "byweekday": [[0, 0], [2, 0], [5, 0]], "n": 9},
        {"freq": 0, "interval": 1, "dtstart": [2019, 1, 1, 9, 0, 0, 0], "byweekno": [1], "n": 10},
        {"freq": 0, "interval": 1, "dtstart": [2019, 1, 1, 9, 0, 0, 0], "byweekno": [53, -1], "n": 10},
        {"freq": 0, "interval": 1, "dtstart": [2019, 1, 1, 9, 0, 0, 0], "byweekno": [52, -1], "byweekday": [[6, 0], [0, 0]], "n": 8},
        {"freq": 0, "interval": 1, "dtstart": [1997, 5, 12, 9, 0, 0, 0], "byweekno": [20], "byweekday": [[0, 0]], "n": 4},
    ]
    for k in range(7):
        for fam in fams:
            for wk, obj in ((None, False), (0, False), (0, True), ((k + 3) % 7, False), ((k + 1) % 7, True)):
                c = {"wkst": wk, "kind": "naive", "fwd": k, "wkst_obj": obj}
                c.update(fam)
                out.append(c)
    for _ in range(n_random):
        c = gen_case(rng, freqs=[0, 2, 2, 3])
        plan_until(c, rng)
        c["fwd"] = rng.randint(0, 6)
        c["wkst_obj"] = rng.random() < 0.5
        if rng.random() < 0.4:
            c["wkst"] = 0
        out.append(c)
    return out


def gen_cases(ctx, tag, n, malformed_rate=0.0, freqs=None):
    rng = ctx.subrng(tag)
    out = []
    for _ in range(n):
        c = gen_case(rng, malformed=rng.random() < malformed_rate, freqs=freqs)
        plan_until(c, rng)
        out.append(c)
    return out


def split_resp(resp):
    t = resp.split()
    if t[0] != "ok":
        return "ctor_" + t[1] if t[0] == "err" else resp, []
    return t[1], t[2:]


def classify(ctx, cases, tag):
    """which exactness theorem (RRule.family, Spec/RRuleSupported.lean = the hypothesis of
    iter_eq_spec_supported_partial) covers each sampled rule"""
    for c, rsp in zip(cases, ctx.driver(["rrule.supported " + wire(c) for c in cases])):
        fam = rsp.split()[1] if rsp.startswith("ok ") else "-"
        ctx.count("rules_sampled")
        ctx.count(tag + "_rules_sampled")
        if fam != "-":
            ctx.count("rules_under_exactness_theorem")
            ctx.count(tag + "_rules_under_exactness_theorem")
            ctx.count("theorem_family_" + fam)


def correspondence(ctx):
    basecorr.run(ctx)
    __import__("rrgenlib").validate(ctx, sys.modules[__name__])     # translator tie (wt-trrule): Gen.* of Generated/RRuleKernels.lean vs the methods
    # shared-state audit: rrule._iter / _iterinfo write no attribute of the rule object other than _len, read only what
    # __init__ created, and build their iteration state (_iterinfo) locally — the model's `State` is per iterator
    # (C01.interleaved_iterators_independent).  A new site is a broken correspondence; the history stream then runs
    # with the thorough budget to find an interleaving on which two iterators of one object disagree.
    new, gone = H.audit(ctx, os.environ.get("DATEUTIL_REPO", "/repo"))
    if new or gone:
        ctx.mismatch("shared-state audit (rrule._iter / _iterinfo / __init__ attribute sites vs c01_shared_state_sites.json)",
                     "src/dateutil/rrule.py", "new: %s; removed: %s" % (new[:12], gone[:12]),
                     "iteration state is local to the generator; the only attribute of the rule object an iteration writes is _len")
        ctx.count("shared_state_sites_new_or_changed", len(new) + len(gone))
        ctx.escalated = True
        ctx.shared_state_changed = True
    cases = list(WITNESS_CASES) + gen_cases(ctx, "corr", ctx.budget(300, 4000), malformed_rate=0.15)
    cases += ambient_cases(ctx, "corr-ambient", ctx.budget(30, 600))
    cases += spelling_cases() + interval_cases() + orbit_cases()
    reqs_c = ["rrule.construct " + wire(c) for c in cases]
    reqs_i = ["rrule.iter %s %d %d" % (wire(c), c["n"], FUEL[c["freq"]]) for c in cases]
    got_c = ctx.driver(reqs_c)
    got_i = ctx.driver(reqs_i)
    got_o = ctx.driver(["rrule.orig " + wire(c) for c in cases])
    classify(ctx, cases, "corr")
    for c, gc, gi, go in zip(cases, got_c, got_i, got_o):
        st, items, r = run_impl(c, c["n"])
        ctx.traces += 1
        # normalised state
        if r is None:
            impl_c = "err " + st[5:]
        else:
            impl_c = "ok " + impl_rule_dump(r)
        if impl_c != gc:
            ctx.mismatch("rrule.construct", wire(c), impl_c, gc)
            ctx.count("corr_construct_diff")
            continue
        if r is not None:
            io = "ok " + impl_orig_dump(c, r)
            if io != go:
                ctx.mismatch("rrule.orig (_original_rule / replace() kwargs)", wire(c), io, go)
            else:
                ctx.count("corr_original_rule_ok")
        mst, mitems = split_resp(gi)
        iitems = [item(x) for x in items]
        ctx.count("corr_status_" + st.split("_")[0])
        if st == "cap" or mst == "fuel":
            ctx.count("corr_cap_skipped")
            k = min(len(iitems), len(mitems))
            if iitems[:k] != mitems[:k]:
                ctx.mismatch("rrule.iter(prefix before cap)", wire(c), " ".join(iitems[:k]), " ".join(mitems[:k]))
            continue
        mcls = "stop" if mst.startswith("stop_") else mst
        if (st, iitems) != (mcls, mitems):
            ctx.mismatch("rrule.iter", wire(c) + " n=%d" % c["n"], st + " " + " ".join(iitems), mst + " " + " ".join(mitems))
            ctx.corr_bad = getattr(ctx, "corr_bad", []) + [c]
        else:
            ctx.count("corr_freq_%d" % c["freq"])
            if mst.startswith("stop_") or mst.startswith("err_"):
                ctx.count("corr_end_" + mst)
    # the spec's window enumeration against its plain definition
    sc = [c for c in gen_cases(ctx, "specself", ctx.budget(150, 1500), freqs=[0, 1, 2, 3]) if c["interval"] <= 30]
    # … also for the sub-daily frequencies (where the oracle is all there is for rules with BYHOUR / BYMINUTE /
    # BYSECOND): more periods, since most periods of a sparse rule are empty
    sc += [c for c in gen_cases(ctx, "specself-sub", ctx.budget(90, 900), freqs=[4, 5, 6]) if c["interval"] <= 5000]
    if sc:
        NPS = {0: 14, 1: 14, 2: 14, 3: 14, 4: 300, 5: 1500, 6: 3000}
        r1 = ctx.driver(["rrule.occ %s %d" % (wire(c), NPS[c["freq"]]) for c in sc])
        # the window that covers exactly those periods: ask for everything up to the last item of occ
        reqs2, keep = [], []
        for c, a in zip(sc, r1):
            its = a.split()[1:]
            if not its:
                continue
            y, m, d = [int(x) for x in its[-1].split(".")[:3]]
            reqs2.append("rrule.spec %s %d %d %d" % (wire(c), 1, date(y, m, d).toordinal(), len(its)))
            keep.append((c, its))
        r2 = ctx.driver(reqs2)
        for (c, its), b in zip(keep, r2):
            w = b.split()[2:]
            ctx.count("spec_selfcheck")
            ctx.count("spec_selfcheck_freq_%d" % c["freq"])
            if w[:len(its)] != its:
                ctx.mismatch("rrule.spec vs rrule.occ", wire(c), " ".join(its), " ".join(w))


# ---------------------------------------------------------------------------------- oracle

HCAP = {0: 160000, 1: 60000, 2: 40000, 3: 120000, 4: 40000, 5: 20000, 6: 8000}

WITNESS_CASES = [
    # D-C01a
    {"freq": 1, "interval": 1, "wkst": None, "dtstart": [2020, 1, 1, 9, 0, 0, 0], "kind": "naive", "byweekday": [[0, 0], [1, 1]], "n": 6, "until": [2021, 1, 1, 0, 0, 0, 0]},
    {"freq": 1, "interval": 1, "wkst": None, "dtstart": [2020, 1, 1, 9, 0, 0, 0], "kind": "naive", "byweekday": [[0, 0], [0, 1]], "n": 6},
    # D-C01c
    {"freq": 0, "interval": 1, "wkst": 1, "dtstart": [2033, 12, 1, 0, 0, 0, 0], "kind": "naive", "byweekno": [52], "byweekday": [[6, 0]], "n": 4},
    {"freq": 0, "interval": 1, "wkst": 0, "dtstart": [2020, 1, 1, 0, 0, 0, 0], "kind": "naive", "byweekno": [-53], "n": 14},
    # D-C01d
    {"freq": 0, "interval": 1, "wkst": None, "dtstart": [2032, 1, 1, 0, 0, 0, 0], "kind": "naive", "byeaster": [-100], "n": 4},
    {"freq": 0, "interval": 1, "wkst": None, "dtstart": [2032, 1, 1, 0, 0, 0, 0], "kind": "naive", "byeaster": [300], "n": 4},
    # former D-C01f (fixed in /repo 968ce74): BYWEEKNO with a start in year 1
    {"freq": 0, "interval": 1, "wkst": 2, "dtstart": [1, 12, 31, 0, 0, 0, 0], "kind": "naive", "byweekno": [26], "count": 1, "n": 3},
    # former D-C01g (withdrawn): empty set + ValueError at the first next() is allowed by the property
    {"freq": 5, "interval": 120, "wkst": None, "dtstart": [2024, 1, 1, 0, 0, 0, 0], "kind": "naive", "byhour": [1], "n": 3},
    {"freq": 6, "interval": 3600, "wkst": None, "dtstart": [2024, 1, 1, 0, 0, 0, 0], "kind": "naive", "byminute": [5], "count": 3, "n": 3},
    # D-C01e
    {"freq": 2, "interval": 1, "wkst": None, "dtstart": [2020, 1, 1, 0, 0, 0, 0], "kind": "naive", "byweekday": [[0, 0], [4, 0]], "bysetpos": [1], "n": 5},
]


def parse_item(s):
    return tuple(int(x) for x in s.split("."))


def unknown_violations(ctx):
    return [v for v in ctx.violations if not any(_safe(k, v) for k in KNOWN.values())]


def _safe(pred, v):
    try:
        return bool(pred(v))
    except Exception:
        return False


def orbit_cases():
    """rules whose next occurrence lies exactly ONE FULL ORBIT of the grid later (the only listed grid point is the start's own
    time of day): the reachability loops of MINUTELY / SECONDLY and __mod_distance need every one of their passes — the bounds
    1440 / gcd, 86400 / gcd, 24, 60 of the code are the bounds of the model's loops (`secondlyLoop_bhm`, `minutelyLoop_bm`,
    `mod_distance_least`); one pass fewer and the rule would end in a ValueError"""
    def c(freq, interval, hms, **kw):
        d = {"freq": freq, "interval": interval, "wkst": None, "dtstart": [2024, 2, 27, hms[0], hms[1], hms[2], 0], "kind": "naive", "n": 4}
        d.update(kw)
        return d
    out = [
        c(6, 60, (9, 0, 0), byhour=[9], byminute=[0]), c(6, 3600, (9, 0, 0), byhour=[9]), c(6, 1, (9, 0, 0), byhour=[9], byminute=[0], bysecond=[0]),
        c(6, 7200, (23, 59, 59), byhour=[23]), c(6, 86400, (9, 30, 15), byhour=[9], byminute=[30], bysecond=[15]),
        c(6, 43200, (9, 30, 15), byhour=[9]), c(6, 90, (0, 0, 0), byhour=[0], byminute=[0]), c(6, 17, (5, 5, 5), byminute=[5], bysecond=[5], byhour=[5]),
        c(5, 60, (9, 0, 0), byhour=[9]), c(5, 1, (9, 0, 0), byhour=[9], byminute=[0]), c(5, 1440, (9, 7, 0), byhour=[9], byminute=[7]),
        c(5, 720, (9, 7, 0), byhour=[9]), c(5, 45, (12, 0, 0), byhour=[12], byminute=[0]), c(5, 7, (3, 3, 0), byhour=[3], byminute=[3]),
        c(4, 1, (9, 0, 0), byhour=[9]), c(4, 24, (9, 0, 0), byhour=[9]), c(4, 5, (13, 0, 0), byhour=[13]), c(4, 16, (8, 0, 0), byhour=[8]),
    ]
    return out


def interval_cases():
    """INTERVAL < 1 (RFC 5545: a positive integer): every frequency x interval 0 / -1 / -2 / -30, bare and with BY parts,
    COUNT and UNTIL: the constructor must raise ValueError (fix D-C01-interval); before the fix interval=0 yielded the start for
    ever (duplicates; with UNTIL or a BY part that excludes the start the generator never returned) and interval < 0
    yielded the start and then raised from date.fromordinal"""
    out = []
    for freq in range(7):
        for iv in (0, -1, -2, -30):
            for extra in ({}, {"count": 3}, {"until": [2024, 1, 20, 0, 0, 0, 0]}, {"bymonthday": [2]}, {"byhour": [10], "byweekday": [[1, 0]]}):
                c = {"freq": freq, "interval": iv, "wkst": None, "dtstart": [2024, 1, 10, 9, 0, 0, 0], "kind": "naive", "n": 4}
                c.update(extra)
                out.append(c)
    return out


def sweep_cases(full):
    """exhaustive finite sub-domains for the BY parts whose exactness is not proved: every BYWEEKNO number x
    week start, every nth weekday, every BYEASTER offset of the supported class, BYSETPOS positions;
    over start years covering all 14 year types (thorough) or a thin slice (quick)"""
    out = []
    years = list(range(1996, 2012)) if full else [2004, 2009]
    def base(freq, y, **kw):
        c = {"freq": freq, "interval": 1, "wkst": None, "dtstart": [y, 1, 1, 0, 0, 0, 0], "kind": "naive", "n": 4}
        c.update(kw)
        return c
    for y in years:
        for wk in (range(7) if full else (0, 6)):
            for n in list(range(-53, 0)) + list(range(1, 54)):
                if not full and abs(n) not in (1, 2, 26, 51, 52, 53):
                    continue
                out.append(base(0, y, wkst=wk, byweekno=[n]))
    for y in (years[:8] if full else years[:1]):
        for wd in range(7):
            for n in (-5, -4, -3, -2, -1, 1, 2, 3, 4, 5):
                out.append(base(1, y, byweekday=[[wd, n]]))
                out.append(base(0, y, bymonth=[2, 12], byweekday=[[wd, n]]))
            for n in (list(range(-53, 0)) + list(range(1, 54)) if full else (-53, -52, -1, 1, 52, 53)):
                out.append(base(0, y, byweekday=[[wd, n]]))
            # YEARLY + BYMONTH with two adjacent months: an ordinal that does not exist in the first month
            # (5th / -5th weekday) must not spill into the neighbour
            if full or wd in (1, 4):
                for m in range(1, 12):
                    for n in ((-5, -4, 4, 5) if full or m in (1, 2) else (-5, 5)):
                        out.append(base(0, y, bymonth=[m, m + 1], byweekday=[[wd, n]]))
    for y in ((1996, 2000, 2008, 2038) if full else (2008,)):
        for o in (range(-80, 251) if full else range(-80, 251, 17)):
            out.append(base(0, y, byeaster=[o]))
            if full and o % 5 == 0:
                out.append(base(3, y, byeaster=[o], n=3))
    for y in years[:4]:
        for p in list(range(-23, 0)) + list(range(1, 24)):
            if full or abs(p) in (1, 2, 22, 23):
                out.append(base(1, y, byweekday=[[0, 0], [1, 0], [2, 0], [3, 0], [4, 0]], bysetpos=[p]))
    return out


def oracle(ctx):
    if getattr(ctx, "shared_state_changed", False):
        # the audit found iteration state outside the generator: look for a failing interleaving first
        interleave_stream(ctx)
        if len(unknown_violations(ctx)) >= 3:
            ctx.note("oracle stopped after the interleaved-iterator histories: failing interleavings found")
            return
    cases = [dict(c) for c in WITNESS_CASES]
    cases += [c for c in getattr(ctx, "corr_bad", [])]          # inputs on which model and implementation differed
    evaluate(ctx, cases)
    # the small deterministic streams first: every BY part x every frequency with repeated / unsorted members in every
    # container spelling; INTERVAL < 1
    sp = spelling_cases()
    ctx.count("oracle_spelling_cases", len(sp))
    evaluate(ctx, sp)
    iv = interval_cases()
    ctx.count("oracle_interval_cases", len(iv))
    evaluate(ctx, iv)
    ob = orbit_cases()
    ctx.count("oracle_orbit_cases", len(ob))
    evaluate(ctx, ob)
    until_zone_stream(ctx)
    if len(unknown_violations(ctx)) >= 3:
        ctx.note("oracle stopped after the spelling / interval streams: failing inputs found")
        return
    full = ctx.budget(0, 1) == 1
    sw = sweep_cases(full)
    ctx.count("oracle_sweep_cases", len(sw))
    for i in range(0, len(sw), 1000):
        evaluate(ctx, sw[i:i + 1000])
        if len(unknown_violations(ctx)) >= 3:
            break
    amb = ambient_cases(ctx, "oracle-ambient", ctx.budget(40, 800))
    ctx.count("oracle_ambient_firstweekday_cases", len(amb))
    evaluate(ctx, amb)
    if not getattr(ctx, "shared_state_changed", False):
        interleave_stream(ctx)
    rng_cases = gen_cases(ctx, "oracle", ctx.budget(400, 5000))
    for i in range(0, len(rng_cases), 500):
        evaluate(ctx, rng_cases[i:i + 500])
        if len(unknown_violations(ctx)) >= 3:
            ctx.note("oracle stopped after %d generated rules: failing inputs found" % (i + 500))
            break
    ctx.note("rules_under_exactness_theorem: %d of %d sampled rules (%.1f %%) satisfy `SupportedBy` for some family, i.e. lie under "
             "iter_eq_spec_supported_partial; per family: %s"
             % (ctx.hist.get("rules_under_exactness_theorem", 0), ctx.hist.get("rules_sampled", 0),
                100.0 * ctx.hist.get("rules_under_exactness_theorem", 0) / max(1, ctx.hist.get("rules_sampled", 0)),
                ", ".join("%s %d" % (k[len("theorem_family_"):], v) for k, v in sorted(ctx.hist.items()) if k.startswith("theorem_family_"))))
    ncap = ctx.hist.get("corr_status_cap", 0) + ctx.hist.get("oracle_status_cap", 0)
    nall = sum(v for k, v in ctx.hist.items() if k.startswith("corr_status_") or k.startswith("oracle_status_"))
    ctx.note("per-rule cap = %d executed source %s of dateutil/rrule.py (a function of the rule, not of the clock): "
             "%d of %d rule runs were cut off and compared on the prefix delivered so far; wall-clock failsafe hits: %d"
             % (WORKCAP, _CAP_KIND[0], ncap, nall, TIME_FAILSAFE[0]))


HIST_SEEDS = [
    # two iterators of one DAILY rule on both sides of a year end; nested loops over a YEARLY rule with several
    # results per period; a query inside a loop; an rruleset holding the rule twice next to a plain iterator
    ({"freq": 3, "interval": 1, "wkst": None, "dtstart": [2004, 12, 20, 9, 0, 0, 0], "kind": "naive", "n": 60},
     [["new", 0], ["next", 0, 40], ["new", 1], ["next", 1, 1], ["next", 0, 3], ["next", 1, 20], ["next", 0, 3], ["next", 1, 3]]),
    ({"freq": 0, "interval": 1, "wkst": None, "dtstart": [1997, 1, 1, 9, 0, 0, 0], "kind": "naive", "bymonth": [1, 3], "byweekday": [[1, 0], [3, 0]], "n": 60},
     [["new", 0], ["next", 0, 3], ["new", 1], ["next", 1, 25], ["next", 0, 5], ["next", 1, 2], ["next", 0, 30]]),
    ({"freq": 1, "interval": 1, "wkst": None, "dtstart": [2020, 1, 1, 9, 0, 0, 0], "kind": "naive", "byweekday": [[4, -1], [0, 1]], "n": 50},
     [["new", 0], ["next", 0, 1], ["between", 20, 30, True, 0], ["next", 0, 3], ["getitem", 40], ["next", 0, 3], ["after", 30, 0, False], ["next", 0, 2]]),
    ({"freq": 2, "interval": 2, "wkst": 6, "dtstart": [2019, 12, 1, 9, 0, 0, 0], "kind": "naive", "byweekday": [[1, 0], [6, 0]], "count": 40, "n": 45},
     [["new", 0], ["next", 0, 5], ["setnew", 1], ["next", 1, 17], ["next", 0, 3], ["count"], ["next", 1, 3], ["next", 0, 30], ["next", 1, 30]]),
    ({"freq": 0, "interval": 1, "wkst": None, "dtstart": [2000, 1, 1, 0, 0, 0, 0], "kind": "naive", "byeaster": [0, 1], "n": 30},
     [["new", 0], ["next", 0, 1], ["new", 1], ["next", 1, 7], ["next", 0, 2], ["next", 1, 2], ["next", 0, 9]]),
    ({"freq": 0, "interval": 1, "wkst": 0, "dtstart": [2008, 12, 1, 0, 0, 0, 0], "kind": "naive", "byweekno": [1, -1], "byweekday": [[0, 0], [6, 0]], "n": 30},
     [["new", 0], ["next", 0, 2], ["new", 1], ["next", 1, 9], ["next", 0, 2], ["contains", 12, 0], ["next", 1, 2], ["next", 0, 9]]),
]


def _ref_run(c, nref):
    """what a FRESH iterator over a separately built object delivers: (status, items)"""
    st, items, r = run_impl(c, nref, work=4 * WORKCAP)
    return st, items


def run_hist_case(ctx, c, hist, tag):
    """one history on one object; reports through `report`; returns False when skipped"""
    nref = c["n"]
    st, ref = _ref_run(c, nref)
    if st not in ("more", "stop") or not ref:
        ctx.count("hist_skipped_" + st.split("_")[0])
        return False
    _install_work_counter()
    old = signal.signal(signal.SIGALRM, _alarm)
    _WORK[0], _WORK[1] = 0, 40 * WORKCAP
    res = None
    try:
        signal.setitimer(signal.ITIMER_REAL, 20.0)
        try:
            res = H.run_history(lambda: build(c), ref, st, hist)
        except (_TurnCap, _Timeout):
            ctx.count("hist_cap_skipped")
            return False
        except Exception as ex:
            res = ("%s raised during an interleaved history although a fresh iterator delivers %d items without error"
                   % (type(ex).__name__, len(ref)), {"exception": "%s: %s" % (type(ex).__name__, str(ex)[:200])})
        finally:
            signal.setitimer(signal.ITIMER_REAL, 0)
    except _Timeout:
        ctx.count("hist_cap_skipped")
        return False
    finally:
        _WORK[1] = 1 << 62
        signal.signal(signal.SIGALRM, old)
    ctx.count("hist_cases")
    ctx.count("hist_" + tag)
    ctx.count("hist_events", len(hist))
    ctx.count("hist_freq_%d" % c["freq"])
    key = canon(c) + json.dumps(hist)
    ctx.case(key)
    if res is not None:
        case = {"rule": {k: c.get(k) for k in RULEKEYS + BYKEYS},
                "history": hist, "diff": {"kind": "interleaved"}}
        ctx.violation(res[0], case, res[1])
    return True


def run_until_zone_case(ctx, c, tag):
    res = H.run_until_zone(c)
    if res == "skip":
        ctx.count("until_zone_skipped")
        return
    ctx.count("until_zone_cases")
    ctx.count("until_zone_" + tag)
    ctx.count("until_zone_kind_" + c["until_kind"])
    rule = {k: c.get(k) for k in ["freq", "interval", "wkst", "dtstart", "zone", "until_place", "until_kind", "until_utc", "n", "byhour", "byminute", "bysecond", "bysetpos"]}
    ctx.case(json.dumps(rule, sort_keys=True))
    if res is not None:
        ctx.violation(res[0], {"rule": rule, "diff": {"kind": "until-zone"}}, res[1])


def until_zone_stream(ctx):
    """UNTIL in ANOTHER zone than DTSTART (RFC 5545: UTC) around the repeated hour and the gap of the start's zone, sub-daily
    frequencies: `res > until` compares INSTANTS there; see c01_hist.run_until_zone"""
    rng = ctx.subrng("until-zone")
    for c in H.until_zone_cases(rng, ctx.budget(150, 1500)):
        run_until_zone_case(ctx, c, "stream")
        if len(unknown_violations(ctx)) >= 3:
            break
    ctx.note("UNTIL carried by another tzinfo than DTSTART (UTC / fixed offset / equal but distinct zone object) around DST transitions of the "
             "start's zone: %d rules compared by instants with the unbounded sequence of the same rule" % ctx.hist.get("until_zone_cases", 0))


def interleave_stream(ctx):
    """ONE OBJECT, SEVERAL LIVE ITERATORS: see c01_hist.py"""
    rng = ctx.subrng("interleave")
    for c, hist in HIST_SEEDS:
        run_hist_case(ctx, dict(c), hist, "seed")
    n = ctx.budget(70, 200)
    done = 0
    tries = 0
    while done < n and tries < 3 * n:
        tries += 1
        c = gen_case(rng)
        plan_until(c, rng)
        if rng.random() < 0.5:
            # starts shortly before a year end, so that iterators of a sub-yearly rule soon sit in different years
            y = c["dtstart"][0]
            c["dtstart"][1:3] = [12, rng.choice([1, 15, 20, 28, 31])] if c["freq"] >= 1 else c["dtstart"][1:3]
            if c.get("until") is not None and rng.random() < 0.7:
                c.pop("until"); c.pop("until_isdate", None); c.pop("until_othertz", None)
        c["n"] = rng.choice([30, 60, 60, 120, 120, 450])
        if c["freq"] >= 4 and c["interval"] < 200 and rng.random() < 0.6:
            c["interval"] = c["interval"] * rng.choice([7, 24, 60, 1440])        # sub-daily rules that do cross days
        st, ref = _ref_run(c, c["n"])
        if st not in ("more", "stop") or not ref:
            continue
        finite = st == "stop"
        hist = H.gen_history(rng, len(ref), finite)
        if run_hist_case(ctx, c, hist, "generated"):
            done += 1
        if len(unknown_violations(ctx)) >= 3:
            break
    ctx.note("interleaved-iterator histories: %d run (%d events) on one uncached rule object each, 2-4 live iterators + between/after/"
             "before/count/indexing/slicing/in + an rruleset holding the rule twice; every iterator and query compared with the "
             "sequence of a fresh iterator over a separately built object"
             % (ctx.hist.get("hist_cases", 0), ctx.hist.get("hist_events", 0)))


def report(ctx, what, case, detail=None):
    """record a property failure; failures inside an already well-represented known class are only counted,
    so that they cannot crowd an unknown failure out of vlib's bounded violation list"""
    v = {"what": what, "case": case, "detail": detail}
    for kid, pred in KNOWN.items():
        if _safe(pred, v):
            ctx.count("known_class_" + kid)
            if ctx.hist["known_class_" + kid] > 8:
                ctx.count("oracle_failures")
                return
            break
    ctx.violation(what, case, detail)


def model_agrees(st, items, resp):
    """does the Lean model (`rrule.iter`) do on this rule what the implementation did?  (the comparison of the
    correspondence check)"""
    mst, mitems = split_resp(resp)
    iitems = [item(x) for x in items]
    if st == "cap" or mst == "fuel":
        k = min(len(iitems), len(mitems))
        return iitems[:k] == mitems[:k]
    mcls = "stop" if mst.startswith("stop_") else mst
    return (st, iitems) == (mcls, mitems)


def flush(ctx, pending):
    """a failure is KNOWN only if it lies in a listed class AND the implementation's output on the rule is the
    model's output — the model reproduces the listed defects exactly (Properties/C01.lean, the D-C01a/c/d/e
    examples), so a different wrong answer inside a class is reported as a violation with the rule as replay"""
    inclass = [p for p in pending if any(_safe(k, {"what": p[0], "case": p[1]}) for k in CLASS.values())]
    if inclass:
        rs = ctx.driver(["rrule.iter %s %d %d" % (wire(p[3]), p[3]["n"], FUEL[p[3]["freq"]]) for p in inclass])
        for p, resp in zip(inclass, rs):
            ok = model_agrees(p[4], p[5], resp)
            p[1]["model_agrees"] = ok
            ctx.count("known_class_model_agrees" if ok else "known_class_but_model_differs")
            if not ok and p[2] is not None:
                p[2]["model"] = resp[:300]
    for what, case, detail, c, st, items in pending:
        report(ctx, what, case, detail if detail else None)


def evaluate(ctx, cases):
    pending = []
    _evaluate(ctx, cases, pending)
    flush(ctx, pending)


def _evaluate(ctx, cases, pending):
    bad_iv = [c for c in cases if c["interval"] < 1]
    cases = [c for c in cases if c["interval"] >= 1]
    for c in bad_iv:
        # "a rule that can never match either raises ValueError (when built or when first iterated) or yields nothing": for
        # INTERVAL < 1 there is no period grid at all; the constructor must refuse it
        st, items, r = run_impl(c, c["n"], work=20000, failsafe=3.0)
        ctx.case(canon(c), nontrivial=False)
        ctx.count("oracle_interval_" + st.split("_")[0])
        if st != "ctor_ValueError":
            case = {"rule": {k: c.get(k) for k in RULEKEYS + BYKEYS}, "diff": {"kind": "interval", "status": st}}
            pending.append(("INTERVAL=%d accepted by the constructor (%s, first items %s); RFC 5545 requires a positive integer and "
                            "the property a ValueError or an empty sequence" % (c["interval"], st, [item(x) for x in items[:3]]),
                            case, {}, c, st, items))
    if not cases:
        return
    classify(ctx, cases, "oracle")
    runs = []
    for c in cases:
        st, items, r = run_impl(c, c["n"])
        runs.append((c, st, items, r))
    # windows
    reqs, meta = [], []
    for c, st, items, r in runs:
        y, m, d = c["dtstart"][:3]
        so = date(y, m, d).toordinal()
        cap_hi = min(3652059, so + HCAP[c["freq"]])
        if st == "more" or st == "cap":
            hi = min(cap_hi, items[-1].toordinal()) if items else None
        elif st.startswith("ctor_") or st.startswith("err_") or st == "stop":
            nat = 3652059
            if c.get("until") is not None:
                nat = min(nat, date(*c["until"][:3]).toordinal())
            if st == "stop" and c.get("count") is not None and items and len(items) == c["count"]:
                nat = min(nat, items[-1].toordinal())
            if st == "stop" and c.get("count") == 0:
                nat = so
            hi = min(cap_hi, nat)
            if st != "stop":
                hi = min(hi, so + HCAP[c["freq"]] // 8)
        if hi is None:
            reqs.append(None)
        else:
            I = [x for x in items if x.toordinal() <= hi]
            reqs.append("rrule.spec %s %d %d %d" % (wire(c), so, max(hi, so), len(I) + 3))
        meta.append(hi)
    rl = iter(ctx.driver([q for q in reqs if q is not None]))
    resps = [next(rl) if q is not None else None for q in reqs]
    by = ctx.driver(["rrule.byok %s %s" % (wire(c), " ".join(item(x) for x in items)) for c, st, items, r in runs])
    for (c, st, items, r), q, hi, flags, rsp in zip(runs, reqs, meta, by, resps):
        def pend(what, case, detail, c=c, st=st, items=items):
            pending.append((what, case, {} if detail is None else detail, c, st, items))
        key = canon(c)
        ctx.count("oracle_freq_%d" % c["freq"])
        ctx.count("oracle_status_" + st)
        for k in BYKEYS:
            if c.get(k) is not None:
                ctx.count("oracle_has_" + k)
        ctx.count("oracle_kind_" + c["kind"])
        case = {"rule": {k: c.get(k) for k in RULEKEYS + BYKEYS}}
        start = DTm(*c["dtstart"][:6])
        # intrinsic laws on whatever was yielded
        tzi = dtstart_obj(c).tzinfo if c["kind"] != "date" else None
        prev = None
        bad = None
        for i, x in enumerate(items):
            if x.microsecond != 0:
                bad = ("yielded value with microseconds", i)
            elif x.tzinfo is not tzi:
                bad = ("yielded value does not carry the start's tzinfo", i)
            elif prev is not None and not (prev.replace(tzinfo=None) < x.replace(tzinfo=None)):
                bad = ("sequence not strictly increasing", i)
            elif x.replace(tzinfo=None) < start:
                bad = ("instant earlier than the start", i)
            prev = x
            if bad:
                break
        if bad:
            ctx.case(key)
            pend("%s: %s" % (bad[0], item(items[bad[1]])), dict(case, diff={"kind": "law", "index": bad[1], "impl": item(items[bad[1]])}), None)
            continue
        fl = flags.split()[1] if flags.startswith("ok ") and len(flags.split()) > 1 else ""
        if "0" in fl:
            i = fl.index("0")
            ctx.case(key)
            pend("wrong instant %s: it does not satisfy the BY parts / interval grid of the rule" % item(items[i]),
                          dict(case, diff={"kind": "wrong-instant", "index": i, "impl": item(items[i]), "spec": None}), None)
            continue
        if q is None:
            ctx.count("oracle_cap_skipped")
            ctx.case(key, nontrivial=False)
            continue
        sp = rsp.split()
        sdone, S = sp[1], sp[2:]
        I = [item(x) for x in items if x.toordinal() <= hi]
        at_end = (items and items[-1].year == 9999) or c["dtstart"][0] == 9999 or (c["dtstart"][0] + (c["interval"] if c["freq"] == 0 else 0) > 9999)
        if st.startswith("ctor_") or (st.startswith("err_") and not items):
            kind = st.split("_", 1)[1]
            ctx.case(key, nontrivial=False)
            if st.startswith("err_") and at_end:
                ctx.count("oracle_error_at_year_9999")
                continue
            if kind != "ValueError":
                pend("%s raised %s" % ("constructor" if st.startswith("ctor_") else "first iteration", kind),
                              dict(case, diff={"kind": "exception", "exc": kind, "spec": S[0] if S else None}), None)
            elif S:
                pend("ValueError although the rule matches %s" % S[0], dict(case, diff={"kind": "exception", "exc": kind, "spec": S[0]}), None)
            elif st.startswith("err_"):
                # the constructor accepted the rule, the recurrence set is empty (over the checked window), and the FIRST next()
                # raises ValueError: the property allows exactly this ("raises ValueError (when built or when first
                # iterated) or yields nothing").  Former finding D-C01g (withdrawn: a false alarm of this oracle).
                ctx.count("oracle_valueerror_while_iterating_and_spec_empty")
            else:
                ctx.count("oracle_valueerror_and_spec_empty")
            continue
        if st.startswith("err_") and not at_end:
            ctx.case(key)
            pend("%s raised while iterating after %d items" % (st[4:], len(items)),
                          dict(case, diff={"kind": "exception", "exc": st[4:], "index": len(items)}), None)
            continue
        # prefix comparison
        k = 0
        while k < len(I) and k < len(S) and I[k] == S[k]:
            k += 1
        diff = None
        if k < len(I):
            diff = {"kind": "differs", "index": k, "impl": I[k], "spec": S[k] if k < len(S) else None}
        elif len(S) > len(I):
            e = S[len(I)]
            if st == "cap":
                pass
            elif st == "more" and len(I) == len(items):
                pass                      # e lies after the last pulled item (same day or later)
            else:
                diff = {"kind": "missing", "index": len(I), "impl": (item(items[len(I)]) if len(I) < len(items) else None), "spec": e}
        if st == "cap":
            ctx.count("oracle_cap_skipped")
        ctx.case(key, nontrivial=(st != "cap"))
        if diff:
            pend("sequence differs from the recurrence set at index %d: implementation %s, specification %s"
                          % (diff["index"], diff["impl"], diff["spec"]), dict(case, diff=diff), {"impl": I[:k + 2], "spec": S[:k + 2], "status": st})
        else:
            ctx.count("oracle_agree")
            if len(ctx.samples) < 10 and items and len(c.keys() & set(BYKEYS)) >= 2:
                ctx.sample({"rule": case["rule"], "status": st, "first": I[:3], "spec_first": S[:3], "compared": len(I)})


# ---------------------------------------------------------------------------------- known findings

def _rule(v):
    return v["case"]["rule"]


def _diff(v):
    return v["case"].get("diff") or {}


def _ymd(s):
    return tuple(int(x) for x in s.split(".")[:3]) if s else None


def k_c01a(v):
    r = _rule(v)
    wd = r.get("byweekday") or []
    return r["freq"] <= 1 and any(n == 0 for _, n in wd) and any(n != 0 for _, n in wd) and _diff(v).get("kind") in ("differs", "missing")


def k_c01c(v):
    r, d = _rule(v), _diff(v)
    wn = r.get("byweekno") or []
    t1 = (52 in wn or 53 in wn) and -1 not in wn          # days of January in last year's last week
    t2 = (-52 in wn or -53 in wn) and 1 not in wn         # days of December in next year's week 1
    if not (t1 or t2) or d.get("kind") not in ("differs", "missing", "wrong-instant"):
        return False
    if r.get("bysetpos"):
        return True
    near = False
    for s in (d.get("impl"), d.get("spec")):
        p = _ymd(s)
        if p and ((p[1] == 1 and p[2] <= 3 and t1) or (p[1] == 12 and p[2] >= 29 and t2) or (p[1] == 1 and p[2] <= 6 and r["freq"] == 2 and t2)):
            near = True
    return near


def k_c01d(v):
    r, d = _rule(v), _diff(v)
    lo = -75 if r["freq"] == 2 else -81
    if not any(o <= lo or o >= 251 for o in (r.get("byeaster") or [])):
        return False
    return d.get("kind") in ("wrong-instant", "differs", "missing") or (d.get("kind") == "exception" and d.get("exc") == "IndexError")


def k_c01e(v):
    r, d = _rule(v), _diff(v)
    if not (r["freq"] == 2 and r.get("bysetpos")):
        return False
    y, m, dd = r["dtstart"][:3]
    ds = date(y, m, dd)
    wk = r["wkst"] if r["wkst"] is not None else (r.get("fwd") or 0)
    if ds.weekday() == wk or d.get("kind") not in ("differs", "missing"):
        return False
    w0 = ds - timedelta(days=(ds.weekday() - wk) % 7)
    for s in (d.get("impl"), d.get("spec")):
        p = _ymd(s)
        if p and w0 <= date(*p) < w0 + timedelta(days=7):
            return True
    return False


CLASS = {"D-C01a": k_c01a, "D-C01c": k_c01c, "D-C01d": k_c01d, "D-C01e": k_c01e}


def _known(pred):
    return lambda v: v["case"].get("model_agrees") is True and pred(v)


# class predicate AND "the implementation did what the model does" (set by flush)
KNOWN = {k: _known(p) for k, p in CLASS.items()}


def replay(ctx, payload):
    c = dict(payload["violation"]["case"]["rule"])
    before = len(ctx.violations)
    if c.get("zone") is not None:
        run_until_zone_case(ctx, c, "replay")
    elif payload["violation"]["case"].get("history") is not None:
        run_hist_case(ctx, c, payload["violation"]["case"]["history"], "replay")
    else:
        evaluate(ctx, [c])
    new = ctx.violations[before:]
    for v in new:
        print("still failing:", v["what"])
    if not new:
        print("rule now agrees with the specification:", json.dumps(c) if c.get("zone") is not None else wire(c))
    return not new
