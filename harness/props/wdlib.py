"""wdlib.py — per-run validation of the source translation of `dateutil._common.weekday` (+ `rrule.weekday.__init__`):
Generated/WdOps.lean (ops wdgen.*) and the hand model Model/WdPy.lean (ops wd.*) against the implementation.
Called from the correspondence of C16 (the objects of relativedelta's `weekday` field; theorems C16.gen_weekday_eq_model,
weekday_eq_hash, weekday_n_strict_here, weekday_call_spec, weekday_repr_spec)."""
import builtins
import vlib
from vlib import oint


def wd_wire(w):
    return "%d %s" % (w.weekday, oint(w.n))


def hexs(s):
    return vlib.hexs(s)


def run(fn, show):
    try:
        return "ok " + show(fn())
    except Exception as ex:
        for k in (IndexError, TypeError, ValueError, AttributeError):
            if isinstance(ex, k):
                return "err " + k.__name__
        return "err " + type(ex).__name__


def hashed_tuple(w):
    import dateutil._common as C
    got = []

    def spy(t):
        got.append(t)
        return builtins.hash(t)
    C.hash = spy
    try:
        hash(w)
    finally:
        del C.hash
    if len(got) != 1 or not isinstance(got[0], tuple) or len(got[0]) != 2:
        return "unexpected %r" % (got,)
    return "%s %s" % (oint(got[0][0]), oint(got[0][1]))


def correspondence(ctx, tag="corr_weekday"):
    from dateutil._common import weekday
    from dateutil import rrule, relativedelta
    rng = ctx.subrng("corr-weekday")
    reqs, exp = [], []
    NS = [None, 0, 1, -1, 2, -2, 5, -53, 366, 10 ** 12]
    objs = [weekday(w, n) for w in range(-8, 9) for n in NS]
    objs += list(relativedelta.weekdays) + list(rrule.weekdays) + [relativedelta.MO(+1), rrule.FR(-2)]
    for _ in range(ctx.budget(300, 3000)):
        objs.append(weekday(rng.randint(-9, 9), rng.choice(NS + [rng.randint(-400, 400)])))
    others = [None, 0, 3, "MO", (0, None), object()]
    for w in objs:
        a = wd_wire(w)
        for op in ("wd", "wdgen"):
            reqs.append("%s.repr %s" % (op, a)); exp.append(run(lambda: repr(w), hexs))
            reqs.append("%s.hash %s" % (op, a)); exp.append("ok " + hashed_tuple(w))
            n = rng.choice(NS + [w.n, w.n])
            # self.__class__ is the receiver's class: rrule.weekday builds the new object with ITS constructor (n == 0 rejected)
            reqs.append("%s.%s %s %s" % (op, "callrr" if type(w) is rrule.weekday else "call", a, oint(n)))
            exp.append(run(lambda: w(n), lambda r: "%s %d" % (wd_wire(r), 1 if r is w else 0)))
            o = rng.choice(objs) if rng.random() < 0.5 else weekday(w.weekday, rng.choice([w.n, w.n, None, 0, 1]))
            reqs.append("%s.eq %s w %s" % (op, a, wd_wire(o))); exp.append("ok %d %d" % (w == o, w != o))
            x = rng.choice(others)
            reqs.append("%s.eq %s x" % (op, a)); exp.append("ok %d %d" % (w == x, w != x))
            reqs.append("%s.initrr %s" % (op, a)); exp.append(run(lambda: rrule.weekday(w.weekday, w.n), wd_wire))
        reqs.append("wdgen.init %s" % a); exp.append(run(lambda: weekday(w.weekday, w.n), wd_wire))
        reqs.append("wdgen.reduce %s" % a); exp.append(run(lambda: w.__reduce__()[1], lambda t: "%d %s" % (t[0], oint(t[1]))))
        if w.__reduce__()[0] is not type(w):
            ctx.mismatch("wdgen.reduce", a, "class %r" % (w.__reduce__()[0],), "the object's class")
        ctx.count(tag + "_objects")
    got = ctx.driver(reqs)
    for q, e, g in zip(reqs, exp, got):
        if e != g:
            ctx.mismatch(q.split()[0], q, e, g)
    ctx.traces += len(reqs)
    ctx.count(tag + "_requests", len(reqs))
