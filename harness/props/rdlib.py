"""rdlib.py — shared by c03.py / c09.py / c16.py: wire forms, canonicalisation, generators for the
relativedelta family (see lean/DateutilVerif/Ops/RelativeDelta.lean for the wire forms)."""
import ast, calendar, datetime, os
import vlib
from vlib import oint

REL = ["years", "months", "days", "leapdays", "hours", "minutes", "seconds", "microseconds"]
ABS = ["year", "month", "day", "hour", "minute", "second", "microsecond"]
KW_ORDER = ["years", "months", "days", "leapdays", "weeks", "hours", "minutes", "seconds", "microseconds",
            "year", "month", "day", "weekday", "yearday", "nlyearday", "hour", "minute", "second", "microsecond"]

_Z = None


def zones():
    """the aware operands' tzinfo objects; tag = index (identity of the object is what CPython compares)"""
    global _Z
    if _Z is None:
        from dateutil import tz
        _Z = [tz.tzutc(), tz.tzoffset("X", 3600), tz.gettz("America/New_York") or tz.tzoffset("NY", -18000),
              datetime.timezone(datetime.timedelta(hours=-5, minutes=-30))]
    return _Z


# ---- equal-but-distinct tzinfo objects (CPython compares/subtracts such operands in UTC, not on the wall clock)
DISTINCT_ZONE_BASE = 10
_TAGS = {}        # id(tzinfo) -> "a<zone>.<obj>"
_BY_TAG = {}      # (zone, obj) -> tzinfo (kept alive so that ids stay unique)


def distinct_factories():
    """callables that return a FRESH tzinfo object of one zone on every call; zone id = 10 + index"""
    from dateutil import tz
    ny = "/usr/share/zoneinfo/America/New_York"
    return [
        ("tzlocal[TZ=America/New_York]", lambda: tz.tzlocal()),
        ("tzfile(America/New_York)", lambda: tz.tzfile(ny)),
        ("gettz.nocache(America/New_York)", lambda: tz.gettz.nocache("America/New_York")),
        ("tzoffset.instance(+1h)", lambda: tz.tzoffset.instance("X", 3600)),
        ("tzstr.instance(EST5EDT,M3.2.0,M11.1.0)", lambda: tz.tzstr.instance("EST5EDT,M3.2.0,M11.1.0")),
        ("tzstr.instance(EST5EDT) / tzrange(EST,-18000,EDT)", None),     # obj 1 = tzstr, obj 2 = the equal tzrange
        ("tzfile(Europe/London)", lambda: tz.tzfile("/usr/share/zoneinfo/Europe/London")),
    ]


def distinct_tz(zone, obj):
    """the tzinfo object registered under (zone, obj); created on first use"""
    key = (zone, obj)
    if key not in _BY_TAG:
        from dateutil import tz
        name, f = distinct_factories()[zone - DISTINCT_ZONE_BASE]
        if f is None:
            z = tz.tzstr.instance("EST5EDT") if obj % 2 == 1 else tz.tzrange("EST", -18000, "EDT")
        else:
            z = f()
        _BY_TAG[key] = z
        _TAGS[id(z)] = "a%d.%d" % (zone, obj)
    return _BY_TAG[key]


class process_tz(object):
    """pin the process time zone (tzlocal reads it when constructed AND when asked for an offset)"""

    def __init__(self, name):
        self.name = name

    def __enter__(self):
        import time
        self.old = os.environ.get("TZ")
        os.environ["TZ"] = self.name
        time.tzset()

    def __exit__(self, *a):
        import time
        if self.old is None:
            os.environ.pop("TZ", None)
        else:
            os.environ["TZ"] = self.old
        time.tzset()


def exc_kind(ex):
    for k in (AssertionError, OverflowError, IndexError, TypeError, ValueError, ZeroDivisionError, AttributeError):
        if isinstance(ex, k):
            return k.__name__
    return type(ex).__name__


class Hang(BaseException):
    """raised inside a watched call that did not return in time (BaseException: not swallowed by `except Exception`)"""


def watched(fn, seconds=5.0):
    """run fn() under a per-call watchdog (SIGALRM interval timer; pure-Python loops are interruptible).
    A call that does not return within `seconds` raises Hang in the caller — the property says the
    result exists, so a hang is reported by the callers as a failing input, not as an infrastructure timeout."""
    import signal

    def on_alarm(signum, frame):
        raise Hang()
    old = signal.signal(signal.SIGALRM, on_alarm)
    signal.setitimer(signal.ITIMER_REAL, seconds)
    try:
        return fn()
    finally:
        signal.setitimer(signal.ITIMER_REAL, 0)
        signal.signal(signal.SIGALRM, old)


def run(fn, show, watchdog=None):
    try:
        return "ok " + show(watched(fn, watchdog) if watchdog else fn())
    except Hang:
        return "hang"
    except Exception as ex:            # the kind that escapes is part of the comparison
        return "err " + exc_kind(ex)


# ---------- wire ----------
def weekday_ok(w):
    """the `weekday` attribute of a relativedelta must be None or a weekday object"""
    return w is None or (hasattr(w, "weekday") and hasattr(w, "n") and isinstance(w.weekday, int))


def wd_tokens(w):
    if w is None:
        return "- -"
    if not weekday_ok(w):
        return "BAD(%r) -" % (w,)      # not a weekday object: never equal to a model response (and never a crash)
    return "%d %s" % (w.weekday, oint(w.n))


def rd_wire(d):
    """the 18 tokens of a relativedelta object's state (integer-valued fields only)"""
    f = [d.years, d.months, d.days, d.leapdays, d.hours, d.minutes, d.seconds, d.microseconds]
    return " ".join([str(int(x)) for x in f] + [oint(d.year), oint(d.month), oint(d.day), wd_tokens(d.weekday),
                                                oint(d.hour), oint(d.minute), oint(d.second), oint(d.microsecond),
                                                str(int(d._has_time))])


def is_int_valued(d):
    return all(isinstance(getattr(d, a), int) and not isinstance(getattr(d, a), bool) for a in REL) and \
        all(getattr(d, a) is None or (isinstance(getattr(d, a), int) and not isinstance(getattr(d, a), bool)) for a in ABS)


def kw_wire(kw):
    """the 19 tokens of a keyword-argument dict (ints / None / weekday spec)"""
    out = []
    for k in KW_ORDER:
        v = kw.get(k)
        if k == "weekday":
            if v is None:
                out.append("-")
            elif isinstance(v, int):
                out.append("i%d" % v)
            else:
                out.append("w%d:%s" % (v.weekday, oint(v.n)))
        elif k in ("year", "month", "day", "yearday", "nlyearday", "hour", "minute", "second", "microsecond"):
            out.append(oint(v))
        else:
            out.append(str(int(v or 0)))
    return " ".join(out)


def kind_of(x):
    if not isinstance(x, datetime.datetime):
        return "d"
    if x.tzinfo is None:
        return "n"
    for i, z in enumerate(zones()):
        if x.tzinfo is z:
            return "a%d" % i
    return _TAGS.get(id(x.tzinfo), "a?")


def t_wire(x):
    if isinstance(x, datetime.datetime):
        return "%s %d %d %d %d %d %d %d" % (kind_of(x), x.year, x.month, x.day, x.hour, x.minute, x.second, x.microsecond)
    return "d %d %d %d 0 0 0 0" % (x.year, x.month, x.day)


def t_show(x):
    """canonical form of a RESULT: the wire form, plus a marker if fold is set (the model has no fold bit,
    so a result with fold=1 shows up as a correspondence mismatch)"""
    return t_wire(x) + (" fold=1" if getattr(x, "fold", 0) else "")


def parse_t(tokens):
    """8 tokens -> date / datetime"""
    k = tokens[0]
    v = [int(t) for t in tokens[1:8]]
    if k == "d":
        return datetime.date(v[0], v[1], v[2])
    if k == "n":
        tz = None
    elif "." in k:
        zone, obj = k[1:].split(".")
        tz = distinct_tz(int(zone), int(obj))
    else:
        tz = zones()[int(k[1:])]
    return datetime.datetime(*v, tzinfo=tz)


def mkrd(kw):
    from dateutil.relativedelta import relativedelta
    return relativedelta(**kw)


def kw_json(kw):
    """JSON-able form of a kwargs dict"""
    out = {}
    for k, v in kw.items():
        if k == "weekday" and v is not None and not isinstance(v, int):
            out[k] = {"wd": v.weekday, "n": v.n}
        else:
            out[k] = v
    return out


def kw_unjson(j):
    from dateutil._common import weekday
    out = {}
    for k, v in j.items():
        if k == "weekday" and isinstance(v, dict):
            out[k] = weekday(v["wd"], v["n"])
        else:
            out[k] = v
    return out


def t_json(x):
    return t_wire(x)


def source_ydayidx():
    """the literal list assigned to `ydayidx` inside relativedelta.__init__ (from the working tree's AST)"""
    path = os.path.join(vlib.REPO, "src", "dateutil", "relativedelta.py")
    tree = ast.parse(open(path).read())
    for node in ast.walk(tree):
        if isinstance(node, ast.Assign) and len(node.targets) == 1 and isinstance(node.targets[0], ast.Name) \
                and node.targets[0].id == "ydayidx":
            return ast.literal_eval(node.value)
    return None


def with_generated(reqs, exp):
    """every request to a hand-model op is repeated against the definition RE-TRANSLATED from /repo on this run
    (Generated/RDOps.lean, ops rdgen.*): the translator is validated against the implementation like the model is"""
    gen = {"rd.add": "rdgen.add", "rd.rsub": "rdgen.rsub", "rd.mk": "rdgen.mk", "rd.expr": "rdgen.expr",
           "rd.bool": "rdgen.bool", "rd.hash": "rdgen.hash", "rd.eq": "rdgen.eq", "rd.diff": "rdgen.diff",
           "rd.diffn": "rdgen.diffn", "rd.diffo": "rdgen.diffo"}
    r2, e2 = list(reqs), list(exp)
    for q, e in zip(reqs, exp):
        op = q.split(" ", 1)[0]
        if op in gen:
            r2.append(gen[op] + q[len(op):]); e2.append(e)
    return r2, e2


# ---------- generators ----------
BOUNDARY = [0, 1, -1, 2, 11, 12, 13, 23, 24, 25, 59, 60, 61, 119, 120, 999999, 1000000, 1000001, 86399, 86400, 86401]


def g_rel(rng, scale):
    """a signed relative value: boundary-biased, sometimes big enough to carry several levels"""
    r = rng.random()
    if r < 0.30:
        return 0
    if r < 0.55:
        return rng.choice(BOUNDARY) * rng.choice((1, -1))
    if r < 0.9:
        return rng.randint(-scale, scale)
    return rng.randint(-scale * 50, scale * 50)


def g_big(rng):
    r = rng.random()
    if r < 0.5:
        return rng.randint(-10 ** 7, 10 ** 7)
    if r < 0.8:
        return rng.randint(-10 ** 14, 10 ** 14)
    return rng.randint(-10 ** 30, 10 ** 30)


def g_weekday(rng, int_ok=True, wild=False):
    from dateutil._common import weekday
    from dateutil import relativedelta as R
    r = rng.random()
    if int_ok and r < 0.25:
        if rng.random() < 0.35:
            return 0                                     # calendar.MONDAY: the falsy integer weekday
        return rng.randint(-9, 8) if wild else rng.randint(0, 6)
    w = rng.randint(0, 6)
    r = rng.random()
    if r < 0.25:
        return R.weekdays[w]
    n = rng.choice([None, 0, 1, -1, 2, -2, 3, -3, 4, -4, 5, -5])
    if n is None:
        return R.weekdays[w]
    return weekday(w, n)


def g_kw(rng, profile="c03"):
    """keyword arguments of the constructor.
    c03: the property's domain (absolute fields in range, relative fields that keep most results in 1..9999);
    wild: also out-of-range absolutes, zero absolutes, huge relatives, bad yeardays, int weekdays outside 0..6."""
    kw = {}
    wild = profile == "wild"
    p_rel = 0.35
    scales = {"years": 60, "months": 40, "days": 900, "hours": 120, "minutes": 4000, "seconds": 200000,
              "microseconds": 3 * 10 ** 6, "weeks": 60}
    for k, s in scales.items():
        if rng.random() < p_rel:
            kw[k] = g_big(rng) if (wild and rng.random() < 0.15) else g_rel(rng, s)
    if rng.random() < 0.25:
        kw["leapdays"] = rng.choice([1, -1, 2, -2, 0, 3]) if not wild else rng.randint(-3, 3)
    p_abs = 0.22
    if rng.random() < p_abs:
        kw["year"] = rng.choice([1, 2, 4, 100, 400, 1582, 1900, 1999, 2000, 2001, 2004, 2100, 9998, 9999,
                                 rng.randint(1, 9999)])
        if wild and rng.random() < 0.2:
            kw["year"] = rng.choice([0, -1, 10000, 12000])
    if rng.random() < p_abs:
        kw["month"] = rng.randint(1, 12)
        if wild and rng.random() < 0.25:
            kw["month"] = rng.choice([0, 13, 14, -1, 24])
    if rng.random() < p_abs:
        kw["day"] = rng.choice([1, 15, 28, 29, 30, 31, rng.randint(1, 31)])
        if wild and rng.random() < 0.2:
            kw["day"] = rng.choice([0, -1, 32, 40])
    for k, hi in (("hour", 23), ("minute", 59), ("second", 59), ("microsecond", 999999)):
        if rng.random() < 0.15:
            kw[k] = rng.choice([0, hi, rng.randint(0, hi)])
            if wild and rng.random() < 0.15:
                kw[k] = rng.choice([-1, hi + 1])
    if rng.random() < 0.35:
        kw["weekday"] = g_weekday(rng, wild=wild)
    r = rng.random()
    if r < 0.08:
        kw["yearday"] = rng.choice([1, 31, 32, 59, 60, 61, 365, 366, rng.randint(1, 366)])
        if wild and rng.random() < 0.3:
            kw["yearday"] = rng.choice([0, -3, 367, 400])
    elif r < 0.16:
        kw["nlyearday"] = rng.choice([1, 31, 32, 59, 60, 61, 365, rng.randint(1, 365)])
        if wild and rng.random() < 0.3:
            kw["nlyearday"] = rng.choice([0, -3, 366, 367, 500])
    elif r < 0.18:
        kw["yearday"] = rng.randint(1, 366)
        kw["nlyearday"] = rng.randint(0, 365)
    return kw


YEARS = [1, 2, 4, 100, 400, 1582, 1583, 1900, 1999, 2000, 2001, 2003, 2004, 2100, 2400, 4099, 9998, 9999]


def g_date(rng):
    r = rng.random()
    if r < 0.5:
        y = rng.choice(YEARS)
    elif r < 0.8:
        y = rng.randint(1990, 2030)
    else:
        y = rng.randint(1, 9999)
    m = rng.choice([1, 2, 2, 3, 12, rng.randint(1, 12)])
    dim = calendar.monthrange(2000 + y % 400, m)[1] if not (1 <= y <= 9999) else calendar.monthrange(y, m)[1]
    d = rng.choice([1, dim, dim, max(1, dim - 1), min(28, dim), rng.randint(1, dim)])
    return y, m, d


def g_time(rng):
    r = rng.random()
    if r < 0.3:
        return 0, 0, 0, 0
    if r < 0.45:
        return 23, 59, 59, 999999
    if r < 0.55:
        return 12, 0, 0, 0
    if r < 0.67:
        # the time of day lives in exactly one field (only us / only seconds / only minutes / only hours)
        return rng.choice([(0, 0, 0, rng.choice([1, 250000, 999999])), (0, 0, rng.randint(1, 59), 0),
                           (0, rng.randint(1, 59), 0, 0), (rng.randint(1, 23), 0, 0, 0)])
    return (rng.randint(0, 23), rng.randint(0, 59), rng.randint(0, 59), rng.choice([0, 1, 999999, rng.randint(0, 999999)]))


def g_temporal(rng, kinds=("d", "n", "a")):
    y, m, d = g_date(rng)
    k = rng.choice(kinds)
    if k == "d":
        return datetime.date(y, m, d)
    hh, mm, ss, us = g_time(rng)
    tz = None if k == "n" else rng.choice(zones())
    fold = 1 if rng.random() < 0.15 else 0
    return datetime.datetime(y, m, d, hh, mm, ss, us, tzinfo=tz, fold=fold)
