"""rdlib.py — shared by c03.py / c09.py / c16.py: wire forms, canonicalisation, generators for the
relativedelta family (see lean/DateutilVerif/Ops/RelativeDelta.lean for the wire forms)."""
import ast, calendar, datetime, os
import vlib
from vlib import oint

REL = ["years", "months", "days", "leapdays", "hours", "minutes", "seconds", "microseconds"]
ABS = ["year", "month", "day", "hour", "minute", "second", "microsecond"]
KW_ORDER = ["years", "months", "days", "leapdays", "weeks", "hours", "minutes", "seconds", "microseconds",
            "year", "month", "day", "weekday", "yearday", "nlyearday", "hour", "minute", "second", "microsecond"]

_Z = None


def zones():
    """the aware operands' tzinfo objects; tag = index (identity of the object is what CPython compares)"""
    global _Z
    if _Z is None:
        from dateutil import tz
        _Z = [tz.tzutc(), tz.tzoffset("X", 3600), tz.gettz("America/New_York") or tz.tzoffset("NY", -18000),
              datetime.timezone(datetime.timedelta(hours=-5, minutes=-30))]
    return _Z


# ---- equal-but-distinct tzinfo objects (CPython compares/subtracts such operands in UTC, not on the wall clock)
DISTINCT_ZONE_BASE = 10
_TAGS = {}        # id(tzinfo) -> "a<zone>.<obj>"
_BY_TAG = {}      # (zone, obj) -> tzinfo (kept alive so that ids stay unique)


def distinct_factories():
    """callables that return a FRESH tzinfo object of one zone on every call; zone id = 10 + index"""
    from dateutil import tz
    ny = "/usr/share/zoneinfo/America/New_York"
    return [
        ("tzlocal[TZ=America/New_York]", lambda: tz.tzlocal()),
        ("tzfile(America/New_York)", lambda: tz.tzfile(ny)),
        ("gettz.nocache(America/New_York)", lambda: tz.gettz.nocache("America/New_York")),
        ("tzoffset.instance(+1h)", lambda: tz.tzoffset.instance("X", 3600)),
        ("tzstr.instance(EST5EDT,M3.2.0,M11.1.0)", lambda: tz.tzstr.instance("EST5EDT,M3.2.0,M11.1.0")),
        ("tzstr.instance(EST5EDT) / tzrange(EST,-18000,EDT)", None),     # obj 1 = tzstr, obj 2 = the equal tzrange
        ("tzfile(Europe/London)", lambda: tz.tzfile("/usr/share/zoneinfo/Europe/London")),
    ]


def distinct_tz(zone, obj):
    """the tzinfo object registered under (zone, obj); created on first use"""
    key = (zone, obj)
    if key not in _BY_TAG:
        from dateutil import tz
        name, f = distinct_factories()[zone - DISTINCT_ZONE_BASE]
        if f is None:
            z = tz.tzstr.instance("EST5EDT") if obj % 2 == 1 else tz.tzrange("EST", -18000, "EDT")
        else:
            z = f()
        _BY_TAG[key] = z
        _TAGS[id(z)] = "a%d.%d" % (zone, obj)
    return _BY_TAG[key]


class process_tz(object):
    """pin the process time zone (tzlocal reads it when constructed AND when asked for an offset)"""

    def __init__(self, name):
        self.name = name

    def __enter__(self):
        import time
        self.old = os.environ.get("TZ")
        os.environ["TZ"] = self.name
        time.tzset()

    def __exit__(self, *a):
        import time
        if self.old is None:
            os.environ.pop("TZ", None)
        else:
            os.environ["TZ"] = self.old
        time.tzset()


def exc_kind(ex):
    for k in (AssertionError, OverflowError, IndexError, TypeError, ValueError, ZeroDivisionError, AttributeError):
        if isinstance(ex, k):
            return k.__name__
    return type(ex).__name__


class Hang(BaseException):
    """raised inside a watched call that did not return in time (BaseException: not swallowed by `except Exception`)"""


def watched(fn, seconds=5.0):
    """run fn() under a per-call watchdog (SIGALRM interval timer; pure-Python loops are interruptible).
    A call that does not return within `seconds` raises Hang in the caller — the property says the
    result exists, so a hang is reported by the callers as a failing input, not as an infrastructure timeout."""
    import signal

    def on_alarm(signum, frame):
        raise Hang()
    old = signal.signal(signal.SIGALRM, on_alarm)
    signal.setitimer(signal.ITIMER_REAL, seconds)
    try:
        return fn()
    finally:
        signal.setitimer(signal.ITIMER_REAL, 0)
        signal.signal(signal.SIGALRM, old)


def run(fn, show, watchdog=None):
    try:
        return "ok " + show(watched(fn, watchdog) if watchdog else fn())
    except Hang:
        return "hang"
    except Exception as ex:            # the kind that escapes is part of the comparison
        return "err " + exc_kind(ex)


# ---------- wire ----------
def weekday_ok(w):
    """the `weekday` attribute of a relativedelta must be None or a weekday object"""
    return w is None or (hasattr(w, "weekday") and hasattr(w, "n") and isinstance(w.weekday, int))


def wd_tokens(w):
    if w is None:
        return "- -"
    if not weekday_ok(w):
        return "BAD(%r) -" % (w,)      # not a weekday object: never equal to a model response (and never a crash)
    return "%d %s" % (w.weekday, oint(w.n))


def rd_wire(d):
    """the 18 tokens of a relativedelta object's state (integer-valued fields only)"""
    f = [d.years, d.months, d.days, d.leapdays, d.hours, d.minutes, d.seconds, d.microseconds]
    return " ".join([str(int(x)) for x in f] + [oint(d.year), oint(d.month), oint(d.day), wd_tokens(d.weekday),
                                                oint(d.hour), oint(d.minute), oint(d.second), oint(d.microsecond),
                                                str(int(d._has_time))])


def is_int_valued(d):
    return all(isinstance(getattr(d, a), int) and not isinstance(getattr(d, a), bool) for a in REL) and \
        all(getattr(d, a) is None or (isinstance(getattr(d, a), int) and not isinstance(getattr(d, a), bool)) for a in ABS)


def kw_wire(kw):
    """the 19 tokens of a keyword-argument dict (ints / None / weekday spec)"""
    out = []
    for k in KW_ORDER:
        v = kw.get(k)
        if k == "weekday":
            if v is None:
                out.append("-")
            elif isinstance(v, int):
                out.append("i%d" % v)
            else:
                out.append("w%d:%s" % (v.weekday, oint(v.n)))
        elif k in ("year", "month", "day", "yearday", "nlyearday", "hour", "minute", "second", "microsecond"):
            out.append(oint(v))
        else:
            out.append(str(int(v or 0)))
    return " ".join(out)


def kind_of(x):
    if not isinstance(x, datetime.datetime):
        return "d"
    if x.tzinfo is None:
        return "n"
    for i, z in enumerate(zones()):
        if x.tzinfo is z:
            return "a%d" % i
    return _TAGS.get(id(x.tzinfo), "a?")


def t_wire(x):
    if isinstance(x, datetime.datetime):
        return "%s %d %d %d %d %d %d %d" % (kind_of(x), x.year, x.month, x.day, x.hour, x.minute, x.second, x.microsecond)
    return "d %d %d %d 0 0 0 0" % (x.year, x.month, x.day)


def t_show(x):
    """canonical form of a RESULT: the wire form, plus a marker if fold is set (the model has no fold bit,
    so a result with fold=1 shows up as a correspondence mismatch)"""
    return t_wire(x) + (" fold=1" if getattr(x, "fold", 0) else "")


def parse_t(tokens):
    """8 tokens -> date / datetime"""
    k = tokens[0]
    v = [int(t) for t in tokens[1:8]]
    if k == "d":
        return datetime.date(v[0], v[1], v[2])
    if k == "n":
        tz = None
    elif "." in k:
        zone, obj = k[1:].split(".")
        tz = distinct_tz(int(zone), int(obj))
    else:
        tz = zones()[int(k[1:])]
    return datetime.datetime(*v, tzinfo=tz)


def mkrd(kw):
    from dateutil.relativedelta import relativedelta
    return relativedelta(**kw)


def kw_json(kw):
    """JSON-able form of a kwargs dict"""
    out = {}
    for k, v in kw.items():
        if k == "weekday" and v is not None and not isinstance(v, int):
            out[k] = {"wd": v.weekday, "n": v.n}
        else:
            out[k] = v
    return out


def kw_unjson(j):
    from dateutil._common import weekday
    out = {}
    for k, v in j.items():
        if k == "weekday" and isinstance(v, dict):
            out[k] = weekday(v["wd"], v["n"])
        else:
            out[k] = v
    return out


def t_json(x):
    return t_wire(x)


def source_ydayidx():
    """the literal list assigned to `ydayidx` inside relativedelta.__init__ (from the working tree's AST)"""
    path = os.path.join(vlib.REPO, "src", "dateutil", "relativedelta.py")
    tree = ast.parse(open(path).read())
    for node in ast.walk(tree):
        if isinstance(node, ast.Assign) and len(node.targets) == 1 and isinstance(node.targets[0], ast.Name) \
                and node.targets[0].id == "ydayidx":
            return ast.literal_eval(node.value)
    return None


def with_generated(reqs, exp):
    """every request to a hand-model op is repeated against the definition RE-TRANSLATED from /repo on this run
    (Generated/RDOps.lean, ops rdgen.*): the translator is validated against the implementation like the model is"""
    gen = {"rd.add": "rdgen.add", "rd.rsub": "rdgen.rsub", "rd.mk": "rdgen.mk", "rd.expr": "rdgen.expr",
           "rd.bool": "rdgen.bool", "rd.hash": "rdgen.hash", "rd.eq": "rdgen.eq", "rd.diff": "rdgen.diff",
           "rd.diffn": "rdgen.diffn", "rd.diffo": "rdgen.diffo", "rd.muldy": "rdgen.muldy", "rd.divp2": "rdgen.divp2",
           "rd.normalized": "rdgen.normalized"}
    r2, e2 = list(reqs), list(exp)
    for q, e in zip(reqs, exp):
        op = q.split(" ", 1)[0]
        if op in gen:
            r2.append(gen[op] + q[len(op):]); e2.append(e)
    return r2, e2


# ---------- generators ----------
BOUNDARY = [0, 1, -1, 2, 11, 12, 13, 23, 24, 25, 59, 60, 61, 119, 120, 999999, 1000000, 1000001, 86399, 86400, 86401]


def g_rel(rng, scale):
    """a signed relative value: boundary-biased, sometimes big enough to carry several levels"""
    r = rng.random()
    if r < 0.30:
        return 0
    if r < 0.55:
        return rng.choice(BOUNDARY) * rng.choice((1, -1))
    if r < 0.9:
        return rng.randint(-scale, scale)
    return rng.randint(-scale * 50, scale * 50)


def g_big(rng):
    r = rng.random()
    if r < 0.5:
        return rng.randint(-10 ** 7, 10 ** 7)
    if r < 0.8:
        return rng.randint(-10 ** 14, 10 ** 14)
    return rng.randint(-10 ** 30, 10 ** 30)


def g_weekday(rng, int_ok=True, wild=False):
    from dateutil._common import weekday
    from dateutil import relativedelta as R
    r = rng.random()
    if int_ok and r < 0.25:
        if rng.random() < 0.35:
            return 0                                     # calendar.MONDAY: the falsy integer weekday
        return rng.randint(-9, 8) if wild else rng.randint(0, 6)
    w = rng.randint(0, 6)
    r = rng.random()
    if r < 0.25:
        return R.weekdays[w]
    n = rng.choice([None, 0, 1, -1, 2, -2, 3, -3, 4, -4, 5, -5])
    if n is None:
        return R.weekdays[w]
    return weekday(w, n)


def g_kw(rng, profile="c03"):
    """keyword arguments of the constructor.
    c03: the property's domain (absolute fields in range, relative fields that keep most results in 1..9999);
    wild: also out-of-range absolutes, zero absolutes, huge relatives, bad yeardays, int weekdays outside 0..6."""
    kw = {}
    wild = profile == "wild"
    p_rel = 0.35
    scales = {"years": 60, "months": 40, "days": 900, "hours": 120, "minutes": 4000, "seconds": 200000,
              "microseconds": 3 * 10 ** 6, "weeks": 60}
    for k, s in scales.items():
        if rng.random() < p_rel:
            kw[k] = g_big(rng) if (wild and rng.random() < 0.15) else g_rel(rng, s)
    if rng.random() < 0.25:
        kw["leapdays"] = rng.choice([1, -1, 2, -2, 0, 3]) if not wild else rng.randint(-3, 3)
    p_abs = 0.22
    if rng.random() < p_abs:
        kw["year"] = rng.choice([1, 2, 4, 100, 400, 1582, 1900, 1999, 2000, 2001, 2004, 2100, 9998, 9999,
                                 rng.randint(1, 9999)])
        if wild and rng.random() < 0.2:
            kw["year"] = rng.choice([0, -1, 10000, 12000])
    if rng.random() < p_abs:
        kw["month"] = rng.randint(1, 12)
        if wild and rng.random() < 0.25:
            kw["month"] = rng.choice([0, 13, 14, -1, 24])
    if rng.random() < p_abs:
        kw["day"] = rng.choice([1, 15, 28, 29, 30, 31, rng.randint(1, 31)])
        if wild and rng.random() < 0.2:
            kw["day"] = rng.choice([0, -1, 32, 40])
    for k, hi in (("hour", 23), ("minute", 59), ("second", 59), ("microsecond", 999999)):
        if rng.random() < 0.15:
            kw[k] = rng.choice([0, hi, rng.randint(0, hi)])
            if wild and rng.random() < 0.15:
                kw[k] = rng.choice([-1, hi + 1])
    if rng.random() < 0.35:
        kw["weekday"] = g_weekday(rng, wild=wild)
    r = rng.random()
    if r < 0.08:
        kw["yearday"] = rng.choice([1, 31, 32, 59, 60, 61, 365, 366, rng.randint(1, 366)])
        if wild and rng.random() < 0.3:
            kw["yearday"] = rng.choice([0, -3, 367, 400])
    elif r < 0.16:
        kw["nlyearday"] = rng.choice([1, 31, 32, 59, 60, 61, 365, rng.randint(1, 365)])
        if wild and rng.random() < 0.3:
            kw["nlyearday"] = rng.choice([0, -3, 366, 367, 500])
    elif r < 0.18:
        kw["yearday"] = rng.randint(1, 366)
        kw["nlyearday"] = rng.randint(0, 365)
    return kw


YEARS = [1, 2, 4, 100, 400, 1582, 1583, 1900, 1999, 2000, 2001, 2003, 2004, 2100, 2400, 4099, 9998, 9999]


def g_date(rng):
    r = rng.random()
    if r < 0.5:
        y = rng.choice(YEARS)
    elif r < 0.8:
        y = rng.randint(1990, 2030)
    else:
        y = rng.randint(1, 9999)
    m = rng.choice([1, 2, 2, 3, 12, rng.randint(1, 12)])
    dim = calendar.monthrange(2000 + y % 400, m)[1] if not (1 <= y <= 9999) else calendar.monthrange(y, m)[1]
    d = rng.choice([1, dim, dim, max(1, dim - 1), min(28, dim), rng.randint(1, dim)])
    return y, m, d


def g_time(rng):
    r = rng.random()
    if r < 0.3:
        return 0, 0, 0, 0
    if r < 0.45:
        return 23, 59, 59, 999999
    if r < 0.55:
        return 12, 0, 0, 0
    if r < 0.67:
        # the time of day lives in exactly one field (only us / only seconds / only minutes / only hours)
        return rng.choice([(0, 0, 0, rng.choice([1, 250000, 999999])), (0, 0, rng.randint(1, 59), 0),
                           (0, rng.randint(1, 59), 0, 0), (rng.randint(1, 23), 0, 0, 0)])
    return (rng.randint(0, 23), rng.randint(0, 59), rng.randint(0, 59), rng.choice([0, 1, 999999, rng.randint(0, 999999)]))


def g_temporal(rng, kinds=("d", "n", "a")):
    y, m, d = g_date(rng)
    k = rng.choice(kinds)
    if k == "d":
        return datetime.date(y, m, d)
    hh, mm, ss, us = g_time(rng)
    tz = None if k == "n" else rng.choice(zones())
    fold = 1 if rng.random() < 0.15 else 0
    return datetime.datetime(y, m, d, hh, mm, ss, us, tzinfo=tz, fold=fold)


# ---------- the history of ONE object (use -> mutate -> use …) ----------
# A relativedelta is mutable (public `weeks` setter, plain attribute assignment).  After every step of a random history the
# object must answer like (a) the Lean model evaluated on its CURRENT field record and (b) a freshly built object holding the
# same field values (theorems C16.use_after_set_eq_fresh / same_mutations_same_answer; that a use does not write the record
# is audited on the source: write_audit).

WRITERS_ALLOWED = ("__init__", "_fix", "_set_months", "weeks.setter")
_MUTATING_METHODS = {"append", "extend", "insert", "pop", "popitem", "remove", "clear", "update", "setdefault", "add", "discard",
                     "sort", "reverse", "__setattr__", "__setitem__", "__delattr__", "__delitem__"}
_PLAIN_DECORATORS = {"property", "weeks.setter", "staticmethod", "classmethod"}


def write_audit(repo=None):
    """every place where a method of class `relativedelta` (src/dateutil/relativedelta.py) could leave something behind
    that a later call can see, outside __init__ / _fix / _set_months / the weeks setter: attribute stores / deletes
    (on any object), setattr / delattr / object.__setattr__ / vars() / __dict__ access, `global` / `nonlocal`, stores
    into (or mutating method calls on) anything that is not a local variable of the function, decorators other than
    @property / @weeks.setter (memoising wrappers), mutable default arguments, and class-level assignments other than the
    `__nonzero__ = __bool__` / `__truediv__ = __div__` aliases.  Returns a sorted list of site strings (empty = clean)."""
    path = os.path.join(repo or vlib.REPO, "src", "dateutil", "relativedelta.py")
    tree = ast.parse(open(path).read())
    sites = []
    cls = next((n for n in tree.body if isinstance(n, ast.ClassDef) and n.name == "relativedelta"), None)
    if cls is None:
        return ["class relativedelta not found"]
    for node in cls.body:
        if isinstance(node, (ast.Assign, ast.AnnAssign, ast.AugAssign)):
            ok = isinstance(node, ast.Assign) and isinstance(node.value, ast.Name) and node.value.id.startswith("__") \
                and all(isinstance(t, ast.Name) for t in node.targets)
            if not ok:
                sites.append("class-level state: %s" % ast.unparse(node)[:80])
            continue
        if not isinstance(node, (ast.FunctionDef, ast.AsyncFunctionDef)):
            continue
        decos = [ast.unparse(d) for d in node.decorator_list]
        name = node.name + (".setter" if any(d.endswith(".setter") for d in decos) else "")
        for d in decos:
            if d not in _PLAIN_DECORATORS:
                sites.append("%s: decorator @%s" % (name, d))
        for dflt in list(node.args.defaults) + [d for d in node.args.kw_defaults if d is not None]:
            if isinstance(dflt, (ast.List, ast.Dict, ast.Set, ast.Call, ast.ListComp, ast.DictComp, ast.SetComp)):
                sites.append("%s: mutable default argument %s" % (name, ast.unparse(dflt)[:40]))
        if name in WRITERS_ALLOWED:
            continue
        # local variables: parameters and names bound by plain assignment / for / with / comprehension in this function
        params = {a.arg for a in node.args.args + node.args.kwonlyargs + node.args.posonlyargs}
        local = set()
        for n in ast.walk(node):
            if isinstance(n, ast.Name) and isinstance(n.ctx, ast.Store):
                local.add(n.id)

        def base_name(e):
            while isinstance(e, (ast.Attribute, ast.Subscript)):
                e = e.value
            return e.id if isinstance(e, ast.Name) else None

        for n in ast.walk(node):
            where = "%s:%d" % (name, getattr(n, "lineno", 0))
            if isinstance(n, (ast.Global, ast.Nonlocal)):
                sites.append("%s: %s" % (where, ast.unparse(n)))
            elif isinstance(n, ast.Attribute) and isinstance(n.ctx, (ast.Store, ast.Del)):
                sites.append("%s: attribute write %s" % (where, ast.unparse(n)))
            elif isinstance(n, ast.Attribute) and n.attr in ("__dict__", "__class__") and not (
                    n.attr == "__class__" and isinstance(n.ctx, ast.Load)):
                sites.append("%s: %s access" % (where, ast.unparse(n)))
            elif isinstance(n, ast.Subscript) and isinstance(n.ctx, (ast.Store, ast.Del)):
                b = base_name(n.value)
                if b is None or b in params or b not in local:
                    sites.append("%s: item write %s" % (where, ast.unparse(n)[:60]))
            elif isinstance(n, ast.Call):
                f = n.func
                if isinstance(f, ast.Name) and f.id in ("setattr", "delattr", "vars", "globals", "locals", "exec", "eval"):
                    sites.append("%s: call %s" % (where, ast.unparse(n)[:60]))
                elif isinstance(f, ast.Attribute) and f.attr in _MUTATING_METHODS:
                    b = base_name(f.value)
                    if b is None or b in params or b not in local:
                        sites.append("%s: mutating call %s" % (where, ast.unparse(n)[:60]))
    return sorted(sites)


def capture_hash_tuple(d):
    """the tuple relativedelta.__hash__ passes to hash(), canonicalised like Ops `rd.hash`; and the hash value"""
    import builtins
    from dateutil import relativedelta as R
    got = []

    def spy(t):
        got.append(t)
        return builtins.hash(t)
    R.hash = spy
    try:
        h = hash(d)
    finally:
        del R.hash
    if len(got) != 1 or not isinstance(got[0], tuple) or len(got[0]) != 16:
        return "unexpected %r" % (got,), h
    t = got[0]
    try:
        w = "-" if t[0] is None else "(%s,%s)" % (oint(t[0][0]), oint(t[0][1]))
        return " ".join([w] + [oint(x) for x in t[1:]]), h
    except Exception:
        return "unexpected %r" % (t,), h


def clone_record(d):
    """a FRESH object (never used) holding exactly d's current field record, `_has_time` included"""
    from dateutil.relativedelta import relativedelta
    f = relativedelta()
    for k in REL + ABS + ["weekday", "_has_time"]:
        setattr(f, k, getattr(d, k))
    return f


def reachable(d):
    """is the current record one the constructor can return (normal form, `_has_time` consistent, integer fields)?"""
    if not is_int_valued(d):
        return False
    has = bool(d.hours or d.minutes or d.seconds or d.microseconds or d.hour is not None or d.minute is not None
               or d.second is not None or d.microsecond is not None)
    return abs(d.microseconds) <= 999999 and abs(d.seconds) <= 59 and abs(d.minutes) <= 59 and abs(d.hours) <= 23 \
        and abs(d.months) <= 11 and int(d._has_time) == int(has)


def g_steps(rng, n, tame=0.7):
    """a random history: ["use", kind] / ["set", field, value] / ["weeks", v] / ["wd", w, n]"""
    steps = []
    uses = ["add", "radd", "rsub", "hash", "eq", "bool", "neg", "abs", "normalized", "repr", "mul", "addrd", "weeks"]
    for _ in range(n):
        r = rng.random()
        if r < 0.5:
            steps.append(["use", rng.choice(uses)])
        elif r < 0.68:
            steps.append(["weeks", rng.choice([0, 1, -1, 2, 3, -4, 10, rng.randint(-60, 60)])])
        elif r < 0.88:
            k = rng.choice(REL)
            if rng.random() < tame:
                hi = {"years": 50, "months": 11, "days": 400, "leapdays": 1, "hours": 23, "minutes": 59, "seconds": 59,
                      "microseconds": 999999}[k]
                v = rng.choice([0, 1, -1, hi, -hi, rng.randint(-hi, hi)])
            else:
                v = g_rel(rng, 300)
            steps.append(["set", k, v])
        elif r < 0.95:
            k = rng.choice(ABS)
            hi = {"year": 9999, "month": 12, "day": 31, "hour": 23, "minute": 59, "second": 59, "microsecond": 999999}[k]
            steps.append(["set", k, rng.choice([None, None, 1, hi, rng.randint(1, hi)])])
        else:
            steps.append(["wd", rng.choice([None, rng.randint(0, 6)]), rng.choice([None, 1, -1, 2, -3])])
    return steps


def apply_step(d, st):
    """mutate d (steps of kind use are handled by the caller)"""
    from dateutil._common import weekday
    if st[0] == "weeks":
        d.weeks = st[1]
    elif st[0] == "set":
        setattr(d, st[1], st[2])
    elif st[0] == "wd":
        d.weekday = None if st[1] is None else weekday(st[1], st[2])


def step_wire(st):
    if st[0] == "use":
        return "U"
    if st[0] == "weeks":
        return "W %d" % st[1]
    if st[0] == "wd":
        return "D %s %s" % (oint(st[1]), oint(st[2] if st[1] is not None else None))
    if st[1] in REL:
        return "S %d %d" % (REL.index(st[1]), st[2])
    return "A %d %s" % (ABS.index(st[1]), oint(st[2]))


def observations(d, x, probe):
    """every observation of the object, as comparable strings (never mutates d)"""
    obs = {}
    obs["add"] = run(lambda: x + d, t_show)
    obs["radd"] = run(lambda: d + x, t_show)
    obs["rsub"] = run(lambda: x - d, t_show)
    obs["hash"] = run(lambda: hash(d), str)          # the VALUE (a memo that is invalidated correctly is not a defect)
    obs["eq"] = run(lambda: (d == probe, probe == d, d != probe), lambda t: "%d %d %d" % t)
    obs["bool"] = run(lambda: bool(d), lambda b: "%d" % b)
    obs["neg"] = run(lambda: -d, rd_state)
    obs["abs"] = run(lambda: abs(d), rd_state)
    obs["normalized"] = run(lambda: d.normalized(), rd_state)
    obs["repr"] = run(lambda: repr(d), str)
    obs["mul"] = run(lambda: d * 3, rd_state)
    obs["addrd"] = run(lambda: d + probe, rd_state)
    obs["subrd"] = run(lambda: probe - d, rd_state)
    obs["weeks"] = run(lambda: d.weeks, str)
    return obs


def rd_state(d):
    """all 18 state tokens of an object, floats shown by repr (the comparison is implementation vs implementation)"""
    f = [getattr(d, k) for k in REL] + [getattr(d, k) for k in ABS]
    return " ".join(repr(v) for v in f) + " " + wd_tokens(d.weekday) + " %r" % (d._has_time,)


def model_requests(d, x, probe):
    """the model's answer for the CURRENT record: driver requests + the implementation's answer, for integer records"""
    w, t, pw = rd_wire(d), t_wire(x), rd_wire(probe)
    reqs, exp = [], []
    reqs.append("rd.add %s %s" % (w, t)); exp.append(run(lambda: x + d, t_show))
    reqs.append("rd.rsub %s %s" % (w, t)); exp.append(run(lambda: x - d, t_show))
    reqs.append("rd.bool " + w); exp.append("ok %d" % (1 if d else 0))
    reqs.append("rd.hash " + w); exp.append("ok " + capture_hash_tuple(d)[0])
    reqs.append("rd.expr R %s neg" % w); exp.append(run(lambda: -d, rd_wire))
    reqs.append("rd.expr R %s abs" % w); exp.append(run(lambda: abs(d), rd_wire))
    reqs.append("rd.expr R %s R %s add" % (w, pw)); exp.append(run(lambda: d + probe, rd_wire))
    reqs.append("rd.expr R %s R %s sub" % (pw, w)); exp.append(run(lambda: probe - d, rd_wire))
    if max(abs(getattr(d, k)) for k in REL) * 3 < 2 ** 53:
        reqs.append("rd.expr R %s mul 3" % w); exp.append(run(lambda: d * 3, rd_wire))
    if abs(d.days) < 2 ** 53:
        reqs.append("rd.weeks " + w); exp.append("ok %d" % d.weeks)
    if max(abs(getattr(d, k)) for k in REL) * 3 < 2 ** 53:
        reqs.append("rd.normalized " + w); exp.append(run(lambda: d.normalized(), rd_wire))
        reqs.append("rd.muldy %s 3 1" % w); exp.append(run(lambda: d * 1.5, rd_wire))
        reqs.append("rd.divp2 %s 1 2" % w); exp.append(run(lambda: d / -4, rd_wire))
    return reqs, exp


def history_corr(ctx, rng, starts, n_steps, tag):
    """correspondence part: run random histories on the implementation; after EVERY step compare the object with the model
    evaluated on its current record, the `weeks` setter with rd.setweeks, and the whole life with rd.hist.
    Returns (reqs, exp); the caller sends them (with_generated doubles them against the translated methods)."""
    reqs, exp = [], []
    for d0 in starts:
        d = clone_record(d0) if rng.random() < 0.3 else d0
        if not is_int_valued(d):
            continue
        x, probe = g_temporal(rng), mkrd(g_kw(rng, "c03")) if rng.random() < 0.7 else clone_record(d)
        start_w = rd_wire(d)
        steps = g_steps(rng, n_steps)
        wire = []
        for st in steps:
            if st[0] == "use":
                observations(d, x, probe)          # really use it: whatever a use leaves behind must not show later
            elif st[0] == "weeks" and abs(d.days) < 2 ** 53:
                reqs.append("rd.setweeks %s %d" % (rd_wire(d), st[1]))
                apply_step(d, st)
                exp.append("ok " + rd_wire(d))
            elif st[0] == "weeks":
                continue
            else:
                apply_step(d, st)
            wire.append(step_wire(st))
            q, e = model_requests(d, x, probe)
            reqs += q; exp += e
            ctx.count(tag + "_steps")
        reqs.append("rd.hist %s %s" % (start_w, " ".join(wire))); exp.append("ok " + rd_wire(d))
        ctx.count(tag + "_objects")
    return reqs, exp


def history_oracle(ctx, rng, make_start, n_obj, n_steps, tag, law="history"):
    """oracle part, on the implementation alone: after every step of a random history, every observation of the object
    equals the observation of a fresh object with the same field record, and — when the record is one the constructor can
    return — of relativedelta(**fields), which it must also equal and hash like.  A difference is a failing input
    (start, steps, operand) and is replayable."""
    for i in range(n_obj):
        start = make_start(rng)
        if start is None:
            continue
        steps = g_steps(rng, n_steps, tame=0.85)
        x = g_temporal(rng)
        pk = g_kw(rng, "c03")
        ctx.case((tag, i, repr(start), repr(steps)[:200]))
        bad = run_history(start, steps, x, pk, ctx, tag)
        if bad:
            ctx.violation("history: after %d steps the object answers %s = %s but a fresh object with the same fields answers %s"
                          % (bad["step"] + 1, bad["obs"], bad["got"], bad["fresh"]),
                          {"law": law, "start": bad["start"], "steps": steps[:bad["step"] + 1], "x": t_wire(x),
                           "probe": kw_json(pk), "obs": bad["obs"], "against": bad["against"]})


def run_history(start, steps, x, pk, ctx=None, tag="hist"):
    """start = ("kw", kwargs) | ("diff", t1_wire, t2_wire) | ("expr", kwargs_a, kwargs_b).  Returns None or the first difference."""
    d = build_start(start)
    probe = mkrd(pk)
    used = False
    for i, st in enumerate(steps):
        if st[0] == "use":
            observations(d, x, probe)
            used = True
        else:
            try:
                apply_step(d, st)
            except Exception:
                continue
        got = observations(d, x, probe)
        fresh = observations(clone_record(d), x, probe)
        against = "fresh object with the same attributes"
        if got == fresh and reachable(d):
            kw = {k: getattr(d, k) for k in REL + ABS}
            kw["weekday"] = d.weekday
            c = mkrd(kw)
            fresh = observations(c, x, probe)
            against = "relativedelta(**current fields)"
            if got == fresh and not (d == c and c == d and hash(d) == hash(c) and not (d != c)):
                return {"step": i, "obs": "==/hash", "got": "d == c: %s, hash equal: %s" % (d == c, hash(d) == hash(c)),
                        "fresh": "True, True", "start": start_json(start), "against": against}
            if ctx is not None:
                ctx.count(tag + "_reachable_states")
        elif ctx is not None:
            ctx.count(tag + "_unreachable_states")
        if ctx is not None:
            ctx.count(tag + ("_states_after_use" if used else "_states_before_first_use"))
        if got != fresh:
            k = next(k for k in got if got[k] != fresh[k])
            return {"step": i, "obs": k, "got": got[k], "fresh": fresh[k], "start": start_json(start), "against": against}
    return None


def build_start(start):
    if start[0] == "kw":
        return mkrd(start[1])
    if start[0] == "diff":
        from dateutil.relativedelta import relativedelta
        return relativedelta(parse_t(start[1].split()), parse_t(start[2].split()))
    if start[0] == "expr":
        return mkrd(start[1]) + mkrd(start[2])
    raise ValueError(start[0])


def start_json(start):
    if start[0] == "kw":
        return ["kw", kw_json(start[1])]
    if start[0] == "expr":
        return ["expr", kw_json(start[1]), kw_json(start[2])]
    return list(start)


def start_unjson(j):
    if j[0] == "kw":
        return ("kw", kw_unjson(j[1]))
    if j[0] == "expr":
        return ("expr", kw_unjson(j[1]), kw_unjson(j[2]))
    return tuple(j)


def replay_history(c):
    """replay of a `history` violation: True iff it no longer fails"""
    start = start_unjson(c["start"])
    x = parse_t(c["x"].split())
    bad = run_history(start, c["steps"], x, kw_unjson(c["probe"]))
    print("start=%r steps=%r x=%s" % (c["start"], c["steps"], x))
    if bad:
        print("still failing: after step %d, %s = %s; %s answers %s" % (bad["step"] + 1, bad["obs"], bad["got"], bad["against"], bad["fresh"]))
    return bad is None


def g_start_kw(rng):
    for _ in range(20):
        kw = g_kw(rng, "c03")
        kw.pop("yearday", None); kw.pop("nlyearday", None)
        try:
            d = mkrd(kw)
        except (ValueError, IndexError):
            continue
        if isinstance(kw.get("weekday"), int):
            kw["weekday"] = d.weekday
        return ("kw", kw)
    return None
