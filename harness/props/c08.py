"""C08 — tzstr, tzrange and tzlocal implement POSIX TZ rule semantics."""
import os, time, datetime, warnings, calendar
import basecorr
from vlib import hexs, exc_kind

PROP = "C08"
TRUSTED = [
    "Model/TzStr.lean is a hand model of _tzparser.parse, tzstr.__init__/_delta, tzrange.__init__/transitions; tied by the tz.parse / tz.zone / tz.trans correspondence ops",
    "Spec/Posix.lean (Mm.w.d / Jn / n rule dates, daylight interval in either hemisphere) is the reference, written from POSIX; cross-checked against glibc through tzlocal under TZ=<string>",
    "re.split with the one pattern used is modelled by a hand tokenizer (tz.tokens correspondence); int() on tokens is modelled for ASCII only",
    "relativedelta(**kwargs) in _delta is modelled by its denotation (month/day/weekday/leapdays + total seconds): _fix preserves the total (C16)",
    "range-zone utcoffset/fromutc logic (tzrangebase) is modelled in Model/Zones.lean (C04); here the implementation is compared with the POSIX spec directly",
]
ASSUMPTIONS = [
    "glibc localtime()/tzset() behind tzlocal is not modelled (assumed POSIX); tzlocal is compared with the Lean POSIX spec on the implementation only",
    "quantifier of C08: start and end rules at least a month apart and away from the year boundary",
]
RULE = ("generated POSIX specs: std offset in -12h..+14h incl. half hours x saving {30m,1h,2h} x start/end rule forms (Mm.w.d, Jn, n) in "
        "either hemisphere x rule times in several spellings x offset spellings; each probed at every transition of 3 years +- "
        "{1 s, 30 min, 1 h, 2 h, 1 day} and on a coarse grid; distinct = distinct (TZ string, instant); non-trivial = instant within "
        "two days of a transition or a malformed/fixed-zone string class")

EPOCH_ORD = datetime.date(1970, 1, 1).toordinal()

# ---------------------------------------------------------------- rendering of specs

def off_str(off_east, style):
    """POSIX offset text for an offset east of UTC (sign inverted)"""
    o = -off_east
    sign = "-" if o < 0 else ("+" if style % 2 == 1 else "")
    o = abs(o)
    h, m = divmod(o // 60, 60)
    if m == 0:
        return sign + [str(h), "%02d" % h, "%02d00" % h, str(h)][style % 4] if h < 100 else sign + str(h)
    return sign + ["%d:%02d" % (h, m), "%02d%02d" % (h, m), "%02d:%02d" % (h, m), "%d:%02d" % (h, m)][style % 4]

def time_str(t, style):
    if t is None:
        return ""
    h, rem = divmod(t, 3600)
    m, s = divmod(rem, 60)
    if s:
        return "/%d:%02d:%02d" % (h, m, s)
    if m:
        return ["/%d:%02d" % (h, m), "/%02d%02d" % (h, m) if h < 100 else "/%d:%02d" % (h, m)][style % 2]
    return ["/%d" % h, "/%02d" % h, "/%02d00" % h if h < 100 else "/%d" % h][style % 3]

def rule_str(r):
    if r[0] == "M": return "M%d.%d.%d" % r[1:]
    if r[0] == "J": return "J%d" % r[1]
    return "%d" % r[1]

def rule_wire(r):
    if r[0] == "M": return "M.%d.%d.%d" % r[1:]
    if r[0] == "J": return "J.%d" % r[1]
    return "N.%d" % r[1]

def gen_rule(rng, early):
    k = rng.choice("MMMJn")
    if k == "M":
        return ("M", rng.choice([3, 4, 5] if early else [9, 10, 11]), rng.randint(1, 5), rng.randint(0, 6))
    lo, hi = (60, 150) if early else (250, 330)
    if k == "J":
        return ("J", rng.randint(lo, hi))
    return ("n", rng.randint(lo - 1, hi))

def gen_spec(rng, wide_times=False):
    south = rng.random() < 0.4
    std = rng.choice([-43200, -36000, -18000, -12600, -7200, -3600, -1800, 0, 3600, 19800, 20700, 32400, 43200, 50400])   # incl. dst offset exactly 0
    save = rng.choice([3600, 3600, 3600, 1800, 7200])
    dst = std + save
    sr = gen_rule(rng, not south)
    er = gen_rule(rng, south)
    tchoices = [None, None, 7200, 0, 3600, 1800, 10800, 5400, 9015, 82800, 86399]
    if wide_times:
        tchoices += [86400, 90000, 93600, 25 * 3600]
    st = rng.choice(tchoices)
    et = rng.choice(tchoices)
    sty = rng.randint(0, 11)
    s = "AAA%s%s%s,%s%s,%s%s" % (off_str(std, sty), "BBB", "" if (save == 3600 and rng.random() < 0.7) else off_str(dst, sty + 1),
                                 rule_str(sr), time_str(st, sty), rule_str(er), time_str(et, sty + 1))
    return {"s": s, "std": std, "dst": dst, "sr": sr, "st": 7200 if st is None else st, "er": er,
            "et": 7200 if et is None else et, "south": south}

def gen_norule_spec(rng):
    """a TZ string WITHOUT a rule part: dateutil's documented default applies (first Sunday of April 02:00 standard time to the last
    Sunday of October 02:00 DAYLIGHT time, whatever the saving); the daylight offset is explicit and mostly NOT standard + 1 h"""
    std = rng.choice([-43200, -36000, -18000, -12600, -3600, 0, 3600, 19800, 34200, 37800, 43200])
    save = rng.choice([7200, 7200, 1800, 1800, 1200, 5400, 3600, 10800, 900])
    dst = std + save
    sty = rng.randint(0, 11)
    explicit = not (save == 3600 and rng.random() < 0.5)
    s = "AAA%sBBB%s" % (off_str(std, sty), off_str(dst, sty + 1) if explicit else "")
    return {"s": s, "std": std, "dst": dst, "sr": ("M", 4, 1, 0), "st": 7200, "er": ("M", 10, 5, 0), "et": 7200, "south": False, "norule": True}

NORULE_STRINGS = ["EST5EDT3", "EST5EDT", "LHST-10:30LHDT-11", "AAA-2BBB-2:20", "AAA3BBB1", "AAA0BBB-0030", "NST3:30NDT1:30", "CET-1CEST-3", "AAA+11BBB+09"]

def spelling_family(s):
    """the spelling families of C08.tzstr_render_partial present in a generated string (for the evidence)"""
    import re
    head, r1, r2 = s.split(",")
    fams = []
    for part in re.findall(r"[A-Za-z]+([+-]?[0-9:]*)", head):
        if part:
            sign = "+" if part[0] == "+" else ("-" if part[0] == "-" else "nosign")
            body = part.lstrip("+-")
            sp = "hh:mm" if ":" in body else ("hhmm" if len(body) == 4 else "h")
            fams.append("offset:%s:%s" % (sign, sp))
        else:
            fams.append("offset:absent")
    for r in (r1, r2):
        rule, _, tm = r.partition("/")
        fams.append("rule:" + ("M" if rule.startswith("M") else "J" if rule.startswith("J") else "n"))
        if not tm:
            fams.append("time:absent")
        else:
            fams.append("time:" + ("hh:mm:ss" if tm.count(":") == 2 else "hh:mm" if ":" in tm else "hhmm" if len(tm) == 4 else "h"))
    return fams

def posix_canon(spec):
    """the same specification in strict POSIX spelling (h[:mm[:ss]] offsets and times), for glibc"""
    def hms(x):
        sign = "-" if x < 0 else ""
        x = abs(x); h, rem = divmod(x, 3600); m, sec = divmod(rem, 60)
        return sign + ("%d" % h if not (m or sec) else ("%d:%02d" % (h, m) if not sec else "%d:%02d:%02d" % (h, m, sec)))
    return "AAA%sBBB%s,%s/%s,%s/%s" % (hms(-spec["std"]), hms(-spec["dst"]), rule_str(spec["sr"]), hms(spec["st"]),
                                       rule_str(spec["er"]), hms(spec["et"]))

def rule_date(y, r):
    """python-side POSIX rule date, used only to choose probe instants (not as the oracle)"""
    if r[0] == "M":
        _, m, w, d = r
        first = datetime.date(y, m, 1)
        pyd = (d - 1) % 7
        day = 1 + (pyd - first.weekday()) % 7 + 7 * (w - 1)
        if day > calendar.monthrange(y, m)[1]:
            day -= 7
        return datetime.date(y, m, day)
    if r[0] == "J":
        n = r[1]
        d = datetime.date(2001, 1, 1) + datetime.timedelta(days=n - 1)
        return datetime.date(y, d.month, d.day)
    return datetime.date(y, 1, 1) + datetime.timedelta(days=r[1])

def probe_instants(spec, years, grid_days):
    out = []
    for y in years:
        for r, t, o in ((spec["sr"], spec["st"], spec["std"]), (spec["er"], spec["et"], spec["dst"])):
            base = datetime.datetime.combine(rule_date(y, r), datetime.time()) + datetime.timedelta(seconds=t - o)
            for d in (-86400, -7201, -7200, -3601, -3600, -1801, -1800, -1, 0, 1, 1799, 1800, 3599, 3600, 7199, 7200, 86400):
                out.append((base + datetime.timedelta(seconds=d), True))
        ny = datetime.datetime(y, 1, 1)
        for d in (0, 1, -1, -spec["std"], -spec["dst"], -spec["std"] + 1, -spec["dst"] - 1, 43200, -43200, 50400, -50400):
            out.append((ny + datetime.timedelta(seconds=d), True))
        if grid_days:
            d0 = datetime.datetime(y, 1, 20)
            for k in range(0, 330, grid_days):
                out.append((d0 + datetime.timedelta(days=k, hours=(k * 7) % 24), False))
    return out

def to_secs(u):
    """naive UTC datetime -> seconds since ordinal 0"""
    return u.toordinal() * 86400 + u.hour * 3600 + u.minute * 60 + u.second

# ---------------------------------------------------------------- implementation runners

def dump_attr(a):
    return " ".join("-" if getattr(a, k) is None else str(int(getattr(a, k)))
                    for k in ("month", "week", "weekday", "yday", "jyday", "day", "time"))

def ostr(x):
    return "-" if x is None else "s" + hexs(x)

def impl_parse(s):
    from dateutil.parser import _parser
    with warnings.catch_warnings(record=True) as w:
        warnings.simplefilter("always")
        try:
            r = _parser._parsetz(s)
        except Exception as ex:
            return "err %s" % exc_kind(ex)
        dep = any("DeprecatedTzFormat" in x.category.__name__ for x in w)
    if r is None:
        return "ok none"
    return "ok %s %s %s %s %s %s %d %d" % (
        ostr(r.stdabbr), "-" if r.stdoffset is None else int(r.stdoffset), ostr(r.dstabbr),
        "-" if r.dstoffset is None else int(r.dstoffset), dump_attr(r.start), dump_attr(r.end),
        int(bool(r.any_unused_tokens)), int(dep))

def dump_delta(d):
    if d is None or d is False:          # `False`: the placeholder tzstr passes to tzrange.__init__ and never replaces
        return "-"
    wd = "-" if d.weekday is None else "%d/%d" % (d.weekday.weekday, d.weekday.n or 0)
    total = ((d.days * 24 + d.hours) * 60 + d.minutes) * 60 + d.seconds
    return "(%s %s %s %d %d)" % ("-" if d.month is None else d.month, "-" if d.day is None else d.day, wd, d.leapdays, total)

def impl_zone(s, posix):
    from dateutil import tz
    with warnings.catch_warnings():
        warnings.simplefilter("ignore")
        try:
            z = tz.tzstr.instance(s, posix_offset=bool(posix))
        except Exception as ex:
            return None, "err %s" % exc_kind(ex)
    return z, "ok %s %s %d %d %s %s %d" % (
        ostr(z._std_abbr), ostr(z._dst_abbr), int(z._std_offset.total_seconds()), int(z._dst_offset.total_seconds()),
        dump_delta(z._start_delta), dump_delta(z._end_delta), int(bool(z.hasdst)))

def impl_trans(z, y):
    try:
        t = z.transitions(y)
    except Exception as ex:
        return "err %s" % exc_kind(ex)
    if t is None:
        return "ok none"
    return "ok %d %d" % (to_secs(t[0]), to_secs(t[1]))

ALPH = list("0123456789") + list(",,..::;/+-MJ") + ["EST", "EDT", "GMT", "UTC", "A", "$", " ", "<", ">", "_", "é"]

def mutate(rng, s):
    k = rng.randint(0, 5)
    i = rng.randint(0, len(s))
    if k == 0 and s:
        return s[:i] + s[i + 1:]
    if k == 1:
        return s[:i] + rng.choice(ALPH) + s[i:]
    if k == 2 and s:
        return s[:i] + rng.choice(ALPH) + s[i + 1:]
    if k == 3 and len(s) > 1:
        i = rng.randint(0, len(s) - 2)
        return s[:i] + s[i + 1] + s[i] + s[i + 2:]
    if k == 4:
        return s + rng.choice([",M3.2.0", "/2", ",", "3600", ",J100,J200"])
    return "".join(rng.choice(ALPH) for _ in range(rng.randint(0, 6)))

FIXED_STRINGS = ["EST5EDT,J0/0,J300", "EST5EDT,J0/0,J0/0", "EST5EDT,J0,J300", "EST5EDT,0/0,300", "EST5", "EST+5", "EST-5:30", "AAA0", "EST", "UTC", "GMT", "GMT+3", "GMT-3", "UTC+3", "UTC-11", "UTC+5:30",
                 "GMT0", "BRST+3", "EST0500", "EST05", "X-14", "EST5EDT", "EST5EDT4", "CET-1CEST", "NZST-12NZDT",
                 "EST5EDT,M3.2.0,M11.1.0", "EST5EDT,M3.2.0/2,M11.1.0/2", "EST5EDT4,M3.2.0/02:00,M11.1.0/02:00:00",
                 "EST5EDT,J60,J300", "EST5EDT,59,299", "EST5EDT,J60/0,J300/23", "AEST-10AEDT,M10.1.0,M4.1.0/3",
                 "EST5EDT,4,1,0,7200,10,-1,0,7200,3600", "EST5EDT,3,2,0,7200,11,1,0,7200", "EST5EDT,4,0,6,7200,10,0,26,7200,3600",
                 "EST,3,2,0,7200,11,1,0,7200,3600", "", "5", "EST5EDT,M3.2.0", "EST5EDT,M3.2.0,M11.1.0,M1.1.1", "EST5;M3.2.0;M11.1.0",
                 "EST5EDT;M3.2.0;M11.1.0", "EST+-5", "<+03>-3", "EST5EDT,M3.2.0/-1,M11.1.0", "EST5EDT,M13.2.0,M11.1.0", "EST123",
                 "EST5EDT,M3.2.0/2/3,M11.1.0", "EST5EDT,M3.2.0/2:30:15:10,M11.1.0", "EST5EDT,M3-2-0,M11-1-0", "EST5EDT,M3.5.0,M10.5.0",
                 "EST5EDT,J0,J366", "EST5EDT,0,365", "EST5EDT,M3.2,M11.1.0", "EST5EDT M3.2.0,M11.1.0", "EST5EDT,,"]

def is_ascii_model_domain(s):
    # the model's int() covers ASCII; non-ASCII digits / whitespace adjacent to numbers are out of its domain
    return all(ord(c) < 128 for c in s)

def correspondence(ctx):
    basecorr.run(ctx)
    rng = ctx.subrng("corr")
    strings = list(FIXED_STRINGS) + list(NORULE_STRINGS)
    n = ctx.budget(1500, 40000)
    for _ in range(n // 25):
        strings.append(gen_norule_spec(rng)["s"]); ctx.count("norule_strings")
    for _ in range(n // 3):
        gs = gen_spec(rng, wide_times=True)["s"]
        strings.append(gs)
        for fam in spelling_family(gs):        # the families of C08.tzstr_render_partial, sent to both sides
            ctx.count("render_family:" + fam)
    base = list(strings)
    for _ in range(n):
        s = rng.choice(base)
        for _ in range(rng.randint(1, 2)):
            s = mutate(rng, s)
        strings.append(s)
    strings = [s for s in dict.fromkeys(strings) if is_ascii_model_domain(s) and "\n" not in s]
    reqs, exp = [], []
    for s in strings:
        h = hexs(s)
        reqs.append("tz.parse " + h); exp.append(impl_parse(s))
        for posix in (0, 1):
            z, dump = impl_zone(s, posix)
            reqs.append("tz.zone %d %s" % (posix, h)); exp.append(dump)
            if z is not None and posix == 0:
                for y in (1, 1999, 2000, 2023, 2024, 9999):
                    reqs.append("tz.trans 0 %s %d" % (h, y)); exp.append(impl_trans(z, y))
    got = ctx.driver(reqs)
    for q, e, g in zip(reqs, exp, got):
        if e != g:
            ctx.mismatch(q.split()[0], q, e, g)
    ctx.traces += len(reqs)
    ctx.count("corr_strings", len(strings))
    # tokenizer vs re.split
    import re
    reqs = ["tz.tokens " + hexs(s) for s in strings]
    got = ctx.driver(reqs)
    for s, g in zip(strings, got):
        e = "ok [" + ",".join(hexs(x) for x in re.split(r'([,:.]|[a-zA-Z]+|[0-9]+)', s) if x) + "]"
        if e != g:
            ctx.mismatch("tz.tokens", s, e, g)
    ctx.traces += len(reqs)

# ---------------------------------------------------------------- oracle

def posix_query(spec, us):
    return ["posix.off %d %d %s %d %s %d %d" % (spec["std"], spec["dst"], rule_wire(spec["sr"]), spec["st"],
                                                  rule_wire(spec["er"]), spec["et"], to_secs(u)) for u in us]

def in_d_c08(spec):
    save = spec["dst"] - spec["std"]
    return ((spec["sr"][0] == "M" and not (0 <= spec["st"] < 86400)) or
            (spec["er"][0] == "M" and not (0 <= spec["et"] - save < 86400)))

def equivalent_tzrange(spec):
    """tzrange built from the equivalent offsets and relativedelta rules, as the tzrange docs describe"""
    from dateutil import tz, relativedelta as rd
    def delta(r, secs):
        kw = {}
        if r[0] == "M":
            _, m, w, d = r
            wd = (d - 1) % 7
            if w == 5:
                kw.update(month=m, day=31, weekday=rd.weekday(wd, -1))
            else:
                kw.update(month=m, day=1, weekday=rd.weekday(wd, w))
        elif r[0] == "J":
            kw.update(nlyearday=r[1])
        else:
            kw.update(yearday=r[1] + 1)
        kw["seconds"] = secs
        return rd.relativedelta(**kw)
    save = spec["dst"] - spec["std"]
    return tz.tzrange("AAA", spec["std"], "BBB", spec["dst"], delta(spec["sr"], spec["st"]), delta(spec["er"], spec["et"] - save))

def tzrange_argument_forms(spec):
    """the same zone through other legal spellings of tzrange's arguments: offsets as timedelta, the daylight offset left
    to its default (std + 1 h) when it is that, the rule time spread over hours/minutes/seconds, weekday constants with
    and without an explicit +1, keyword arguments"""
    import datetime
    from dateutil import tz, relativedelta as rd
    SHORT = (rd.MO, rd.TU, rd.WE, rd.TH, rd.FR, rd.SA, rd.SU)
    def delta(r, secs, style):
        kw = {}
        if r[0] == "M":
            _, m, w, d = r
            wd = (d - 1) % 7
            if w == 5:
                kw.update(month=m, day=31, weekday=SHORT[wd](-1))
            elif w == 1 and style == 1:
                kw.update(month=m, day=1, weekday=SHORT[wd])            # n=None means +1
            else:
                kw.update(month=m, day=1, weekday=SHORT[wd](+w))
        elif r[0] == "J":
            kw.update(nlyearday=r[1])
        else:
            kw.update(yearday=r[1] + 1)
        if style == 0:
            kw["seconds"] = secs
        else:
            sign = -1 if secs < 0 else 1
            a = abs(secs)
            kw.update(hours=sign * (a // 3600), minutes=sign * (a % 3600 // 60), seconds=sign * (a % 60))
        return rd.relativedelta(**kw)
    save = spec["dst"] - spec["std"]
    td = datetime.timedelta
    out = [("timedelta-offsets", tz.tzrange("AAA", td(seconds=spec["std"]), "BBB", td(seconds=spec["dst"]),
                                            delta(spec["sr"], spec["st"], 0), delta(spec["er"], spec["et"] - save, 0))),
           ("hms-deltas", tz.tzrange("AAA", spec["std"], "BBB", spec["dst"],
                                     delta(spec["sr"], spec["st"], 1), delta(spec["er"], spec["et"] - save, 1))),
           ("keywords", tz.tzrange(stdabbr="AAA", stdoffset=spec["std"], dstabbr="BBB", dstoffset=spec["dst"],
                                   start=delta(spec["sr"], spec["st"], 1), end=delta(spec["er"], spec["et"] - save, 0)))]
    if save == 3600:
        out.append(("default-dstoffset", tz.tzrange("AAA", spec["std"], "BBB", start=delta(spec["sr"], spec["st"], 0),
                                                    end=delta(spec["er"], spec["et"] - save, 0))))
        out.append(("default-dstoffset-timedelta", tz.tzrange("AAA", td(seconds=spec["std"]), "BBB", None,
                                                              delta(spec["sr"], spec["st"], 1), delta(spec["er"], spec["et"] - save, 1))))
    return out

def _rule_in_class(spec, which):
    save = spec["dst"] - spec["std"]
    if which == "start":
        return spec["sr"][0] == "M" and not (0 <= spec["st"] < 86400)
    return spec["er"][0] == "M" and not (0 <= spec["et"] - save < 86400)

def explained_by_d_c08(ctx, z, spec, u, got, wall_ok):
    """Is this failure exactly the known defect?  Only if (a) the answer is a well-formed zone state (the std or the dst
    triple, wall = utc + offset), i.e. the zone merely switched at the wrong moment, and (b) the instant lies between the
    POSIX transition (Lean spec) and the transition the implementation itself computed for an Mm.w.d rule whose time of
    day is outside [0, 24 h).  Anything else in such a zone is reported as a violation."""
    save = spec["dst"] - spec["std"]
    if not wall_ok or got not in ((spec["std"], "AAA", False, 0), (spec["dst"], "BBB", True, save)):
        return False
    us = to_secs(u)
    y = u.year
    years = [yy for yy in (y - 1, y, y + 1) if 1 < yy < 9999]
    ords = ctx.driver(["posix.rule %s %d" % (rule_wire(spec[k]), yy) for yy in years for k in ("sr", "er")])
    for i, yy in enumerate(years):
        try:
            tr = z.transitions(yy)
        except Exception:
            return False
        if tr is None:
            return False
        p_start = int(ords[2 * i].split()[1]) * 86400 + spec["st"] - spec["std"]
        p_end = int(ords[2 * i + 1].split()[1]) * 86400 + spec["et"] - spec["dst"]
        i_start = to_secs(tr[0]) - spec["std"]
        i_end = to_secs(tr[1]) - spec["std"]
        if _rule_in_class(spec, "start") and min(p_start, i_start) <= us < max(p_start, i_start):
            return True
        if _rule_in_class(spec, "end") and min(p_end, i_end) <= us < max(p_end, i_end):
            return True
    return False

def check_zone(ctx, what, z, spec, instants, expect, tag):
    from dateutil import tz
    bad = 0
    for (u, near), e in zip(instants, expect):
        _, eoff, eisdst = e.split()
        eoff = int(eoff); eisdst = eisdst == "1"
        try:
            loc = u.replace(tzinfo=tz.UTC).astimezone(z)
            got = (int(loc.utcoffset().total_seconds()), loc.tzname(), loc.dst() != datetime.timedelta(0),
                   int(loc.dst().total_seconds()))
            wall_ok = (loc.replace(tzinfo=None) - u) == datetime.timedelta(seconds=got[0])
        except Exception as ex:
            got = ("exception", type(ex).__name__, None, None); wall_ok = False
        ctx.case((spec["s"], tag, to_secs(u)), nontrivial=near)
        an, bn = spec.get("abbr", ("AAA", "BBB"))
        want = (eoff, bn if eisdst else an, eisdst, (spec["dst"] - spec["std"]) if eisdst else 0)
        if got != want or not wall_ok:
            known = what in ("tzstr", "tzrange") and in_d_c08(spec) and explained_by_d_c08(ctx, z, spec, u, got, wall_ok)
            ctx.count("d_c08_explained_failures" if known else "unexplained_posix_failures")
            if known and ctx.hist["d_c08_explained_failures"] > 40:
                continue            # counted; keep room in the violation list for anything else
            ctx.violation("%s(%r) at %sZ reports offset/abbr/isdst/dst %r, POSIX prescribes %r" % (what, spec["s"], u.isoformat(), got, want),
                          {"kind": "posix", "zone": what, "s": spec["s"], "utc": u.isoformat(), "spec": {k: spec[k] for k in ("std", "dst", "sr", "st", "er", "et")},
                           "d_c08": known}, {"got": got, "want": want})
            bad += 1
            if not known and bad >= 3:
                return False
    return bad == 0

FRESH_CHILD = """
import datetime, warnings
warnings.simplefilter("ignore")
from dateutil import tz
try:
    z = %s
    for s in %r:
        u = datetime.datetime(1970, 1, 1) + datetime.timedelta(seconds=s)
        b = u.replace(tzinfo=tz.UTC).astimezone(z)
        print(b.replace(tzinfo=None).isoformat(), b.fold, b.utcoffset(), b.tzname(), b.dst())
except Exception as ex:
    print("EXC", type(ex).__name__)
"""

def oracle_fresh(ctx):
    """the first use in a NEW interpreter (lazy imports and module caches empty; for tzlocal: the TZ of the environment
    the process was started in, no tzset) answers like this long-running process, whose answers the main oracle
    compares with POSIX"""
    import datetime, os, time
    from dateutil import tz
    from vlib import fresh_interpreters
    rng = ctx.subrng("fresh")
    jobs = []
    epoch = datetime.datetime(1970, 1, 1)
    for k in range(ctx.budget(6, 60)):
        spec = gen_spec(rng)
        pts = [int((u - epoch).total_seconds()) for u, near in probe_instants(spec, (2020,), 0) if near][:40]
        kind = ("tzstr", "tzstr_posix", "tzlocal")[k % 3]
        if kind == "tzlocal":
            jobs.append((kind, posix_canon(spec), "tz.tzlocal()", pts))
        else:
            jobs.append((kind, spec["s"], "tz.tzstr(%r%s)" % (spec["s"], ", posix_offset=True" if kind == "tzstr_posix" else ""), pts))
    # children are grouped by environment: tzlocal children get TZ=<spec>
    res = [None] * len(jobs)
    plain = [i for i, j in enumerate(jobs) if j[0] != "tzlocal"]
    for i, r in zip(plain, fresh_interpreters([FRESH_CHILD % (jobs[i][2], jobs[i][3]) for i in plain])):
        res[i] = r
    for i, j in enumerate(jobs):
        if j[0] == "tzlocal":
            res[i] = fresh_interpreters([FRESH_CHILD % (j[2], j[3])], env={"TZ": j[1]})[0]
    for (kind, s, ctor, pts), (rc, out, err) in zip(jobs, res):
        ctx.case(("fresh", kind, s)); ctx.count("fresh_interpreter_" + kind)
        here = []
        old = os.environ.get("TZ")
        try:
            with warnings.catch_warnings():
                warnings.simplefilter("ignore")
                if kind == "tzlocal":
                    os.environ["TZ"] = s; time.tzset()
                z = eval(ctor, {"tz": tz})
                for p in pts:
                    b = (epoch + datetime.timedelta(seconds=p)).replace(tzinfo=tz.UTC).astimezone(z)
                    here.append("%s %s %s %s %s" % (b.replace(tzinfo=None).isoformat(), b.fold, b.utcoffset(), b.tzname(), b.dst()))
        except Exception as ex:
            here.append("EXC %s" % type(ex).__name__)
        finally:
            if kind == "tzlocal":
                if old is None: os.environ.pop("TZ", None)
                else: os.environ["TZ"] = old
                time.tzset()
        if rc is None:
            ctx.count("fresh_child_timeout"); continue      # the child process timed out: infrastructure, no verdict
        there = out.strip().splitlines() if rc == 0 else ["child failed rc=%s: %s" % (rc, err.strip().splitlines()[-1:] or "")]
        if here != there:
            i = next((n for n, (x, y) in enumerate(zip(here, there)) if x != y), min(len(here), len(there)))
            ctx.violation("%s as the first dateutil call of a new interpreter answers differently: %s, this process: %s"
                          % (ctor, there[i] if i < len(there) else "<nothing>", here[i] if i < len(here) else "<nothing>"),
                          {"kind": "fresh-interpreter", "zone": kind, "s": s}, None)

def oracle(ctx):
    from dateutil import tz
    oracle_fresh(ctx)
    rng = ctx.subrng("oracle")
    nspecs = ctx.budget(90, 3000)
    years = (2019, 2020, 2021)
    for k in range(nspecs):
        spec = gen_norule_spec(rng) if k % 6 == 5 else gen_spec(rng, wide_times=(k % 5 == 0))
        if spec.get("norule"):
            ctx.count("specs_without_rule_part")
            if spec["dst"] - spec["std"] != 3600:
                ctx.count("specs_without_rule_part_saving_not_1h")
        instants = probe_instants(spec, years, 37 if k % 4 == 0 else 0)
        expect = ctx.driver(posix_query(spec, [u for u, _ in instants]))
        with warnings.catch_warnings():
            warnings.simplefilter("ignore")
            try:
                z = tz.tzstr(spec["s"])
            except Exception as ex:
                ctx.case((spec["s"], "ctor"))
                ctx.violation("tzstr(%r) raised %s for a well-formed POSIX specification" % (spec["s"], type(ex).__name__),
                              {"kind": "ctor", "s": spec["s"]}, repr(ex))
                continue
        ctx.count("rule_%s_%s" % (spec["sr"][0], spec["er"][0]))
        ctx.count("south" if spec["south"] else "north")
        if in_d_c08(spec):
            ctx.count("specs_in_class_D-C08")
        if k < 4:
            ctx.sample({"tzstr": spec["s"], "first_probe": instants[0][0].isoformat(), "expected": expect[0]})
        ok = check_zone(ctx, "tzstr", z, spec, instants, expect, "tzstr")
        # tzrange built from the equivalent relativedelta rules must be equal and answer identically
        zr = equivalent_tzrange(spec)
        check_zone(ctx, "tzrange", zr, spec, instants, expect, "tzrange")
        if ok and not in_d_c08(spec):
            zs = tz.tzstr(spec["s"])
            if not (zs == zr) and (spec["st"], spec["et"]) != (None, None):
                # equality compares the relativedeltas; the equivalent construction must compare equal
                ctx.violation("tzstr(%r) != equivalent tzrange" % spec["s"], {"kind": "eq", "s": spec["s"]},
                              {"tzstr": [repr(zs._start_delta), repr(zs._end_delta)], "tzrange": [repr(zr._start_delta), repr(zr._end_delta)]})
        # other legal spellings of the same tzrange arguments: equal zone, same answers
        if k % 3 == 1:
            with warnings.catch_warnings():
                warnings.simplefilter("ignore")
                try:
                    forms = tzrange_argument_forms(spec)
                except Exception as ex:
                    ctx.violation("tzrange(...) raised %s for an equivalent spelling of its arguments" % type(ex).__name__,
                                  {"kind": "tzrange-form", "s": spec["s"]}, repr(ex))
                    forms = []
            for label, zf in forms:
                ctx.count("tzrange_form_" + label)
                check_zone(ctx, "tzrange", zf, spec, instants, expect, "tzrange:" + label)
                if not (zf == zr) or not (zr == zf):
                    ctx.violation("tzrange spelled with %s != the tzrange built from integer seconds" % label,
                                  {"kind": "eq-form", "s": spec["s"], "form": label},
                                  {"form": [repr(zf._start_delta), repr(zf._end_delta), repr(zf._std_offset), repr(zf._dst_offset)],
                                   "base": [repr(zr._start_delta), repr(zr._end_delta), repr(zr._std_offset), repr(zr._dst_offset)]})
        # tzlocal under TZ=<string> (glibc): only instants representable by time_t on this platform
        if k % 3 == 0:
            old = os.environ.get("TZ")
            try:
                os.environ["TZ"] = posix_canon(spec); time.tzset()
                zl = tz.tzlocal()
                check_zone(ctx, "tzlocal", zl, spec, instants, expect, "tzlocal")
                ctx.count("tzlocal_specs")
            finally:
                if old is None:
                    os.environ.pop("TZ", None)
                else:
                    os.environ["TZ"] = old
                time.tzset()
    # fixed-offset zones, GMT+h / UTC+h, posix_offset
    for name in ("GMT", "UTC"):
        for h in range(0, 15):
            for sign in "+-":
                s = "%s%s%d" % (name, sign, h)
                for posix in (False, True):
                    z = tz.tzstr(s, posix_offset=posix)
                    want = (1 if sign == "+" else -1) * h * 3600 * (-1 if posix else 1)
                    got = [int(datetime.datetime(2020, m, 15, tzinfo=z).utcoffset().total_seconds()) for m in (1, 7)]
                    ctx.case((s, posix)); ctx.count("gmt_utc_plus_h")
                    if got != [want, want] or z.hasdst:
                        ctx.violation("tzstr(%r, posix_offset=%r) offsets %r, expected %d" % (s, posix, got, want),
                                      {"kind": "gmt", "s": s, "posix": posix}, got)
    for s, want in (("EST5", -18000), ("EST+5", -18000), ("AAA-5:30", 19800), ("BRST+3", -10800), ("X-14", 50400), ("EST0500", -18000),
                    ("UTC", 0), ("GMT", 0), ("EST", 0)):
        z = tz.tzstr(s)
        got = [int(datetime.datetime(2020, m, 15, 12, tzinfo=z).utcoffset().total_seconds()) for m in (1, 4, 7, 10)]
        ctx.case((s, "fixed")); ctx.count("fixed_zone")
        if got != [want] * 4 or any(datetime.datetime(2020, m, 15, tzinfo=z).dst() for m in (1, 7)):
            ctx.violation("tzstr(%r) is not the fixed zone %d: %r" % (s, want, got), {"kind": "fixed", "s": s}, got)
    # malformed strings must raise ValueError (and nothing else)
    # NOT required: '' (GNU: empty TZ means UTC; tests/test_tz.py::test_valid_GNU_tzstr pins it as valid) and ','
    malformed = [("5", "no-abbr"), ("EST5EDT,M3.2.0", "one-rule"), ("EST5EDT,M3.2.0,M11.1.0,M1.1.1", "three-rules"),
                 ("EST5EDT,M3.2.0/2/3,M11.1.0", "surplus-time"), ("EST5EDT,M3.2,M11.1.0", "short-M"), ("EST5EDT,M3.2.0.1,M11.1.0", "long-M"),
                 ("EST5EDT,J60", "one-rule"), ("EST5EDT,,", "empty-rules"), ("EST+-5", "double-sign"), ("EST5EDT,M3.2.0,M11.1.0,", "trailing-comma"),
                 ("EST5EDT,X3.2.0,M11.1.0", "unknown-rule-letter"), ("EST5EDT,M3.2.0,M11.1.0/", "empty-time"), ("EST123", "3-digit-offset"),
                 ("EST5EDT,M3.2.0/2:,M11.1.0", "empty-minutes"), ("EST5EDT6GMT", "third-abbr")]
    unknown_chars = ["EST5EDT,M3.2.0,M11.1.0$", "EST5EDT,M3.2.0$,M11.1.0", "EST5EDT,M3.2.0,M11#1.0", "EST5EDT,M3.2.0,M11.1.0 ", "EST5EDT,M3.2.0, M11.1.0",
                     "EST5$EDT,M3.2.0,M11.1.0", "EST5_EDT", "EST5EDT,M3.2.0/2$,M11.1.0", "EST5EDT,M3_2_0,M11.1.0", "EST5EDT,M3.2.0|M11.1.0",
                     "EST+5EDT$", "EST5 EDT", "E$T5", "EST5:٣٠", "ÉST5", "EST5EDTé"]
    extra = []
    for _ in range(ctx.budget(300, 6000)):
        sp = gen_spec(rng)["s"]
        i = rng.randint(0, len(sp))
        c = rng.choice(["$", "#", " ", "_", "|", "~", "!", "é", "٣"])
        extra.append(sp[:i] + c + sp[i:])
    for s, cls in malformed + [(s, "unknown-char") for s in unknown_chars + extra]:
        with warnings.catch_warnings():
            warnings.simplefilter("ignore")
            try:
                z = tz.tzstr(s)
                out = "accepted"
            except ValueError:
                out = "ValueError"
            except Exception as ex:
                out = type(ex).__name__
        ctx.case((s, "malformed")); ctx.count("malformed_" + cls)
        if out != "ValueError":
            absorbed = None
            if out == "accepted":
                abbrs = (z._std_abbr or "") + (z._dst_abbr or "")
                absorbed = any(not (c.isascii() and c.isalpha()) for c in abbrs)
            ctx.violation("tzstr(%r) [%s]: %s instead of ValueError" % (s, cls, out),
                          {"kind": "malformed", "class": cls, "s": s, "outcome": out, "absorbed_into_abbr": absorbed}, None)
    ctx.sample({"malformed": "EST5EDT,M3.2.0", "expected": "ValueError"})

def _is_unicode_digit_offset(case):
    # a non-ASCII decimal digit inside the std/dst offset field (before the first comma): int() accepts it
    s = case.get("s", "").split(",")[0]
    return any(c.isdigit() and not c.isascii() for c in s)

KNOWN = {
    # _delta puts the time of day into the same relativedelta as the weekday; relativedelta applies the weekday AFTER adding the time
    # d_c08 is True only when explained_by_d_c08 confirmed the symptom (a well-formed state switched at the transition the
    # implementation itself computed, between it and the POSIX transition), not merely the input class
    "D-C08-time-before-weekday": lambda v: v["case"].get("kind") == "posix" and v["case"].get("d_c08") is True
        and v["case"].get("zone") in ("tzstr", "tzrange"),
    # (D-C08b-unknown-char-in-abbr was repaired: pending_fixes/D-C08b-unknown-char-in-abbr.diff; the malformed stream of the oracle —
    # a stray character inserted at every position of generated strings, non-ASCII digits in offsets — reports it again if it returns)
}

def replay(ctx, payload):
    from dateutil import tz
    c = payload["violation"]["case"]
    if c.get("kind") in ("history", "threads"):
        import tzshared as S
        from dateutil import relativedelta as rd
        print(payload["violation"]["what"])
        s = c["s"]
        fresh = lambda: tz.tzstr.instance(s)
        if c.get("overflowing_rules"):
            sp = c["spec"]
            fresh = lambda: tz.tzrange("AAA", sp["std"], "BBB", sp["dst"],
                                       rd.relativedelta(hours=+2, month=3, day=8, weekday=rd.SU(+1)) if not sp["south"] else rd.relativedelta(hours=+30, month=12, day=31),
                                       rd.relativedelta(hours=+30, month=12, day=31) if not sp["south"] else rd.relativedelta(hours=-3, month=1, day=1, weekday=rd.SU(+1)))
        with warnings.catch_warnings():
            warnings.simplefilter("ignore")
            if c["kind"] == "history":
                return S.replay_history(fresh(), fresh, c["history_wire"])
            return S.replay_threads(fresh, fresh, _range_funcs(), None, c)
    if c.get("kind") == "posix":
        sp = dict(c["spec"]); sp["s"] = c["s"]; sp["sr"] = tuple(sp["sr"]); sp["er"] = tuple(sp["er"])
        u = datetime.datetime.fromisoformat(c["utc"])
        e = ctx.driver(posix_query(sp, [u]))[0]
        z = tz.tzstr(c["s"])
        loc = u.replace(tzinfo=tz.UTC).astimezone(z)
        print("tzstr(%r) at %sZ: offset %s; POSIX: %s" % (c["s"], u, loc.utcoffset(), e))
        return int(loc.utcoffset().total_seconds()) == int(e.split()[1])
    try:
        tz.tzstr(c["s"]); print("accepted"); return False
    except ValueError:
        return True
    except Exception as ex:
        print(type(ex).__name__); return False


# --- appended by the translator tie (wt-iso): tzrange.__init__/transitions/__eq__ and tzstr._delta/__init__ are re-translated from tz/tz.py on every run
# (Generated/TzObjKernels.lean, harness/translate_obj.py) and compared with the implementation's methods
_correspondence_without_tzobj = correspondence


def correspondence(ctx):
    _correspondence_without_tzobj(ctx)
    import sys, tzobjlib
    tzobjlib.validate_str(ctx, sys.modules[__name__])
    import tzgenlib
    tzgenlib.validate_local(ctx)

TRUSTED = TRUSTED + [
    "translator tie: harness/translate_obj.py (ObjPy) re-translates tzrange.__init__/transitions/__eq__ and tzstr._delta/__init__ from /repo's working tree into Generated/TzObjKernels.lean on every run; Properties/TzObjGen.lean proves the translated functions equal to the hand model (gen_eq_model_* obligations in the Audit file); an edit of those functions changes the generated file and breaks the translation or a named obligation",
    "named primitives of the ObjPy translator (Model/ObjPy.lean), trusted with their documented meaning and exercised by the tzgen.ical.* / tzgen.str.* / tzgen.range.init|eq validation against the implementation's methods on every run: ASCII str.strip/int()/indexing/slicing, `comp.rrule.before(dt, inc=True)` as the last onset <= dt of the component's onset list, `list.index` on (naive datetime, fold) keys, list insert(0)/append/pop, `with self._cache_lock` transparent, `for` loops as monadic folds with a break flag, `relativedelta(**kwargs)` for the keywords month/day/weekday/yearday/nlyearday/seconds/hours producing the model's Delta record, `datetime(year,1,1) + relativedelta` = TzStr.applyDelta, `parser._parsetz` = TzStr.parse, timedelta(seconds=) with its OverflowError, int-or-None offset arguments (timedelta arguments not modelled), the object under construction as the tuple of its fields",
]
# --- end of the appended block

# --- appended by the translator tie (wt-iso), tzlocal: _naive_is_dst/is_ambiguous/_isdst/utcoffset/dst/tzname are re-translated
# (Generated/TzObjKernels.lean) and compared with a real tz.tzlocal() under TZ settings (op tzgen.local.wall, in tzgenlib.validate)
TRUSTED = TRUSTED + [
    "tzlocal translator tie: `time.localtime(u).tm_isdst` and `time.timezone` are named primitives (Model/ObjPy.lean: localtimeIsdst = the zone model's yearly-rule predicate localNaiveIsdst at u + stdoffset with the fraction floored, timeTimezone = -stdoffset); `getattr(dt, 'fold', None)` is the fold (Python >= 3.6); exercised against tz.tzlocal() under several TZ settings on every run",
]

# --- ONE ZONE OBJECT, MANY CALLS (wt-tzrule): tzstr objects are process-wide singletons, so whatever a lookup leaves behind on the
# object is seen by every later lookup of any thread.  harness/tzshared.py: history stream, two-thread schedule stream, AST audit.
def _range_funcs():
    from dateutil import tz
    from dateutil.tz import _common as C
    fs = [tz.tzrange.transitions]
    for name in ("utcoffset", "dst", "tzname", "fromutc", "is_ambiguous", "_isdst", "_naive_isdst", "_find_last_transition"):
        f = getattr(C.tzrangebase, name, None)
        if f is not None and hasattr(f, "__code__"):
            fs.append(f)
        elif f is not None and hasattr(f, "__wrapped__"):
            fs.append(f.__wrapped__)
    for cls in (tz.tzstr, tz.tzrange):       # methods the subclasses define themselves (a memo in an override is in reach as well)
        for name, f in vars(cls).items():
            if hasattr(f, "__code__") and name not in ("__init__", "__repr__", "__eq__", "_delta") and f not in fs:
                fs.append(f)
    return fs

def _year_queries(z, y, rng, n=2):
    """lookups of year y that depend on that year's transitions: walls within the hour around both transitions, both folds"""
    qs = []
    tr = z.transitions(y)
    if tr is None:
        return [("wall", datetime.datetime(y, 6, 1, 12), 0)]
    for t in tr:
        for _ in range(n):
            d = rng.choice([-3600, -1800, -1, 0, 1, 1799, 1800, 3599, 3600, 5400])
            w = t + datetime.timedelta(seconds=d)
            qs.append(("wall", w, rng.randint(0, 1)))
        qs.append(("utc", t + datetime.timedelta(seconds=rng.choice([-7200, -60, 0, 60, 7200]))))
    qs.append(("trans", y))
    return qs

def oracle_shared(ctx):
    import tzshared as S
    from dateutil import tz, relativedelta as rd
    rng = ctx.subrng("shared")
    funcs = _range_funcs()
    done = 0
    tries = 0
    want = ctx.budget(5, 40)
    while done < want and tries < 20 * want:
        tries += 1
        spec = gen_spec(rng)
        if in_d_c08(spec) or "M" not in (spec["sr"][0], spec["er"][0]):
            continue          # the transition dates must differ from year to year, or a stale year cannot show
        s = spec["s"]
        with warnings.catch_warnings():
            warnings.simplefilter("ignore")
            try:
                shared = tz.tzstr(s)                     # THE process-wide object for this string
                fresh = lambda s=s: tz.tzstr.instance(s)
                fresh()
            except Exception:
                continue
            done += 1
            case = {"zone": "tzstr", "s": s}
            years = rng.sample(range(1990, 2040), 14)
            hist = []
            for y in years:
                hist += _year_queries(fresh(), y, rng)
            hist += [("trans", 10000), ("trans", 0), ("wall", datetime.datetime(9999, 12, 31, 23, 30), 1), ("wall", datetime.datetime(1, 1, 1, 0, 10), 0)]
            for y in rng.sample(years, 8) + years[:3]:
                hist += _year_queries(fresh(), y, rng, n=1)
            if not S.history(ctx, "tzstr-singleton", shared, fresh, hist, case):
                continue
            # the equivalent tzrange with rules that overflow in year 9999 and underflow in year 1
            mk = lambda spec=spec: tz.tzrange("AAA", spec["std"], "BBB", spec["dst"],
                                              rd.relativedelta(hours=+2, month=3, day=8, weekday=rd.SU(+1)) if not spec["south"] else rd.relativedelta(hours=+30, month=12, day=31),
                                              rd.relativedelta(hours=+30, month=12, day=31) if not spec["south"] else rd.relativedelta(hours=-3, month=1, day=1, weekday=rd.SU(+1)))
            zr = mk()
            hist = []
            for y in rng.sample(range(1990, 2040), 12):
                hist += _year_queries(mk(), y, rng, n=1)
            edge = [("wall", datetime.datetime(9999, 6, 1, 12), 0), ("trans", 9999), ("wall", datetime.datetime(9999, 6, 1, 12), 0), ("wall", datetime.datetime(9998, 12, 31, 22), 1),
                    ("wall", datetime.datetime(1, 6, 1), 0), ("trans", 1), ("wall", datetime.datetime(1, 6, 1), 0), ("utc", datetime.datetime(9999, 7, 1)), ("wall", datetime.datetime(2, 1, 1), 0)]
            hist2 = list(hist)
            for e in edge:
                hist2.append(e)
                hist2 += _year_queries(mk(), rng.choice(range(1990, 2040)), rng, n=1)[:2]
            hist2 += hist[:10]
            if not S.history(ctx, "tzrange-raising", zr, mk, hist2, {"zone": "tzrange", "s": s, "overflowing_rules": True, "spec": {"std": spec["std"], "dst": spec["dst"], "south": spec["south"]}}):
                continue
            # two threads on one object, pre-empted at every statement of transitions / _isdst / _naive_isdst / utcoffset / ...
            if done > ctx.budget(2, 12):
                continue
            y0, y1 = rng.sample(range(2000, 2030), 2)
            f = fresh()
            offq = lambda y, k: [("off",) + q[1:] for q in _year_queries(f, y, rng, n=2) if q[0] == "wall"][:k]
            warm = offq(y0, 1)
            qa, qb_same, qb_old = offq(y1, 2), offq(y1, 1), offq(y0, 1)
            for jobs in ([qa[:1], qb_same], [qa[:1], qb_old], [qa, qb_old + qb_same]):
                if not S.threads(ctx, "tzstr-two-threads", fresh, fresh, funcs, None, warm, jobs, dict(case, years=[y0, y1])):
                    break
    ctx.count("shared_object_zones", done)

_oracle_without_shared = oracle

def oracle(ctx):
    _oracle_without_shared(ctx)
    oracle_shared(ctx)

_correspondence_without_audit = correspondence

def correspondence(ctx):
    _correspondence_without_audit(ctx)
    import tzshared
    tzshared.run_audit(ctx, ["tzrange", "tzstr", "tzrangebase", "tzlocal", "_tzinfo"])

TRUSTED = TRUSTED + [
    "one object, many calls: harness/tzshared.py — history stream on the process-wide tzstr singleton and on a tzrange whose rules overflow in year 9999 / underflow in year 1 (every answer compared with a fresh object's), two-thread statement-level schedules (sys.settrace) over transitions/_isdst/_naive_isdst/utcoffset/dst/tzname/fromutc, and an AST audit that no method of tzrange/tzstr/tzrangebase/tzlocal writes an attribute outside __init__ (C08.range_answers_pure is a statement about the translated functions, which take no state)",
]
# --- end of the appended block


# --- GMT / UTC as the standard abbreviation WITH a daylight part (wt-tzrule, second wave): `GMT+3BST,M3.5.0,M10.5.0` means +3 h in winter
# and +4 h in summer (dateutil flips the sign of the standard offset for these two names unless posix_offset is given; the implicit
# daylight offset is the FLIPPED standard offset + 1 h, and the end rule is converted with that saving).  The generated specs of the main
# sweep all call their zones AAA/BBB, so the interplay of the sign flip with the daylight part was never swept.
def gen_gmt_spec(rng):
    base = gen_spec(rng)
    while in_d_c08(base) or base["dst"] - base["std"] != 3600:
        base = gen_spec(rng)
    name = rng.choice(["GMT", "UTC"])
    h = rng.choice([-11, -9, -5, -3, -1, 1, 2, 3, 5, 8, 10, 12])
    posix = rng.random() < 0.3
    rules = base["s"].split(",", 1)[1]
    s = "%s%+d%s,%s" % (name, h, "BBB", rules)
    std = (-h if posix else h) * 3600
    spec = dict(base, s=s, std=std, dst=std + 3600, abbr=(name, "BBB"), posix_offset=posix)
    return spec

def oracle_gmt_dst(ctx):
    from dateutil import tz
    rng = ctx.subrng("gmt-dst")
    for k in range(ctx.budget(12, 200)):
        spec = gen_gmt_spec(rng)
        instants = probe_instants(spec, (2020, 2021), 0)
        expect = ctx.driver(posix_query(spec, [u for u, _ in instants]))
        with warnings.catch_warnings():
            warnings.simplefilter("ignore")
            try:
                z = tz.tzstr.instance(spec["s"], posix_offset=spec["posix_offset"])
            except Exception as ex:
                ctx.case((spec["s"], "ctor"))
                ctx.violation("tzstr(%r, posix_offset=%r) raised %s" % (spec["s"], spec["posix_offset"], type(ex).__name__), {"kind": "ctor", "s": spec["s"]}, repr(ex))
                continue
        ctx.count("gmt_utc_with_daylight_part" + ("_posix_offset" if spec["posix_offset"] else ""))
        check_zone(ctx, "tzstr", z, spec, instants, expect, "tzstr-gmt")

_oracle_without_gmt = oracle

def oracle(ctx):
    _oracle_without_gmt(ctx)
    oracle_gmt_dst(ctx)
# --- end of the appended block
