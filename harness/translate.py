#!/usr/bin/env python3
"""
translate.py — Python AST -> Lean 4 for "IntPy", plus a table dumper.

IntPy is deliberately small: integer locals and `self.<attr>` fields (Int or
Optional[int] read-only), `+ - * // %`, unary minus, comparisons (chained),
`and/or/not`, int truthiness, `x in (a, b, …)` / `not in` over integer values and module-level integer constants, `is None` / `is not None`, `if/elif/else`,
assignment, augmented assignment, `a, b = divmod(x, k)`, `abs`, `int`, `_sign`,
`assert`, `raise X(...)`, `return` of an int expression / tuple /
`datetime.date(y, m, d)` (returned as the triple).

Translation scheme (SSA by construction):
  x = e ; rest                      ↦  let x := ⟦e⟧; ⟦rest⟧
  if c: A else: B ; rest            ↦  let (v1,…,vk) := if ⟦c⟧ then ⟦A⟧;(v1,…,vk) else ⟦B⟧;(v1,…,vk); ⟦rest⟧
                                       (v = names assigned in A or B; a name not
                                       yet bound on a path is given the dummy 0 —
                                       Python would raise NameError if it were read)
  if c: raise E ; rest              ↦  if ⟦c⟧ then .error E else ⟦rest⟧
  return e                          ↦  .ok ⟦e⟧   (or ⟦e⟧ for functions that cannot raise)
  x // k, x % k  (k positive literal) ↦ x / k, x % k   (Lean Int ediv/emod = floor for k > 0)
  x // e, x % e  otherwise            ↦ Py.fdiv x e, Py.fmod x e
Anything outside IntPy raises Untranslatable(construct) — a *broken tie* for the
properties importing the generated file (DESIGN §2.6).
"""
import ast, sys, os, textwrap, hashlib

class Untranslatable(Exception):
    pass

ERRS = {"ValueError", "IndexError", "OverflowError", "TypeError", "AssertionError"}

class FnSpec:
    def __init__(self, file, qualname, leanname, params, ret, self_attrs=None,
                 self_type=None, can_raise=False, mutates=False, bool_params=()):
        self.file = file; self.qualname = qualname; self.leanname = leanname
        self.params = params          # list of (pyname, leantype) excluding self
        self.ret = ret                # lean return type (payload)
        self.self_attrs = self_attrs or {}   # attr -> ('Int'|'OptInt', leanfield)
        self.self_type = self_type
        self.can_raise = can_raise
        self.mutates = mutates
        self.bool_params = set(bool_params)

def find_function(tree, qualname):
    parts = qualname.split(".")
    node = tree
    for p in parts:
        for child in ast.iter_child_nodes(node):
            if isinstance(child, (ast.FunctionDef, ast.ClassDef)) and child.name == p:
                node = child
                break
        else:
            raise Untranslatable("function %s not found" % qualname)
    return node

class Tr:
    def __init__(self, spec, consts=None):
        self.spec = spec
        self.consts = consts or {}      # module-level NAME = <int literal>
        self.types = {}   # local name -> 'Int' | 'Bool' | 'OptInt'
        for n, t in spec.params:
            self.types[n] = t
        for a, (t, _) in spec.self_attrs.items():
            self.types["self_" + a] = t

    # ---------- expressions ----------
    def name_of(self, node):
        if isinstance(node, ast.Name):
            return node.id
        if isinstance(node, ast.Attribute) and isinstance(node.value, ast.Name) and node.value.id == "self":
            if node.attr not in self.spec.self_attrs:
                raise Untranslatable("self.%s not declared" % node.attr)
            return "self_" + node.attr
        raise Untranslatable(ast.dump(node))

    def expr(self, e):
        """integer-valued expression"""
        if isinstance(e, ast.Constant):
            if isinstance(e.value, bool) or not isinstance(e.value, int):
                raise Untranslatable("constant %r" % (e.value,))
            return str(e.value) if e.value >= 0 else "(%d)" % e.value
        if isinstance(e, ast.Name) and e.id not in self.types and e.id in self.consts:
            v = self.consts[e.id]
            return str(v) if v >= 0 else "(%d)" % v
        if isinstance(e, (ast.Name, ast.Attribute)):
            n = self.name_of(e)
            return n
        if isinstance(e, ast.UnaryOp) and isinstance(e.op, ast.USub):
            return "(-%s)" % self.expr(e.operand)
        if isinstance(e, ast.BinOp):
            l, r = self.expr(e.left), self.expr(e.right)
            if isinstance(e.op, ast.Add): return "(%s + %s)" % (l, r)
            if isinstance(e.op, ast.Sub): return "(%s - %s)" % (l, r)
            if isinstance(e.op, ast.Mult): return "(%s * %s)" % (l, r)
            poslit = isinstance(e.right, ast.Constant) and isinstance(e.right.value, int) \
                and not isinstance(e.right.value, bool) and e.right.value > 0
            if isinstance(e.op, ast.FloorDiv):
                return "(%s / %s)" % (l, r) if poslit else "(Py.fdiv %s %s)" % (l, r)
            if isinstance(e.op, ast.Mod):
                return "(%s %% %s)" % (l, r) if poslit else "(Py.fmod %s %s)" % (l, r)
            raise Untranslatable("binop %s" % type(e.op).__name__)
        if isinstance(e, ast.Call) and isinstance(e.func, ast.Name):
            f = e.func.id
            if f == "abs" and len(e.args) == 1: return "(Py.iabs %s)" % self.expr(e.args[0])
            if f == "_sign" and len(e.args) == 1: return "(Py.sign %s)" % self.expr(e.args[0])
            if f == "int" and len(e.args) == 1: return self.expr(e.args[0])
            raise Untranslatable("call %s" % f)
        raise Untranslatable(type(e).__name__)

    def cond(self, e):
        """Prop-valued condition"""
        if isinstance(e, ast.BoolOp):
            op = " ∧ " if isinstance(e.op, ast.And) else " ∨ "
            return "(" + op.join(self.cond(v) for v in e.values) + ")"
        if isinstance(e, ast.UnaryOp) and isinstance(e.op, ast.Not):
            return "(¬ %s)" % self.cond(e.operand)
        if isinstance(e, ast.Compare):
            parts = []
            left = e.left
            for op, right in zip(e.ops, e.comparators):
                if isinstance(op, (ast.In, ast.NotIn)):
                    # `x in (a, b, c)` on integer values  ↦  (x = a ∨ x = b ∨ x = c)
                    if not isinstance(right, ast.Tuple) or not right.elts:
                        raise Untranslatable("membership in a non-tuple")
                    l = self.expr(left)
                    alts = " ∨ ".join("(%s = %s)" % (l, self.expr(el)) for el in right.elts)
                    parts.append("(%s)" % alts if isinstance(op, ast.In) else "(¬ (%s))" % alts)
                    left = right
                    continue
                if isinstance(op, (ast.Is, ast.IsNot)):
                    if not (isinstance(right, ast.Constant) and right.value is None):
                        raise Untranslatable("is")
                    n = self.name_of(left)
                    if self.types.get(n) != "OptInt":
                        raise Untranslatable("is None on non-optional %s" % n)
                    parts.append("(%s %s none)" % (n, "=" if isinstance(op, ast.Is) else "≠"))
                else:
                    sym = {ast.Lt: "<", ast.LtE: "≤", ast.Gt: ">", ast.GtE: "≥",
                           ast.Eq: "=", ast.NotEq: "≠"}.get(type(op))
                    if sym is None:
                        raise Untranslatable("cmp %s" % type(op).__name__)
                    parts.append("(%s %s %s)" % (self.expr(left), sym, self.expr(right)))
                left = right
            return parts[0] if len(parts) == 1 else "(" + " ∧ ".join(parts) + ")"
        if isinstance(e, (ast.Name, ast.Attribute)):
            n = self.name_of(e)
            t = self.types.get(n, "Int")
            if t == "Bool": return "(%s = true)" % n
            if t == "Int": return "(%s ≠ 0)" % n
            raise Untranslatable("truthiness of %s : %s" % (n, t))
        # integer expression used as truth value
        return "(%s ≠ 0)" % self.expr(e)

    # ---------- statements ----------
    def assigned(self, stmts):
        out = []
        def add(n):
            if n not in out: out.append(n)
        for s in stmts:
            if isinstance(s, ast.Assign):
                for t in s.targets:
                    if isinstance(t, ast.Tuple):
                        for el in t.elts: add(self.name_of(el))
                    else: add(self.name_of(t))
            elif isinstance(s, ast.AugAssign):
                add(self.name_of(s.target))
            elif isinstance(s, ast.If):
                for n in self.assigned(s.body) + self.assigned(s.orelse): add(n)
        return out

    def reads(self, stmts):
        out = set()
        for s in stmts:
            for n in ast.walk(s):
                if isinstance(n, ast.Name):
                    out.add(n.id)
                elif isinstance(n, ast.Attribute) and isinstance(n.value, ast.Name) and n.value.id == "self":
                    out.add("self_" + n.attr)
        return out

    def terminates(self, stmts):
        """every path through stmts ends in return/raise"""
        if not stmts: return False
        last = stmts[-1]
        if isinstance(last, (ast.Return, ast.Raise)): return True
        if isinstance(last, ast.If):
            return self.terminates(last.body) and self.terminates(last.orelse)
        return False

    def block(self, stmts, tail, ind, bound, live_out=frozenset()):
        """translate stmts; `tail` is the Lean text for 'what happens after' (or None = must terminate)."""
        pad = "  " * ind
        if not stmts:
            if tail is None: raise Untranslatable("fall off end")
            return pad + tail
        s, rest = stmts[0], stmts[1:]
        if isinstance(s, ast.Expr) and isinstance(s.value, ast.Constant):
            return self.block(rest, tail, ind, bound, live_out)            # docstring
        if isinstance(s, ast.Assign):
            if len(s.targets) != 1: raise Untranslatable("chained assign")
            t = s.targets[0]
            if isinstance(t, ast.Tuple):
                v = s.value
                if not (isinstance(v, ast.Call) and isinstance(v.func, ast.Name) and v.func.id == "divmod"
                        and len(t.elts) == 2 and len(v.args) == 2):
                    raise Untranslatable("tuple assign")
                a, b = self.name_of(t.elts[0]), self.name_of(t.elts[1])
                fake_q = ast.BinOp(left=v.args[0], op=ast.FloorDiv(), right=v.args[1])
                fake_r = ast.BinOp(left=v.args[0], op=ast.Mod(), right=v.args[1])
                q, r = self.expr(fake_q), self.expr(fake_r)
                self.types[a] = "Int"; self.types[b] = "Int"
                nb = bound | {a, b}
                return "%slet %s := %s\n%slet %s := %s\n%s" % (pad, a, q, pad, b, r, self.block(rest, tail, ind, nb, live_out))
            n = self.name_of(t)
            val = self.expr(s.value)
            self.types.setdefault(n, "Int")
            return "%slet %s := %s\n%s" % (pad, n, val, self.block(rest, tail, ind, bound | {n}, live_out))
        if isinstance(s, ast.AugAssign):
            n = self.name_of(s.target)
            fake = ast.BinOp(left=s.target, op=s.op, right=s.value)
            return "%slet %s := %s\n%s" % (pad, n, self.expr(fake), self.block(rest, tail, ind, bound | {n}, live_out))
        if isinstance(s, ast.Assert):
            c = self.cond(s.test)
            return "%sif ¬ %s then .error .AssertionError else\n%s" % (pad, c, self.block(rest, tail, ind, bound, live_out))
        if isinstance(s, ast.Raise):
            exc = s.exc
            name = exc.func.id if isinstance(exc, ast.Call) and isinstance(exc.func, ast.Name) else \
                (exc.id if isinstance(exc, ast.Name) else None)
            if name not in ERRS: raise Untranslatable("raise %r" % name)
            if not self.spec.can_raise: raise Untranslatable("raise in non-raising function")
            return "%s.error .%s" % (pad, name)
        if isinstance(s, ast.Return):
            v = s.value
            if isinstance(v, ast.Call) and isinstance(v.func, ast.Attribute) and v.func.attr == "date" \
                    and len(v.args) == 3:
                val = "(%s, %s, %s)" % tuple(self.expr(a) for a in v.args)
            elif isinstance(v, ast.Tuple):
                val = "(" + ", ".join(self.expr(a) for a in v.elts) + ")"
            else:
                val = self.expr(v)
            return "%s%s" % (pad, (".ok " + val) if self.spec.can_raise else val)
        if isinstance(s, ast.If):
            c = self.cond(s.test)
            tb, te = self.terminates(s.body), self.terminates(s.orelse)
            if tb and te:
                return "%sif %s then\n%s\n%selse\n%s" % (
                    pad, c, self.block(s.body, None, ind + 1, bound), pad, self.block(s.orelse, None, ind + 1, bound))
            if tb and not s.orelse:
                return "%sif %s then\n%s\n%selse\n%s" % (
                    pad, c, self.block(s.body, None, ind + 1, bound), pad, self.block(rest, tail, ind, bound, live_out))
            if tb or te:
                raise Untranslatable("half-terminating if")
            live = self.reads(rest) | set(live_out)
            vs = [v for v in self.assigned([s]) if v in live or (v.startswith("self_") and self.spec.mutates)]
            if not vs:
                raise Untranslatable("if without live effect")
            for v in vs: self.types.setdefault(v, "Int")
            pre = ""
            nb = set(bound)
            for v in vs:
                if v not in nb:
                    pre += "%slet %s : Int := 0  -- unbound here in Python\n" % (pad, v)
                    nb.add(v)
            tup = vs[0] if len(vs) == 1 else "(" + ", ".join(vs) + ")"
            thn = self.block(s.body, tup, ind + 1, nb, frozenset(live))
            els = self.block(s.orelse, tup, ind + 1, nb, frozenset(live))
            return "%s%slet %s := if %s then\n%s\n%s  else\n%s\n%s" % (
                pre, pad, tup, c, thn, pad, els, self.block(rest, tail, ind, nb, live_out))
        raise Untranslatable(type(s).__name__)

    def function(self, fn):
        sp = self.spec
        params = []
        if sp.self_type: params.append("(self : %s)" % sp.self_type)
        for n, t in sp.params:
            params.append("(%s : %s)" % (n, {"OptInt": "Option Int"}.get(t, t)))
        bound = {n for n, _ in sp.params}
        head = ""
        for a, (t, f) in sp.self_attrs.items():
            head += "  let self_%s := self.%s\n" % (a, f)
            bound.add("self_" + a)
        if sp.mutates:
            ws = self.assigned(fn.body)
            upd = ", ".join("%s := self_%s" % (sp.self_attrs[w[5:]][1], w[5:]) for w in ws if w.startswith("self_"))
            tail = "{ self with %s }" % upd
            ret = sp.self_type
        else:
            tail = None
            ret = sp.ret
        body = self.block(fn.body, tail, 1, bound)
        rty = "Py.R (%s)" % ret if sp.can_raise else ret
        return "def %s %s : %s :=\n%s%s\n" % (sp.leanname, " ".join(params), rty, head, body)


def translate_function(src_root, spec):
    path = os.path.join(src_root, spec.file)
    tree = ast.parse(open(path).read())
    fn = find_function(tree, spec.qualname)
    consts = {}
    for node in tree.body:
        if isinstance(node, ast.Assign) and len(node.targets) == 1 and isinstance(node.targets[0], ast.Name) \
                and isinstance(node.value, ast.Constant) and isinstance(node.value.value, int) \
                and not isinstance(node.value.value, bool):
            consts[node.targets[0].id] = node.value.value
    return Tr(spec, consts).function(fn), hashlib.sha256(ast.dump(fn).encode()).hexdigest()[:16]


def lean_int_list(name, xs, ty="Int", per_line=31):
    body = ", ".join(str(int(x)) for x in xs)
    lines = textwrap.fill(body, 100)
    return "def %s : List %s := [\n%s]\n" % (name, ty, textwrap.indent(lines, "  "))

def lean_str_list(name, xs):
    def q(s): return '"' + s.replace("\\", "\\\\").replace('"', '\\"') + '"'
    return "def %s : List String := [%s]\n" % (name, ", ".join(q(x) for x in xs))
