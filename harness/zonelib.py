"""
zonelib.py — shared by props/c04.py, c05.py, c06.py: the system TZif database, synthetic TZif
streams, canonical renderings of the implementation's answers (same line formats as
lean/DateutilVerif/Ops/Zones.lean), probe-point generation, an independent timeline reader.
"""
import os, io, struct, hashlib, datetime, tarfile, tempfile, shutil, warnings

ROOT = "/usr/share/zoneinfo"
EPOCH = datetime.datetime(1970, 1, 1)
TD = datetime.timedelta


def hexs(s):
    b = s.encode("utf-8") if isinstance(s, str) else bytes(s)
    return b.hex() if b else "."


def ilist(xs):
    return "[" + ",".join(str(int(x)) for x in xs) + "]"


# ------------------------------------------------------------------ real database

_db_cache = {}


def system_zones(right=False):
    """[(name, all names with that content, bytes)] for the distinct TZif files of the system
    database; `right/` (leap-second) files only on request"""
    key = bool(right)
    if key in _db_cache:
        return _db_cache[key]
    seen = {}
    for dp, dn, fn in os.walk(ROOT):
        dn.sort()
        for f in sorted(fn):
            p = os.path.join(dp, f)
            rel = os.path.relpath(p, ROOT)
            is_right = rel.startswith("right/")
            if is_right != key or rel.startswith("posix/"):
                continue
            try:
                b = open(p, "rb").read()
            except OSError:
                continue
            if b[:4] != b"TZif":
                continue
            seen.setdefault(hashlib.sha1(b).hexdigest(), [b, []])[1].append(rel)
    out = []
    for h, (b, names) in seen.items():
        names.sort(key=lambda n: (0 if "/" in n and not n.startswith("Etc/") else 1, n))
        out.append((names[0], names, b))
    out.sort()
    _db_cache[key] = out
    return out


def v1_counts(b):
    return struct.unpack(">6l", b[20:44])   # isgmt, isstd, leap, time, type, char


# ------------------------------------------------------------------ synthetic streams

def mk_tzif(trans, types, isstd=None, isgmt=None, leaps=(), version=b"\0", shared_abbr=False,
            counts=None, tail=b"", abbr_table=None):
    """version-1 TZif block.  trans: [(utc, type index)], types: [(off, isdst, abbr)];
    abbr_table=(table bytes, [index per type]) overrides the abbreviation layout (zic-style sharing)"""
    if abbr_table is not None:
        table, idx = abbr_table
    elif shared_abbr:
        table, idx = b"", []
        for _, _, a in types:
            a = a.encode() + b"\0"
            k = table.find(a)
            if k < 0:
                k = len(table); table += a
            idx.append(k)
    else:
        table, idx = b"", []
        for _, _, a in types:
            idx.append(len(table)); table += a.encode() + b"\0"
    isstd = list(isstd if isstd is not None else [0] * len(types))
    isgmt = list(isgmt if isgmt is not None else [0] * len(types))
    c = counts or (len(isgmt), len(isstd), len(leaps), len(trans), len(types), len(table))
    out = b"TZif" + version + b"\0" * 15 + struct.pack(">6l", *c)
    out += b"".join(struct.pack(">l", t) for t, _ in trans)
    out += bytes(i for _, i in trans)
    for (off, isdst, _), k in zip(types, idx):
        out += struct.pack(">lbB", off, isdst, k)
    out += table
    for a, b_ in leaps:
        out += struct.pack(">ll", a, b_)
    out += bytes(isstd) + bytes(isgmt)
    return out + tail


H = 3600
T0 = 1_000_000_000 - 1_000_000_000 % 86400    # a midnight in 2001


def synthetic_shapes():
    """named TZif streams for transition shapes that real data lacks or has rarely"""
    d = 86400
    S = {}
    # negative DST (Dublin style): summer is the standard type, winter has isdst=1 and a smaller offset
    S["negative_dst"] = mk_tzif(
        [(T0, 1), (T0 + 150 * d, 0), (T0 + 365 * d, 1), (T0 + 515 * d, 0), (T0 + 730 * d, 1)],
        [(H, 0, "IST"), (0, 1, "GMT")])
    # DST -> DST (double summer time)
    S["dst_to_dst"] = mk_tzif(
        [(T0, 1), (T0 + 60 * d, 2), (T0 + 120 * d, 1), (T0 + 200 * d, 0), (T0 + 365 * d, 1),
         (T0 + 425 * d, 2), (T0 + 485 * d, 1), (T0 + 565 * d, 0)],
        [(0, 0, "GMT"), (H, 1, "BST"), (2 * H, 1, "BDST")])
    # base offset changes together with a DST flip
    S["base_change_with_flip"] = mk_tzif(
        [(T0, 1), (T0 + 180 * d, 2), (T0 + 365 * d, 3), (T0 + 545 * d, 2), (T0 + 700 * d, 0)],
        [(-5 * H, 0, "EST"), (-4 * H, 1, "EDT"), (-4 * H, 0, "AST"), (-3 * H, 1, "ADT")])
    S["base_change_flip_direct"] = mk_tzif(
        [(T0, 3), (T0 + 180 * d, 0), (T0 + 365 * d, 1), (T0 + 500 * d, 2), (T0 + 700 * d, 0)],
        [(-5 * H, 0, "EST"), (-4 * H, 1, "EDT"), (-4 * H, 0, "AST"), (-3 * H, 1, "ADT")])
    # base offset changes without a DST flip (std -> std, dst -> dst)
    S["base_change_no_flip"] = mk_tzif(
        [(T0, 1), (T0 + 100 * d, 2), (T0 + 200 * d, 3), (T0 + 300 * d, 4), (T0 + 400 * d, 0),
         (T0 + 500 * d, 1)],
        [(2 * H, 0, "EET"), (3 * H, 0, "MSK"), (4 * H, 1, "MSD"), (5 * H, 1, "XSD"), (3 * H + 1800, 0, "HALF")])
    # type change that keeps the offset (abbreviation / isdst only)
    S["same_offset_type_change"] = mk_tzif(
        [(T0, 1), (T0 + 100 * d, 2), (T0 + 200 * d, 0), (T0 + 300 * d, 3), (T0 + 400 * d, 0)],
        [(H, 0, "CET"), (H, 0, "MEZ"), (H, 1, "WEST"), (2 * H, 1, "CEST")])
    # standard-offset set-backs in a table with NO isdst=1 record at all (Europe/Moscow 2014, America/Caracas 2007 style):
    # the repeated hour exists although nothing in the file is "daylight" -- fold must come from the tables, not from dst()
    S["std_setback_no_dst_record"] = mk_tzif(
        [(T0, 1), (T0 + 200 * d, 0), (T0 + 400 * d, 2), (T0 + 600 * d, 1)],
        [(4 * H, 0, "MSK"), (3 * H, 0, "MSK"), (4 * H + 1800, 0, "VET")])
    # negative DST whose winter type also changes the base offset later (Dublin 1968-71 style), half-hour amounts
    S["negative_dst_half_hour"] = mk_tzif(
        [(T0, 1), (T0 + 150 * d, 0), (T0 + 365 * d, 2), (T0 + 515 * d, 0), (T0 + 730 * d, 1)],
        [(H, 0, "IST"), (0, 1, "GMT"), (1800, 1, "HMT")])
    S["single_type"] = mk_tzif([(T0, 0), (T0 + 100 * d, 0), (T0 + 200 * d, 0)], [(19800, 0, "IST")])
    S["single_type_dst"] = mk_tzif([(T0, 0), (T0 + 100 * d, 0)], [(H, 1, "XDT")])
    S["no_transitions"] = mk_tzif([], [(-7 * H, 0, "MST")])
    S["no_transitions_two_types"] = mk_tzif([], [(H, 1, "DDT"), (0, 0, "SST")])
    S["one_transition"] = mk_tzif([(T0, 1)], [(0, 0, "AAA"), (H, 1, "BBB")])
    S["two_transitions"] = mk_tzif([(T0, 1), (T0 + 100 * d, 0)], [(0, 0, "AAA"), (H, 1, "BBB")])
    S["first_backward"] = mk_tzif([(T0, 1), (T0 + 100 * d, 0), (T0 + 200 * d, 1)],
                                  [(3 * H, 0, "LMT"), (2 * H, 0, "EET")])
    S["first_type_is_dst"] = mk_tzif([(T0, 0), (T0 + 100 * d, 1), (T0 + 200 * d, 0), (T0 + 300 * d, 1)],
                                     [(2 * H, 1, "DST"), (H, 0, "STD")])
    S["all_dst"] = mk_tzif([(T0, 1), (T0 + 100 * d, 0), (T0 + 200 * d, 1), (T0 + 300 * d, 0)],
                           [(H, 1, "ADT"), (2 * H, 1, "BDT")])
    S["ends_on_dst"] = mk_tzif([(T0, 1), (T0 + 100 * d, 0), (T0 + 200 * d, 1)],
                               [(0, 0, "STD"), (H, 1, "DST")])
    S["sub_minute"] = mk_tzif([(T0, 1), (T0 + 100 * d, 2), (T0 + 200 * d, 1), (T0 + 300 * d, 2)],
                              [(1172, 0, "LMT"), (1200, 0, "AMT"), (4772, 1, "NST")])
    S["half_and_two_hours"] = mk_tzif(
        [(T0, 1), (T0 + 100 * d, 0), (T0 + 200 * d, 2), (T0 + 300 * d, 0), (T0 + 400 * d, 1)],
        [(10 * H + 1800, 0, "LHST"), (11 * H, 1, "LHDT"), (12 * H + 1800, 1, "LHXT")])
    S["back_to_back"] = mk_tzif(
        [(T0, 1), (T0 + 2 * H, 0), (T0 + 4 * H, 1), (T0 + 6 * H, 2), (T0 + 9 * H, 0)],
        [(0, 0, "AAA"), (1800, 1, "BBB"), (-1800, 0, "CCC")])
    S["date_line_jump"] = mk_tzif([(T0, 1), (T0 + 100 * d, 0), (T0 + 200 * d, 1)],
                                  [(-10 * H, 0, "OLD"), (14 * H, 0, "NEW")])
    S["isdst_other_values"] = mk_tzif([(T0, 1), (T0 + 100 * d, 0), (T0 + 200 * d, 2), (T0 + 300 * d, 0)],
                                      [(0, 0, "STD"), (H, 2, "TWO"), (2 * H, -1, "NEG")])
    S["shared_abbr_flags_leaps"] = mk_tzif(
        [(T0, 1), (T0 + 100 * d, 2), (T0 + 200 * d, 0), (T0 + 300 * d, 1)],
        [(0, 0, "GMT"), (H, 1, "BST"), (H, 0, "BST")], isstd=[1, 0, 1], isgmt=[1, 0],
        leaps=[(78796800, 1), (94694401, 2)], shared_abbr=True, tail=b"TZif2 trailing v2 data")
    # abbreviation tables beyond 127 bytes (tt_abbrind is an UNSIGNED byte; /repo 3b2dec8) ----------
    d30 = 30 * d
    S["abbr_table_200_bytes_40_types"] = mk_tzif(
        [(T0 + i * d30, i) for i in range(40)], [(i * 900, i % 3 == 1, "A%03d" % i) for i in range(40)])
    S["abbr_table_250_bytes_50_types"] = mk_tzif(
        [(T0 + i * d30, (i * 7) % 50) for i in range(60)], [(-36000 + i * 1800, i % 2, "Z%03d" % i) for i in range(50)])
    S["abbr_table_256_bytes_last_index_255"] = mk_tzif(
        [(T0 + i * d30, i) for i in range(52)],
        [(i * 600, 0, "B%03d" % i) for i in range(51)] + [(3600, 1, "")],          # 51*5 = 255, then "" at index 255
    )
    S["abbr_index_128_boundary"] = mk_tzif(
        [(T0 + i * d30, i) for i in range(30)], [(i * 1200, i % 2, "C%02d" % i) for i in range(33)])   # starts 0,4,…,128
    # zic-style sharing: HST is a suffix of AHST, several types point into one string
    tbl = b"LMT\0AHST\0HDT\0HWT\0HPT\0"
    S["abbr_suffix_shared_AHST_HST"] = mk_tzif(
        [(T0, 1), (T0 + 100 * d, 2), (T0 + 200 * d, 3), (T0 + 300 * d, 4), (T0 + 400 * d, 5), (T0 + 500 * d, 2)],
        [(-37886, 0, "LMT"), (-36000, 0, "AHST"), (-36000, 0, "HST"), (-32400, 1, "HDT"), (-32400, 1, "HWT"), (-32400, 1, "HPT")],
        abbr_table=(tbl, [0, 4, 5, 9, 13, 17]))
    big = b"".join(b"L%03d\0" % i for i in range(45))                                    # 225 bytes, suffix pointers beyond 127
    S["abbr_suffix_shared_beyond_127"] = mk_tzif(
        [(T0 + i * d30, i) for i in range(45)],
        [(i * 300, i % 2, ("L%03d" % i)[(i % 3):]) for i in range(45)],
        abbr_table=(big, [i * 5 + (i % 3) for i in range(45)]))
    # more than 128 types: transition TYPE INDICES, isstd/isgmt positions and abbreviation indices >= 128
    # (all three one-byte tables are unsigned in tzfile(5); seed C06E)
    S["types_200_solar_indices_ge_128"] = mk_tzif(
        [(T0 + i * 7 * d, (i * 37) % 200) for i in range(230)],
        [(15000 + i * 8, 0, "LMT") for i in range(200)],
        isstd=[i % 2 for i in range(200)], isgmt=[(i // 3) % 2 for i in range(200)],
        abbr_table=(b"LMT\0", [0] * 200))
    t256 = (b"AB\0" * 85) + b"\0"                                                    # 256 bytes
    i256 = [(i * 3) % 255 if i < 255 else 255 for i in range(256)]
    S["types_256_all_used_abbrind_255"] = mk_tzif(
        [(T0 + i * 11 * d, 255 - i) for i in range(256)],
        [(-43200 + i * 300, i % 2, "AB" if k < 255 else "") for i, k in zip(range(256), i256)],
        isstd=[1] * 256, isgmt=[i % 2 for i in range(256)], abbr_table=(t256, i256))
    S["types_129_last_index_128"] = mk_tzif(
        [(T0 + i * d30, i) for i in range(129)], [(i * 60, 0, "T") for i in range(129)],
        abbr_table=(b"T\0", [0] * 129), isstd=[0] * 128 + [1], isgmt=[0] * 128 + [1])
    S["forward_larger_than_spacing"] = mk_tzif(
        [(T0, 1), (T0 + 1800, 2), (T0 + 100 * d, 0), (T0 + 200 * d, 1)],
        [(0, 0, "AAA"), (2 * H, 0, "BBB"), (5 * H, 0, "CCC")])
    # violates WF (reported, not required): a set-back larger than the distance to the neighbour
    S["nonwf_backward_larger_than_spacing"] = mk_tzif(
        [(T0, 1), (T0 + 1800, 0), (T0 + 100 * d, 1), (T0 + 100 * d + 600, 0), (T0 + 200 * d, 1)],
        [(2 * H, 0, "AAA"), (0, 0, "BBB")])
    S["nonwf_two_setbacks_overlap"] = mk_tzif(
        [(T0, 1), (T0 + 5400, 2), (T0 + 100 * d, 0)],
        [(2 * H, 0, "AAA"), (H, 0, "BBB"), (0, 0, "CCC")])
    S["nonwf_unsorted"] = mk_tzif([(T0 + 100 * d, 1), (T0, 0), (T0 + 200 * d, 1)],
                                  [(0, 0, "AAA"), (H, 1, "BBB")])
    return S


def malformed_streams():
    good = mk_tzif([(T0, 1), (T0 + 86400, 0)], [(0, 0, "AAA"), (H, 1, "BBB")], isstd=[1, 0], isgmt=[0, 1])
    M = {}
    M["empty"] = b""
    M["bad_magic"] = b"TZix" + good[4:]
    M["short_magic"] = b"TZ"
    M["undecodable_magic"] = b"\xff\xfe\xfd\xfc" + good[4:]
    M["truncated_header"] = good[:30]
    M["truncated_times"] = good[:47]
    M["truncated_idx"] = good[:53]
    M["truncated_ttinfo"] = good[:60]
    M["truncated_abbr"] = good[:68]
    M["truncated_isstd"] = good[:-3]
    M["truncated_isgmt"] = good[:-1]
    M["index_out_of_range"] = mk_tzif([(T0, 2)], [(0, 0, "AAA"), (H, 1, "BBB")])
    M["no_types_with_transition"] = mk_tzif([(T0, 0)], [])
    M["no_types_no_transitions"] = mk_tzif([], [])
    M["negative_timecnt"] = mk_tzif([], [(0, 0, "AAA")], counts=(0, 0, 0, -2, 1, 4))
    M["negative_typecnt"] = mk_tzif([], [], counts=(0, 0, 0, 0, -1, 0))
    M["negative_isstdcnt"] = mk_tzif([], [(0, 0, "AAA")], counts=(0, -1, 0, 0, 1, 4))
    M["negative_charcnt"] = mk_tzif([(T0, 0)], [(0, 0, "AAA")], counts=(0, 0, 0, 1, 1, -1))
    M["leap_beyond_eof"] = mk_tzif([(T0, 0)], [(0, 0, "AAA")], isstd=[1], counts=(0, 1, 5, 1, 1, 4))
    M["negative_leapcnt"] = mk_tzif([(T0, 0)], [(0, 0, "AAA")], isstd=[1], counts=(0, 1, -1, 1, 1, 4))
    M["abbr_without_nul"] = b"TZif" + b"\0" * 16 + struct.pack(">6l", 0, 0, 0, 1, 1, 3) + struct.pack(">l", T0) + b"\0" + struct.pack(">lbB", H, 0, 0) + b"ABC"
    M["abbr_index_past_end"] = b"TZif" + b"\0" * 16 + struct.pack(">6l", 0, 0, 0, 1, 1, 4) + struct.pack(">l", T0) + b"\0" + struct.pack(">lbB", H, 0, 9) + b"ABC\0"
    M["abbr_index_negative"] = b"TZif" + b"\0" * 16 + struct.pack(">6l", 0, 0, 0, 1, 1, 8) + struct.pack(">l", T0) + b"\0" + struct.pack(">lbb", H, 0, -4) + b"ABC\0DEF\0"
    M["abbr_index_negative_no_nul"] = b"TZif" + b"\0" * 16 + struct.pack(">6l", 0, 0, 0, 1, 1, 7) + struct.pack(">l", T0) + b"\0" + struct.pack(">lbb", H, 0, -3) + b"ABC\0DEF"
    M["abbr_non_ascii"] = b"TZif" + b"\0" * 16 + struct.pack(">6l", 0, 0, 0, 1, 1, 4) + struct.pack(">l", T0) + b"\0" + struct.pack(">lbB", H, 0, 0) + b"A\xffC\0"
    M["more_flags_than_types"] = mk_tzif([(T0, 0)], [(0, 0, "AAA")], isstd=[1, 1, 0], isgmt=[1, 1])
    return M


def random_table(rng, wf=True):
    """a random transition table; with wf=True set-backs never overlap"""
    ntypes = rng.randint(1, 6)
    # offsets (and hence derived dstoffsets) stay less than 24 h apart: CPython rejects |dst()| >= 24 h
    offs = [rng.choice([0, 1800, 3600, -3600, 7200, 5400, -16200, 1172, 36000, 41400, -36000, 900])
            + rng.choice([0, 0, 0, 3600, -1800]) for _ in range(ntypes)]
    types = [(offs[i], rng.choice([0, 0, 1]), "T%d" % i if rng.random() < 0.9 else "") for i in range(ntypes)]
    n = rng.randint(1, 14)
    firststd = next((t for t in types if t[1] == 0), types[0])
    prev = firststd[0]
    t = T0 + rng.randint(-400, 400) * 86400
    trans = []
    last_setback = 0
    for i in range(n):
        k = rng.randrange(ntypes)
        setback = max(0, prev - types[k][0])
        if i > 0:
            gap = rng.choice([600, 1800, 3600, 7200, 86400, 86400 * 30, 86400 * 182])
            if wf:
                gap = max(gap, last_setback + setback + rng.choice([1, 1, 2, 60, 3600]))
            t += gap
        trans.append((t, k))
        last_setback = setback
        prev = types[k][0]
    return mk_tzif(trans, types)


# ------------------------------------------------------------------ the implementation, canonically

def exc_name(ex):
    if isinstance(ex, struct.error):
        return "StructError"
    for k in (IndexError, KeyError, OverflowError, AttributeError, TypeError):
        if isinstance(ex, k):
            return k.__name__
    if isinstance(ex, ValueError):
        return "ValueError"         # includes UnicodeDecodeError
    return type(ex).__name__


def tt_dump(t):
    return "%d/%d/%s/%d/%d/%d" % (t.offset, t.isdst, hexs(t.abbr), int(bool(t.isstd)), int(bool(t.isgmt)),
                                  int(t.dstoffset.total_seconds()))


def tt_opt(t):
    return "-" if t is None else tt_dump(t)


def impl_dump(z):
    return ("ok utc=%s tl=%s w0=%s w1=%s tts=[%s] types=[%s] std=%s dst=%s before=%s" % (
        ilist(z._trans_list_utc), ilist(z._trans_list), ilist(z._trans_list_wall[0]), ilist(z._trans_list_wall[1]),
        ",".join(tt_dump(t) for t in z._trans_idx), ",".join(tt_dump(t) for t in z._ttinfo_list),
        tt_opt(z._ttinfo_std), tt_opt(z._ttinfo_dst), tt_opt(z._ttinfo_before)))


def impl_load(data):
    """(zone or None, canonical line)"""
    from dateutil import tz
    try:
        z = tz.tzfile(io.BytesIO(data), filename="synthetic")
    except Exception as ex:
        return None, "err " + exc_name(ex)
    return z, impl_dump(z)


def ts(dt):
    """whole seconds since the epoch of the naive reading (floor)"""
    d = dt.replace(tzinfo=None) - EPOCH
    return d.days * 86400 + d.seconds


def secs(td):
    if td is None:
        return "-"
    assert td.microseconds == 0
    return str(td.days * 86400 + td.seconds)


def guard(f):
    try:
        return f()
    except Exception as ex:
        return "!" + exc_name(ex)


def name_hex(n):
    return "-" if n is None else hexs(n)


def impl_fromutc_line(z, t, us=0, with_dst_name=True):
    """utc.astimezone(z): wall,fold,utcoffset[,dst,tzname]"""
    from dateutil import tz
    try:
        u = (EPOCH + TD(seconds=t, microseconds=us)).replace(tzinfo=tz.UTC)
        w = u.astimezone(z)
        w2 = z.fromutc(u.replace(tzinfo=z))
        if (w2.replace(tzinfo=None), w2.fold) != (w.replace(tzinfo=None), w.fold):
            return "!astimezone/fromutc differ"
        if w.microsecond != us:
            return "!microsecond changed"
    except Exception as ex:
        return "!" + exc_name(ex)
    parts = ["%d" % ts(w), "%d" % w.fold, guard(lambda: secs(w.utcoffset()))]
    if with_dst_name:
        parts += [guard(lambda: secs(w.dst())), guard(lambda: name_hex(w.tzname()))]
    return ",".join(parts)


def wall_dt(z, w, fold, us=0):
    return (EPOCH + TD(seconds=w, microseconds=us)).replace(tzinfo=z, fold=fold)


def rwall(dt):
    return "%d,%d" % (ts(dt), dt.fold)


def impl_wall_line(z, w, us=0, with_dst_name=True):
    """amb;off,[dst,name,]exists,riwall,rifold;… for fold 0 and 1"""
    from dateutil import tz
    a0 = guard(lambda: "%d" % tz.datetime_ambiguous(wall_dt(z, w, 0, us)))
    a1 = guard(lambda: "%d" % tz.datetime_ambiguous(wall_dt(z, w, 1, us)))
    out = [a0 if a0 == a1 else "%s|%s" % (a0, a1)]
    for f in (0, 1):
        dt = wall_dt(z, w, f, us)
        parts = [guard(lambda: secs(dt.utcoffset()))]
        if with_dst_name:
            parts += [guard(lambda: secs(dt.dst())), guard(lambda: name_hex(dt.tzname()))]
        parts += [guard(lambda: "%d" % tz.datetime_exists(dt)), guard(lambda: rwall(tz.resolve_imaginary(dt)))]
        out.append(",".join(parts))
    return ";".join(out)


# ------------------------------------------------------------------ independent reading of the bytes

class Timeline:
    """the version-1 block read directly with struct (no dateutil code): transitions, types,
    and the offset in force at an instant"""

    def __init__(self, data):
        c = struct.unpack(">6l", data[20:44])
        self.counts = c
        isgmtcnt, isstdcnt, leapcnt, timecnt, typecnt, charcnt = c
        p = 44
        self.utc = list(struct.unpack(">%dl" % timecnt, data[p:p + 4 * timecnt])); p += 4 * timecnt
        self.idx = list(data[p:p + timecnt]); p += timecnt
        recs = [struct.unpack(">lbB", data[p + 6 * i:p + 6 * i + 6]) for i in range(typecnt)]; p += 6 * typecnt
        table = data[p:p + charcnt]
        self.types = [(o, d, table[a:table.index(b"\0", a)].decode()) for o, d, a in recs]
        self.first = next((t for t in self.types if not t[1]), self.types[0] if self.types else None)

    def type_at(self, t):
        cur = self.first
        for u, i in zip(self.utc, self.idx):
            if u <= t:
                cur = self.types[i]
            else:
                break
        return cur

    def seg_index(self, t):
        import bisect
        return bisect.bisect_right(self.utc, t) - 1

    def offsets_seq(self):
        """offset before each transition and after it"""
        prev = self.first[0] if self.first else 0
        out = []
        for u, i in zip(self.utc, self.idx):
            out.append((u, prev, self.types[i][0]))
            prev = self.types[i][0]
        return out

    def wf(self):
        seq = self.offsets_seq()
        for (u0, b0, a0), (u1, b1, a1) in zip(seq, seq[1:]):
            if not (max(0, b0 - a0) + max(0, b1 - a1) < u1 - u0):
                return False
        return True

    def wf_coarse(self):
        seq = self.offsets_seq()
        for (u0, b0, a0), (u1, b1, a1) in zip(seq, seq[1:]):
            if not (abs(a0 - b0) < u1 - u0 and abs(a1 - b1) < u1 - u0):
                return False
        return True

    def pre(self, w):
        """all UTC instants t with t + offset_in_force(t) == w"""
        cands = {w - o for o, _, _ in self.types}
        return sorted(t for t in cands if t + self.type_at(t)[0] == w)


DELTAS = (1, 1800, 3600, 7200)


def probe_points(tl, limit_last=True):
    """(utc probes, wall probes) around every transition: ± {0, 1 s, 30 min, 1 h, 2 h, Δ, Δ±1}"""
    ups, wps = set(), set()
    for u, b, a in tl.offsets_seq():
        dl = abs(a - b)
        ds = {0}
        for x in DELTAS + (dl, dl + 1, dl - 1):
            ds.add(x); ds.add(-x)
        for x in ds:
            ups.add(u + x)
            wps.add(u + b + x)
            wps.add(u + a + x)
    return sorted(ups), sorted(wps)


# ------------------------------------------------------------------ archive for the ZoneInfoFile path

def build_archive(zones):
    """tar.gz with one regular member per distinct file and link members for the other names
    (alternating symlinks and hard links); returns (tmpdir, path)"""
    tmp = tempfile.mkdtemp(prefix="verif-zoneinfo-")
    path = os.path.join(tmp, "zoneinfo.tar.gz")
    with tarfile.open(path, "w:gz") as tf:
        k = 0
        for name, names, data in zones:
            ti = tarfile.TarInfo(name); ti.size = len(data)
            tf.addfile(ti, io.BytesIO(data))
            for other in names:
                if other == name:
                    continue
                li = tarfile.TarInfo(other)
                li.type = tarfile.SYMTYPE if k % 2 == 0 else tarfile.LNKTYPE
                li.linkname = name
                tf.addfile(li)
                k += 1
    return tmp, path


def remove_archive(tmp):
    shutil.rmtree(tmp, ignore_errors=True)


# ------------------------------------------------------------------ selections per tier

INTERESTING = [
    "Europe/Dublin", "Africa/Casablanca", "Africa/El_Aaiun", "Europe/London", "Europe/Moscow",
    "Australia/Lord_Howe", "Pacific/Kiritimati", "Pacific/Apia", "America/New_York", "America/St_Johns",
    "Asia/Kolkata", "Asia/Kathmandu", "Africa/Monrovia", "America/Caracas", "Antarctica/Troll",
    "Asia/Pyongyang", "Europe/Amsterdam", "Africa/Windhoek", "Europe/Prague", "America/Sao_Paulo",
    "Australia/Sydney", "Pacific/Chatham", "Asia/Tehran", "America/Havana", "Europe/Lisbon",
    "Atlantic/Azores", "Antarctica/Casey", "America/Godthab", "Asia/Gaza", "Pacific/Tongatapu",
    "America/Juneau", "Asia/Manila", "Europe/Paris", "Europe/Berlin", "Pacific/Kwajalein",
    "America/Anchorage", "Asia/Dhaka", "Europe/Riga", "Asia/Tokyo", "UTC", "EST5EDT", "Etc/GMT+12",
]


def pick_zones(ctx, tag, quick_n=60):
    zs = system_zones()
    if ctx.tier == "thorough" or ctx.escalated:
        return zs
    byname = {}
    for z in zs:
        for n in z[1]:
            byname[n] = z
    pick, seen = [], set()
    for n in INTERESTING:
        z = byname.get(n)
        if z is not None and z[0] not in seen:
            seen.add(z[0]); pick.append(z)
    rest = [z for z in zs if z[0] not in seen]
    ctx.subrng(tag).shuffle(rest)
    return pick + rest[:max(0, quick_n - len(pick))]


def synthetic_set(ctx, tag, quick_n=40, thorough_n=400):
    """[(name, bytes)]: the named shapes plus seeded random tables (WF and not)"""
    out = [("syn:" + k, v) for k, v in synthetic_shapes().items()]
    rng = ctx.subrng(tag)
    n = ctx.budget(quick_n, thorough_n)
    for i in range(n):
        wf = i % 5 != 4
        out.append(("rnd%s:%d" % ("" if wf else "-nonwf", i), random_table(rng, wf=wf)))
    return out


def model_zone_lines(ctx, data, ups, wps, extra=()):
    """[load, fromutc, wall] model lines for one stream (+ extra ops)"""
    hx = hexs(data)
    reqs = ["tzfile.load %s" % hx, "tzfile.fromutc %s %s" % (hx, ilist(ups)), "tzfile.wall %s %s" % (hx, ilist(wps))]
    reqs += ["%s %s %s" % (op, hx, ilist(xs)) if xs is not None else "%s %s" % (op, hx) for op, xs in extra]
    return reqs


def diff_lines(points, impl_line, model_line):
    """positions where two `ok a b c …` lines differ"""
    es, gs = impl_line.split(), model_line.split()
    if len(es) != len(gs) or es[0] != gs[0]:
        return [("*", impl_line[:200], model_line[:200])]
    return [(p, a, b) for p, a, b in zip(points, es[1:], gs[1:]) if a != b]


# ------------------------------------------------------------------ non-tzfile zones (C04/C05)

TZSTRS = [
    "EST5EDT,M3.2.0,M11.1.0", "EST5EDT", "AEST-10AEDT,M10.1.0,M4.1.0/3", "CET-1CEST,M3.5.0,M10.5.0/3",
    "GMT0BST,M3.5.0/1,M10.5.0", "NZST-12NZDT,M9.5.0,M4.1.0/3", "LHST-10:30LHDT-11,M10.1.0,M4.1.0",
    "IST-5:30", "UTC0", "NST3:30NDT,M3.2.0/0:01,M11.1.0/0:01", "AAA-1BBB-3,M3.5.0/2,M10.5.0/4",
    "WART4WARST,J1/0,J365/25",
]
NEG_SAVING_TZSTRS = ["IST-1GMT0,M10.5.0,M3.5.0/1"]       # D-C05r
LOCAL_TZS = ["EST5EDT,M3.2.0,M11.1.0", "AEST-10AEDT,M10.1.0,M4.1.0/3", "CET-1CEST,M3.5.0,M10.5.0/3", "UTC0", "IST-5:30"]
YEARS = [1971, 1999, 2000, 2003, 2020, 2021, 2037]

VTZ = """BEGIN:VCALENDAR
BEGIN:VTIMEZONE
TZID:US-Eastern
BEGIN:STANDARD
DTSTART:19671029T020000
RRULE:FREQ=YEARLY;BYDAY=-1SU;BYMONTH=10
TZOFFSETFROM:-0400
TZOFFSETTO:-0500
TZNAME:EST
END:STANDARD
BEGIN:DAYLIGHT
DTSTART:19870405T020000
RRULE:FREQ=YEARLY;BYDAY=1SU;BYMONTH=4
TZOFFSETFROM:-0500
TZOFFSETTO:-0400
TZNAME:EDT
END:DAYLIGHT
END:VTIMEZONE
END:VCALENDAR
"""


def range_zone_params(z, years):
    """(std, dst, hasdst, [y,on,off,…]) of a tzrangebase instance, transitions as naive standard-time seconds"""
    std = int(z._std_offset.total_seconds()); dst = int(z._dst_offset.total_seconds())
    tbl = []
    for y in years:
        tr = z.transitions(y)
        if tr is not None:
            tbl += [y, ts(tr[0]), ts(tr[1])]
    return std, dst, int(bool(z.hasdst)), tbl


def range_probes(z, years):
    """UTC and wall probes around both yearly transitions of a range zone (and the year ends)"""
    std = int(z._std_offset.total_seconds()); dst = int(z._dst_offset.total_seconds())
    sv = abs(dst - std)
    ds = {0}
    for x in DELTAS + (sv, sv + 1, sv - 1):
        ds.add(x); ds.add(-x)
    ups, wps = set(), set()
    for y in years:
        tr = z.transitions(y) if z.hasdst else None
        marks = [ts(datetime.datetime(y, 7, 1))]
        if tr is not None:
            marks += [ts(tr[0]), ts(tr[1])]
        for m in marks:
            for x in ds:
                ups.add(m - std + x); ups.add(m - dst + x)
                wps.add(m + x); wps.add(m + (dst - std) + x)
    return sorted(ups), sorted(wps)


def year_edge_probes(years, offs):
    out = set()
    for y in years:
        b = ts(datetime.datetime(y, 1, 1))
        for o in offs:
            for x in (-1, 0, 1, -3600, 3600):
                out.add(b - o + x); out.add(b + x)
    return sorted(out)


def near_year_edge(z, years):
    """a yearly transition of the range zone lies within |offset| + |saving| of 1 January (either side)"""
    if not z.hasdst:
        return False
    std = int(z._std_offset.total_seconds()); dst = int(z._dst_offset.total_seconds())
    m = max(abs(std), abs(dst)) + abs(dst - std)
    for y in years:
        tr = z.transitions(y)
        if tr is None:
            continue
        for x in tr:
            for yy in (y, y + 1):
                if abs(ts(x) - ts(datetime.datetime(yy, 1, 1))) <= m:
                    return True
    return False


# ------------------------------------------------------------------ known-finding discipline (review F1/F2/F8)

def range_case_fields(z, x, wall=False):
    """per-instant facts for the D-C05r / D-C04y matchers; x = UTC instant (or wall second when wall=True)"""
    std = int(z._std_offset.total_seconds()); dst = int(z._dst_offset.total_seconds())
    has = bool(z.hasdst)
    sav = (dst - std) if has else 0
    m = max(abs(std), abs(dst)) + abs(sav)
    dt = EPOCH + TD(seconds=x)
    d_ny = min(abs(x - ts(datetime.datetime(y, 1, 1))) for y in (dt.year, dt.year + 1))
    d_tr = None
    if has:
        cands = []
        for y in (dt.year - 1, dt.year, dt.year + 1):
            if 1 < y < 9999:
                tr = z.transitions(y)
                if tr is not None:
                    for q in tr:
                        n = ts(q)
                        cands += ([n, n + sav, n - sav] if wall else [n - std, n - dst])
        if cands:
            d_tr = min(abs(x - c) for c in cands)
    return {"hasdst": has, "saving": sav, "near_newyear": bool(d_ny <= m),
            "near_transition": bool(d_tr is not None and d_tr <= 2 * abs(sav) + 1)}


def k_c05r(v):
    c = v["case"]
    return (c.get("kind") == "range" and c.get("hasdst") is True and c.get("saving", 0) < 0
            and c.get("near_transition") is True and c.get("model_same") is True)


def k_c04y(v):
    c = v["case"]
    return (c.get("kind") == "range" and c.get("hasdst") is True and c.get("saving", 0) > 0
            and c.get("near_year_edge") is True and c.get("near_newyear") is True and c.get("model_same") is True)


def report(ctx, known, what, case, detail=None, keep=3):
    """ctx.violation, but failures matching a KNOWN class are stored at most `keep` times per class
    (they are still counted), so that the 200-entry buffer stays available for unknown failures"""
    v = {"what": what, "case": case, "detail": detail}
    for kid, pred in known.items():
        try:
            hit = pred(v)
        except Exception:
            hit = False
        if hit:
            ctx.count("known_class:" + kid)
            if ctx.hist["known_class:" + kid] > keep:
                ctx.count("oracle_failures")
                return
            break
    ctx.violation(what, case, detail)


# ------------------------------------------------------------------ VTIMEZONEs with finite rules (seed C04G)

VTZ_MULTI_ERA = """BEGIN:VCALENDAR
BEGIN:VTIMEZONE
TZID:Eastern-eras
BEGIN:DAYLIGHT
DTSTART:19870405T020000
RRULE:FREQ=YEARLY;BYMONTH=4;BYDAY=1SU;UNTIL=20060402T070000Z
TZOFFSETFROM:-0500
TZOFFSETTO:-0400
TZNAME:EDT
END:DAYLIGHT
BEGIN:STANDARD
DTSTART:19871025T020000
RRULE:FREQ=YEARLY;BYMONTH=10;BYDAY=-1SU;UNTIL=20061029T060000Z
TZOFFSETFROM:-0400
TZOFFSETTO:-0500
TZNAME:EST
END:STANDARD
BEGIN:DAYLIGHT
DTSTART:20070311T020000
RRULE:FREQ=YEARLY;BYMONTH=3;BYDAY=2SU
TZOFFSETFROM:-0500
TZOFFSETTO:-0400
TZNAME:EDT
END:DAYLIGHT
BEGIN:STANDARD
DTSTART:20071104T020000
RRULE:FREQ=YEARLY;BYMONTH=11;BYDAY=1SU
TZOFFSETFROM:-0400
TZOFFSETTO:-0500
TZNAME:EST
END:STANDARD
END:VTIMEZONE
END:VCALENDAR
"""

VTZ_RDATE = """BEGIN:VCALENDAR
BEGIN:VTIMEZONE
TZID:Rdate-only
BEGIN:STANDARD
DTSTART:20001029T020000
RDATE:20011028T020000,20021027T020000,20031026T020000,20041031T020000
TZOFFSETFROM:-0400
TZOFFSETTO:-0500
TZNAME:EST
END:STANDARD
BEGIN:DAYLIGHT
DTSTART:20010401T020000
RDATE:20020407T020000,20030406T020000,20040404T020000
TZOFFSETFROM:-0500
TZOFFSETTO:-0400
TZNAME:EDT
END:DAYLIGHT
END:VTIMEZONE
END:VCALENDAR
"""

VTZ_COUNT = """BEGIN:VCALENDAR
BEGIN:VTIMEZONE
TZID:Count-limited
BEGIN:STANDARD
DTSTART:20001029T030000
RRULE:FREQ=YEARLY;BYMONTH=10;BYDAY=-1SU;COUNT=6
TZOFFSETFROM:+0200
TZOFFSETTO:+0100
TZNAME:CET
END:STANDARD
BEGIN:DAYLIGHT
DTSTART:20010325T020000
RRULE:FREQ=YEARLY;BYMONTH=3;BYDAY=-1SU;COUNT=5
TZOFFSETFROM:+0100
TZOFFSETTO:+0200
TZNAME:CEST
END:DAYLIGHT
END:VTIMEZONE
END:VCALENDAR
"""

FINITE_VTZS = [("multi-era", VTZ_MULTI_ERA), ("rdate", VTZ_RDATE), ("count", VTZ_COUNT)]


def load_vtz(text):
    from dateutil import tz
    with warnings.catch_warnings():
        warnings.simplefilter("ignore")
        return tz.tzical(io.StringIO(text)).get()


def vtz_onsets_utc(z, lo=1999, hi=2012):
    """UTC seconds of every onset of every component between the years lo..hi"""
    out = set()
    for comp in z._comps:
        start = datetime.datetime(lo, 1, 1); end = datetime.datetime(hi, 1, 1)
        for on in comp.rrule.between(start, end, inc=True):
            out.add(ts(on) - int(comp.tzoffsetfrom.total_seconds()))
    return sorted(out)
